#!/usr/bin/env python3
"""Compose /verif/seeded/<ID>/meta.json from the sub-agent's meta and the maintainer's own confirmation logs (/tmp/seed/<ID>.*)."""
import glob, json, os, re, sys
ids = sys.argv[1:]
ROOT = os.environ.get("SEED_ROOT", "/tmp/seed")
SFX = os.environ.get("SEED_SUFFIX", "")
for i in ids:
    out = f"/verif/seeded/{i}{SFX}"
    am = {}
    try:
        am = json.load(open(f"{out}/agent_meta.json"))
    except Exception:
        pass
    log = open(f"{ROOT}/{i}.seedcheck.log").read()
    res = re.search(r"RESULT .*", log)
    checks = {}
    for f in glob.glob(f"{ROOT}/{i}.check_*.log"):
        p = re.search(r"check_(C\d+)\.log", f).group(1)
        t = open(f).read()
        mechs = re.findall(r"mechanism=(\S+)", t)
        last = t.strip().splitlines()[-1] if t.strip() else ""
        checks[p] = {"caught": "violated" in last, "verdict_line": last[:200], "mechanisms": sorted(set(mechs))[:8]}
    m = re.search(r"demo_with=(\d+) demo_without=(\d+) tests=(.*?) checks:", res.group(0)) if res else None
    meta = {
        "id": i + SFX,
        "property_broken": am.get("property", i),
        "written_by": "fresh sub-agent given only the property text and a scratch worktree of /repo (nothing from /verif)",
        "summary": am.get("summary"),
        "needs_to_manifest": am.get("needs_to_manifest"),
        "files_changed": am.get("files_changed"),
        "confirmed_by_maintainer": {
            "how": "tools/seedcheck.sh in the scratch worktree %s: demo with the change, demo with the change reverted, full pinned test suite with the change, then ./check against the worktree (VERIF_REPO)" % f"{ROOT}/{i}",
            "demo_exit_with_change": int(m.group(1)) if m else None,
            "demo_exit_without_change": int(m.group(2)) if m else None,
            "test_suite_with_change": m.group(3).strip() if m else None,
            "baseline": "18530 passed, 3 failed + collection errors in 4 files pre-existing (per-worker error lines vary with -n)",
        },
        "checks_run_against_it": checks,
    }
    try:
        for line in open(f"{ROOT}/missed_as_built.txt"):
            if line.startswith(i + " "):
                meta["as_built"] = line.strip()[len(i) + 1:]
    except OSError:
        pass
    meta.setdefault("as_built", "caught by the check as it stood when the change was written")
    json.dump(meta, open(f"{out}/meta.json", "w"), indent=1)
    if os.path.exists(f"{out}/agent_meta.json"):
        os.remove(f"{out}/agent_meta.json")
    print(i, {k: v["caught"] for k, v in checks.items()})
