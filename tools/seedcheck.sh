#!/bin/sh
# usage: tools/seedcheck.sh C06 [props-to-run...]   -- confirm an independently seeded break and run checks against it
# SEED_ROOT (default /tmp/seed) and SEED_SUFFIX (e.g. -2 for a second round) select the campaign.
# The break lives in the scratch worktree $SEED_ROOT/<ID> (patch applied, _seed/{patch.diff,demo.py,meta.json}).
id="$1"; shift
root=${SEED_ROOT:-/tmp/seed}
sfx=${SEED_SUFFIX:-}
wt=$root/$id
props="${*:-$id}"
out=/verif/seeded/$id$sfx
mkdir -p "$out"
cd "$wt" || exit 2
git diff -- btclib > $root/$id.current.diff
echo "== demo with the change"
/venv/bin/python _seed/demo.py > $root/$id.demo_with.log 2>&1; with=$?
git apply -R $root/$id.current.diff || { echo "cannot revert"; exit 2; }
echo "== demo without the change"
/venv/bin/python _seed/demo.py > $root/$id.demo_without.log 2>&1; without=$?
git apply $root/$id.current.diff || { echo "cannot re-apply"; exit 2; }
echo "demo exit with=$with without=$without"
echo "== repository test suite with the change"
/venv/bin/python -m pytest -q -p no:cacheprovider --continue-on-collection-errors -n ${SEED_JOBS:-8} tests 2>&1 | tail -1 > $root/$id.tests.log
cat $root/$id.tests.log
cd /verif
res=""
for p in $props; do
  echo "== ./check $p against the change"
  VERIF_REPO=$wt VERIF_JOBS=${CHECK_JOBS:-12} ./check $p --tier quick --no-evidence > $root/$id.check_$p.log 2>&1; rc=$?
  grep -m2 "mechanism=" $root/$id.check_$p.log | cut -c1-300
  tail -1 $root/$id.check_$p.log
  res="$res $p:rc=$rc"
done
cp "$wt/_seed/patch.diff" "$wt/_seed/demo.py" "$out/" 2>/dev/null
cp "$wt/_seed/meta.json" "$out/agent_meta.json" 2>/dev/null
echo "RESULT $id demo_with=$with demo_without=$without tests=$(cat $root/$id.tests.log) checks:$res"
