#!/venv/bin/python
"""Apply each deliberate break of mutations/<prop>.json to a scratch copy of /repo/btclib
(under /tmp, removed afterwards) and run the property's check against the copy.

usage: tools/mutcheck.py C01 [--tier quick] [--only name] [--jobs 4]
Prints one line per mutation: caught (exit 1 + VIOLATION), MISSED (exit 0) or inconclusive (exit 3).
"""
import argparse, json, os, shutil, subprocess, sys, tempfile
from concurrent.futures import ThreadPoolExecutor

ROOT = os.path.dirname(os.path.dirname(os.path.abspath(__file__)))


def run_one(prop, tier, mut, check_jobs):
    d = tempfile.mkdtemp(prefix="rvmut-", dir="/tmp")
    try:
        shutil.copytree("/repo/btclib", os.path.join(d, "btclib"))
        for ed in mut["edits"]:
            path = os.path.join(d, ed["file"])
            s = open(path).read()
            if s.count(ed["old"]) != 1:
                return mut["name"], "BAD-PATCH", f"{ed['file']}: old text occurs {s.count(ed['old'])}x"
            open(path, "w").write(s.replace(ed["old"], ed["new"]))
        env = dict(os.environ, VERIF_REPO=d, VERIF_JOBS=str(check_jobs))
        p = subprocess.run([os.path.join(ROOT, "check"), prop, "--tier", tier, "--no-evidence"] +
                           (["--only", mut["only"]] if mut.get("only") else []),
                           capture_output=True, text=True, env=env, cwd=ROOT)
        mechs = [l.strip() for l in p.stdout.splitlines() if l.strip().startswith("mechanism=")]
        status = {0: "MISSED", 1: "caught", 3: "inconclusive"}.get(p.returncode, f"rc={p.returncode}")
        return mut["name"], status, (mechs[0][:160] if mechs else p.stdout.strip().splitlines()[-1][:200] if p.stdout.strip() else p.stderr[-200:])
    finally:
        shutil.rmtree(d, ignore_errors=True)


def main():
    ap = argparse.ArgumentParser()
    ap.add_argument("prop"); ap.add_argument("--tier", default="quick"); ap.add_argument("--only")
    ap.add_argument("--jobs", type=int, default=4)
    a = ap.parse_args()
    muts = json.load(open(os.path.join(ROOT, "mutations", a.prop.lower() + ".json")))
    if a.only:
        muts = [m for m in muts if a.only in m["name"]]
    with ThreadPoolExecutor(a.jobs) as ex:
        res = list(ex.map(lambda m: run_one(a.prop, a.tier, m, max(2, 16 // a.jobs)), muts))
    missed = 0
    for name, status, detail in res:
        print(f"{status:12s} {name}: {detail}")
        missed += status != "caught"
    print(f"{len(res) - missed}/{len(res)} caught")
    return 0


if __name__ == "__main__":
    sys.exit(main())
