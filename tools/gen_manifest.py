#!/usr/bin/env python3
"""Regenerate MANIFEST.json from the table below (kept valid at all times)."""
import json, os
ROOT = os.path.dirname(os.path.dirname(os.path.abspath(__file__)))
BASE_OFF = "cd /repo && env -u BTCLIB_VERIF /venv/bin/python -m pytest -ra -q -p no:cacheprovider --timeout=900 --continue-on-collection-errors"

CHECKS = {
 "C01": dict(
  technique="runtime monitoring: reference-model (differential) monitor over enumerated and class-stratified executions, reach counters via sys.monitoring",
  text="Every product returned by mult / PreparedPoint.mult / double_mult_var / multi_mult_var, the low-level Jacobian operations, the modular helpers and the SEC codec is compared at run time with an independent affine reference (brute-force groups on every toy curve the constructor admits, exhaustively over scalars and points; discrete-log bookkeeping and OpenSSL on the 27 catalogued curves, both arms on secp256k1). Malformed curve parameter sets and off-curve points must be refused. Held = no divergence on the executions listed in evidence; not a proof.",
  note="Trusted base: rv/ref/ec.py (affine law, pow(x,-1,p)), OpenSSL via cryptography as second oracle. Curves whose valid parameters the SEC 1 cofactor formula refuses are counted, not judged.",
  ref="DESIGN.md section 3 C01"),
 "C08": dict(
  technique="runtime monitoring: differential monitor against an executable transcription of Bitcoin Core's interpreter (self-tested on Core's vectors), structured spend generation, both arithmetic arms",
  text="Every generated spend (random and structured programs over all byte values, limit-edge builders, signature templates in every legacy/P2SH/segwit-v0 wrapping with reference-made signatures of every kind, taproot key and script paths) is judged at run time by rv/ref/core.py and by verify_input under the same flags; accept/reject must agree, a refusal must be a library exception, and for signature-free programs verify_script's final stack must equal the model's. Held = no divergence other than listed known findings on the executions in evidence.",
  note="Trusted base: rv/ref/core.py reproduces all applicable script_tests.json / tx_valid.json / tx_invalid.json vectors (re-checked by the oracle-selftest shard on every run; failure => INCONCLUSIVE). No Core binary in the sandbox. Error codes are used to classify divergences only.",
  ref="DESIGN.md section 3 C08"),
 "C09": dict(
  technique="runtime monitoring: reference-model (differential) monitor on generated transactions against transcriptions of Core's SignatureHash / BIP143 / BIP341, self-tested on published vectors",
  text="Every digest returned by sig_hash.legacy / segwit_v0 / taproot (direct and with PrecomputedTxData), sig_hash.from_tx for every previous-output type, psbt.ecdsa_sig_hash / taproot_sig_hash and the PsbtView equivalents is compared byte for byte at run time with the reference transcription on generated (transaction, index, script code, hash type, amount, annex, extension) tuples; inputs the BIPs declare an error must be refused. Held = no difference on the executions in evidence.",
  note="Trusted base: rv/ref/core.py sighash transcriptions, re-validated on every run against sighash.json (500), the BIP341 wallet vectors and Core's tx_valid/script_tests witness vectors; failure => INCONCLUSIVE.",
  ref="DESIGN.md section 3 C09"),
 "C04": dict(
  technique="runtime monitoring: differential monitor between the two arithmetic arms (each registered call executed with the bindings serving and switched off, outcomes canonicalised), dispatch-predicate hook recording which arm served",
  text="Every registered dual-path entry point (multiplications, SEC conversions, ECDSA/BIP340 sign/verify/recover/Signer, BMS, nonce commitment, BIP32 private/public derivation and tweaks, taproot tweaks and control-block check, ECDH, ElligatorSwift, MuSig2 partial verification, silent-payment sender and scanners, engine signature wrappers and whole-input verdicts) is run at run time on valid and hostile inputs once per arm with rebuilt arguments; returned bytes/booleans and exception classes must be equal, and the bindings must not serve while switched off. A case counts as non-trivial only when the dispatch hook saw the bindings serve it.",
  note="Trusted base: none beyond the comparison itself (the oracle is the other arm); needs the btclib_secp256k1 bindings installed, otherwise INCONCLUSIVE. Private helpers are driven within their documented preconditions (engine.dsa_verify is not handed a high s, fix_signature normalising it upstream; _mult_sec_var gets valid SEC octets).",
  ref="DESIGN.md section 3 C04"),
 "C02": dict(
  technique="runtime monitoring: reference-model monitor (SEC 1 / RFC 6979 / BIP66 transcriptions, OpenSSL as second oracle), exhaustive toy-curve enumeration plus class-stratified catalogued-curve workloads on both arms",
  text="Every signature produced (sign, sign_, sign_recoverable, Signer, bms) is compared at run time with the SEC 1 + RFC 6979 reference (bytes, low-s, key id), every verdict of verify_/assert_as_valid_/recover with the SEC 1 equation (never an exception), every strictly parsed DER string with BIP66 canonical re-encoding; toy-curve (key, challenge, nonce) cubes are enumerated completely, catalogued curves x hash functions are class-sampled, Wycheproof/RFC vectors self-test the oracle.",
  note="Trusted base: rv/ref/ecdsa.py, rfc6979.py, der.py, bms.py over rv/ref/ec.py, self-tested on RFC 6979, libsecp256k1 and Wycheproof vectors; OpenSSL cross-checks the reference verifier. Deviations outside the property's wording (RFC 6979 r==0 retry on toy curves, non-DER length octet beyond 127 bytes on 512+-bit curves, recover set on cofactor>1 curves) are recorded as statistics.",
  ref="DESIGN.md section 3 C02"),
 "C07": dict(
  technique="runtime monitoring: reference-model monitor (independent BIP32/BIP44/SLIP132/BIP85 implementation), fault injection into bip32's HMAC via module-name patching, curve.mult postcondition hook, both arms",
  text="Every key returned by derive / derive_from_account / xpub_from_xprv / crack_prv_key_var / bip44 / slip132 / bip85 is compared field by field (depth, index, parent fingerprint, version, chain code, key, Base58) with an independent BIP32 reference on generated seeds and paths (every prefix and split point, private and public parents, depth to 255); injected HMAC outputs drive the I_L >= n, zero-key and infinity branches, which must end in BTClibValueError and never in the key of another index.",
  note="Trusted base: rv/ref/bip32.py over rv/ref/ec.py, self-tested on the BIP32, BIP85, SLIP132/BIP49/84/86 and key_io vectors. Non-English BIP85 mnemonics go through btclib's own BIP39 decoder.",
  ref="DESIGN.md section 3 C07"),
 "C20": dict(
  technique="runtime monitoring: history checkers against sequential models (nonce, signers, wallet ledger) over random operation sequences, plus golden-answer comparison under cache clears/overflows, backend switching and multi-threaded schedules with sys.monitoring yield injection",
  text="Random call histories on MuSig2 secret nonces (ecc.musig2.sign and psbt.musig2.partial_sign), on dsa/ssa Signer and SoftwareSigner objects (incl. the KeyManager face) and on every wallet kind are recorded at the client boundary and checked after every step against small sequential models (at most one successful signature per nonce and a zeroed nonce afterwards; no signature from a dead signer; next_address = lowest index above all handed out, ledger ordered and duplicate-free). A battery of ~300 pure calls is re-answered in shuffled order, after cache clears and overflows, across backend switches and from 4-8 threads under seeded yield injection with a backend-toggling thread; every answer must equal the quiet-process one. Concurrent nonce rounds hand one secret nonce to 2-6 threads released together (interpreter switch intervals 5 ms .. 1 us, nothing injected) and allow at most one signature. Evidence reports switches, switch points, distinct schedules and the rounds by number of callers that signed.",
  note="Trusted base: the sequential models in rv/props/c20.py; CPython's GIL makes statement-level interleaving the granularity reached; interleavings inside the bindings' C calls are not controllable. A caller copying a secret nonce before use is out of scope.",
  ref="DESIGN.md section 3 C20"),
 "C19": dict(
  technique="runtime monitoring: exception-class, stream-position and termination monitors around every introspected parser / decoder / from_dict and every boolean verifier, driven by structure-aware mutants whose field map is the sequence of reads the parser itself performs (recorded stream), with a forked-worker heartbeat supervisor deciding hangs on CPU time",
  text="158 entry points (60 stream parsers, 17 octet-only, 43 text, 12 from_dict, 26 predicates), cross-checked on every run against introspection of btclib.*.__all__ (an entry without a generator makes the run inconclusive). Binary inputs: every length/count/type/marker field found by recording the parser's own reads is set to every boundary value and CompactSize spelling, truncated, deleted and duplicated, mutants of accepted or late-refused mutants to depth 6; text: surrogates, non-ASCII digits, NULs, digit runs above 4300, nesting to 10^4, payload mutants with the checksum recomputed; JSON: every JSON type at every path. Oracle: an escaping exception that is not the library's; a predicate raising or answering a non-bool; a stream left anywhere but on the octet after the object, or an acceptance that depends on where the stream ends; an accepted object making a consumer (serialize, ids, sizes, sighash, finalize, engine) raise a foreign exception; a call that does not return within 60 s of CPU time alone in a fresh interpreter.",
  note="No expected value is ever computed: the oracle is the exception contract only. Protocol-fixture predicates (musig2 partial_sig_verify, anti-exfil host verify) and the wallet/fetch/hwi parsers are outside the registry; check_output_pubkey and is_negative_bits document a refusal and are not held to totality. The thorough tier adds coverage-guided inputs (atheris, installed lazily from the offline wheelhouse).",
  ref="DESIGN.md section 3 C19"),
 "C03": dict(
  technique="runtime monitoring: reference-model monitor (BIP340 reference.py transcription over the independent EC model), exhaustive toy-curve verification, batch compositions incl. cancelling pairs, both arms",
  text="Every BIP340 signature produced (sign_, sign, Signer, sign-to-contract) is compared byte for byte at run time with the BIP's reference signer for messages of any length, keys of both parities and aux classes on both arms; every verify_ verdict with the BIP340 equation (never an exception), exhaustively over (x, r, s) on toy curves; batch_verify_ with the conjunction of single verdicts for sizes on both sides of the Bos-Coster switch, one bad member at every position and cancelling pairs that only random coefficients detect.",
  note="Trusted base: rv/ref/bip340.py over rv/ref/ec.py (19/19 BIP340 csv vectors in every shard). On other curves/hash functions the challenge comes from the library's own challenge_ and only the algebra is independent. Batch soundness is probabilistic by design (2^-256); refuted constructively only.",
  ref="DESIGN.md section 3 C03"),
 "C05": dict(
  technique="runtime monitoring: round-trip monitors on generated objects and structure-aware mutants for every introspected parse/serialize or to_dict/from_dict class, independent transaction and PSBT-map readers as oracles for size/id and key-value preservation",
  text="The class registry is rebuilt by introspection on every run (60 classes; an uncovered class makes the run inconclusive). For each class generated objects must satisfy parse(serialize(x)) == x (check_validity on and off) and the JSON round trip; every byte string the parser accepts among generated encodings, vendored samples and their structure-aware mutants (truncation, extension, non-minimal CompactSize, count and marker edits, duplicate/reordered/unknown PSBT keys) must re-serialize to itself (PSBT: fixed point + no (map,key,value) pair lost, judged by an independent map reader); Tx/Block size, weight, vsize, txid, wtxid must equal those computed from the bytes by an independent reader.",
  note="Trusted base: rv/ref/txcodec.py, rv/ref/psbtmap.py (self-tested on published samples); rv/ref/wirefmt.py only produces encodings for mutation and never decides a verdict. Five deliberate or model-level PSBT pair losses are listed as known findings.",
  ref="DESIGN.md section 3 C05"),
 "C10": dict(
  technique="runtime monitoring: end-to-end execution monitor (descriptor -> PSBT -> sign -> finalize -> extract) judged by the library's engine and by the independent Core model, plus a hash-type commitment table driving single-field tampering",
  text="Random key trees x 22 descriptor shapes x 1..6 mixed inputs x per-input hash types x PSBT v0/v2 x two signer entry points are run through the library's own roles; the extracted transaction must be accepted by verify_transaction (standard flags) and by rv/ref/core.py. Every single-field edit of the finished transaction (amounts, scripts, sequences, lock time, version, prevouts, spent amounts and scripts, outputs added/removed) is classified by what the inputs' hash types commit to: committed => both must reject; uncommitted => engine == Core model. BIP322, BMS and KeyWallet message signatures must verify for their own address and for no other key, message or address type.",
  note="Trusted base: rv/ref/core.py (validated on Core's vectors) and the commitment table in rv/props/c10.py (a table/model disagreement is INCONCLUSIVE, not a violation).",
  ref="DESIGN.md section 3 C10"),
 "C17": dict(
  technique="runtime monitoring: reference-model monitor (transcriptions of Core's merkle.cpp, BIP158/SipHash, arith_uint256 / pow.cpp), exhaustive over compact-bits patterns, fault injection (weakened SipHash) for short-id collisions",
  text="Merkle roots, branches (every index, every wrong leaf/index, single-bit tampers), duplicated-tail mutation reports, block validity under root/commitment/coinbase edits, BIP158 filters (match, decode, bytes equal to the reference), compact-block reconstruction over superset/shuffled/colliding pools, compact target encode/decode, retargeting and work are compared at run time with independent transcriptions of Core's integer arithmetic.",
  note="Trusted base: rv/ref/merkle.py, gcs.py, arith256.py self-tested on blocks 200000/481824, checkblock vectors, siphash.json, blockfilters.json and Core's arith_uint256/pow vectors. A generated block the reference holds valid but the library refuses is INCONCLUSIVE (the property says 'valid only if').",
  ref="DESIGN.md section 3 C17"),
 "C06": dict(
  technique="runtime monitoring: reference-decoder (differential) monitor for Base58Check, Bech32/Bech32m, segwit addresses, WIF, extended keys, silent-payment addresses and BIP21, exhaustive over witness version x program length x network, every single-character corruption of valid strings",
  text="Every decode verdict of the library's text decoders is compared at run time with independent reference decoders (BIP173/BIP350 reference, big-integer Base58Check, Core-style address/WIF/xkey rules) on valid strings of every kind and network and on every single-character substitution, adjacent transposition, case flip and truncation of them; decode(encode(x)) == x, accepted strings re-encode to themselves, address <-> scriptPubKey are inverse on every addressable script type and future witness version, and no string is read as another network. The pure-Python RIPEMD160 is compared with hashlib and published digests.",
  note="Trusted base: rv/ref/bech32.py, base58.py, addr.py (self-tested on BIP173/350, base58_encode_decode, key_io valid/invalid, BIP32 invalid keys, BIP352, RIPEMD-160 vectors). The library's surrounding-whitespace stripping convention is applied by the comparator too.",
  ref="DESIGN.md section 3 C06"),
 "C13": dict(
  technique="runtime monitoring: reference-model monitor (independent BIP39 / Electrum / SLIP39 / GF(256) implementations, hashlib PBKDF2), every word substitution of generated sentences, share-subset enumeration",
  text="Entropy round trips in all 12 word lists, sentence acceptance against the reference checksum for every single-word substitution, seeds and master keys against hashlib.pbkdf2_hmac + the BIP32 reference with NFKD-sensitive passphrases, Electrum version prefixes, SLIP39 splits (groups, thresholds, exponents, extendable) recovered from every qualifying subset in random order, refused one share short, and checked to lie on one GF(256) polynomial; BIP85 children against the BIP's HMAC.",
  note="Trusted base: rv/ref/mnemonics.py, slip39.py, gf256.py, wordlists.py (self-tested on BIP39, SLIP39/Trezor, Electrum and BIP85 vectors; word lists copied into /verif/vectors). btclib's documented 512-bit entropy extension (48 words) is a statistic, outside the property's 128..256-bit quantifier.",
  ref="DESIGN.md section 3 C13"),
 "C16": dict(
  technique="runtime monitoring: protocol-completion monitor over honest multi-party executions judged by independent references (BIP340 verifier, BIP327 KeyAgg/sign transcription, BIP352 sender/scanner, BIP324 xswiftec, BIP374 DLEQ), both arms",
  text="MuSig2 sessions (1..5 signers, duplicates, permutations, plain and x-only tweak sequences, adaptor sessions, BIP373 PSBT roles for key path and script path sessions ending in an engine-accepted spend), ECDH on catalogued and toy curves, ElligatorSwift, ECIES, DLEQ, Pedersen/Borromean and silent-payment sender/scanner flows (mixed inputs, repeated and labelled recipients, decoys, BIP375 roles) are executed end to end; every partial signature must verify, the aggregate must be a valid BIP340 signature for the reference-computed key, both parties must derive the reference secret, altered statements must fail, and every created output must be found with a key that opens it.",
  note="Trusted base: rv/ref/keyagg.py, bip352.py, ellswift.py, dleq.py, bip340.py (self-tested on the BIP327/352/374/324 vector files). Adaptor sessions and ElligatorSwift on other curves have no published reference and are judged by completion/agreement only.",
  ref="DESIGN.md section 3 C16"),
 "C18": dict(
  technique="runtime monitoring: invariant monitors on real serializations and end-to-end funded/signed flows, Fraction/Decimal reference arithmetic for fees and amounts",
  text="Every reported size/weight/vsize/id of generated transactions and blocks (counts and lengths at every CompactSize boundary) is compared with len() of the real serialization and an independent stripped-size reader; the weight estimated before signing (with the sizer a caller would pass) is compared with the weight of the transaction signed by the library (grinding on and off); every build_psbt result must conserve value, pay at least ceil(rate x final vsize) after sign/finalize/extract, never create dust change and refuse insufficient inputs, with remainders aimed within +-2 sat of the dust and fee boundaries; fee_from_vsize, package_fee, dust_threshold, FeeRate and amount conversions are compared with exact Fraction/Decimal arithmetic.",
  note="Trusted base: rv/ref/core.py transaction reader, Python's fractions/decimal, Core's GetDustThreshold formula written out in the check. Taproot script-path estimates use a caller-side sizer built from Descriptor.satisfy, as the library requires.",
  ref="DESIGN.md section 3 C18"),
 "C11": dict(
  technique="runtime monitoring: role-execution monitors over flow-generated PSBTs: (map,key,value) set algebra with an independent reader, byte equality across all permutations and bracketings of combine, unsigned-transaction invariants, scripted dishonest signer, deep mutation/aliasing fingerprints, PsbtView vs parsed object",
  text="PSBTs produced by end-to-end flows (22 descriptor shapes, 1..4 inputs, v0/v2, BIP370 required lock times) are enriched and partitioned across 2..4 non-conflicting copies; combine must keep every key-value pair of every operand, give identical bytes for every order and grouping, be idempotent and refuse other transactions/versions; sign, finalize, to_v0, to_v2, combine and reparse must leave the unsigned transaction (and unique id) unchanged over random role sequences; assert_signatures_only / request_signatures must accept the honest answer and refuse every single-field tampering of it; every role must leave its arguments byte-identical and return an object sharing no mutable state with them; PsbtView must agree with the parsed PSBT; join must keep exactly the inputs, outputs and fields of disjoint PSBTs.",
  note="Trusted base: rv/ref/psbtmap.py for pair extraction; the flows come from the library's own Updater/Signer. Conflicting operands are not judged (BIP174 lets a Combiner pick).",
  ref="DESIGN.md section 3 C11"),
 "C14": dict(
  technique="runtime monitoring: reference-model monitor (descriptor-as-data model with its own writer/evaluator over the BIP32, taproot, BIP380 checksum and BIP327/328/390 references), exhaustive single-character corruption of descriptor strings, wallet inverse-lookup monitors",
  text="Descriptors generated from a grammar over every function and legal nesting (origins, xpub/xprv/WIF/hex keys, plain and hardened wildcards, multipath, musig) are derived at boundary and random indexes on all networks and compared with BIP32 + hand-assembled scripts; parse(str(d)) == d, normalized/at_index/multipath expansion, checksum == BIP380 reference, every single-character substitution and deletion refused; index_of / position_of / assert_derives are inverse to derivation for every wallet kind and answer 'not mine' for foreign scripts.",
  note="Trusted base: rv/ref/scripts.py, descsum.py, bip32.py, taproot.py, bip390.py (self-tested on Core descriptor vectors, BIP380/387/390/328/327/67/341 vectors). Miniscript inside wsh()/tr() is C15's.",
  ref="DESIGN.md section 3 C14"),
 "C15": dict(
  technique="runtime monitoring: type-directed expression generation, identities on the real compiler/parser, satisfactions executed on the library's engine and on the independent Core model under an executed-op / stack-depth meter hooked into the interpreter, semantic evaluator of the spending condition as oracle for 'condition false'",
  text="For sane miniscript expressions of both contexts (seeded with the vendored corpus, grown by same-type subtree replacement): len(script()) == script_size, from_script(script()) compiles back to the same script, parse(str(node)) == node; for many assignments of available signatures, preimages, lock time and sequence values around every after()/older(): a produced witness must be accepted by verify_input on a real P2WSH / tapscript spend and by rv/ref/core.py, stay within max_witness_size / max_stack_items / max_ops (metered by hooks on script_op_count and assert_stack_size), and exist only where an independent semantic evaluator says the spending condition is true. The PSBT entry (descriptors.miniscript_solver on a psbt holding the same signatures, preimages and transaction) is judged the same way.",
  note="Trusted base: rv/ref/miniscript.py (BIP379 table, semantic evaluator, self-tested against an exhaustive witness search under the Core model on small expressions), rv/ref/core.py, rv/ref/signers.py. The converse (condition true, no satisfaction) is a statistic.",
  ref="DESIGN.md section 3 C15"),
 "C12": dict(
  technique="runtime monitoring: reference-model monitor (BIP341 reference functions over the independent EC model), exhaustive single-bit alteration of control block / script / output key, fault injection on taproot.tagged_hash, both arms",
  text="For generated internal keys (every accepted spelling, both parities) and script trees (balanced, chains to depth 128, repeated leaves, other leaf versions): output keys and parity equal the BIP341 tweak, tweaked private keys generate the output key, every produced control block proves its leaf (reference verifier, check_output_pubkey and the engine's unwrap), every single-bit or length alteration of control block, script, leaf version or output key fails, invalid internal keys and injected out-of-range tweaks are refused; TrDescriptor merkle roots/leaf scripts and BIP86 derivation agree with the same reference.",
  note="Trusted base: rv/ref/taproot.py over rv/ref/ec.py (174 BIP341 wallet-vector checks and the BIP86 vectors in every shard).",
  ref="DESIGN.md section 3 C12"),
}

def main():
    props = [json.loads(l) for l in open(os.path.join(ROOT, "properties.jsonl"))]
    checks, na = [], []
    for p in props:
        pid = p["id"]
        if pid in CHECKS and os.path.exists(os.path.join(ROOT, "rv", "props", pid.lower() + ".py")):
            c = CHECKS[pid]
            checks.append({
                "property_id": pid,
                "quick_cmd": f"./check {pid} --tier quick",
                "thorough_cmd": f"./check {pid} --tier thorough",
                "evidence_file": f"evidence/{pid}.json",
                "replay_cmd_template": f"./check {pid} --replay {{path}}",
                "engine": "rv",
                "level_claimed": {"category": "exploration", "text": c["text"], "design_ref": c["ref"]},
                "level_note": c["note"],
                "technique": c["technique"],
            })
        else:
            na.append({"property_id": pid, "reason": "check not built yet in this session (runtime monitoring applies; see DESIGN.md section 3); not claimed until its monitor exists and is silent on the unchanged tree"})
    man = {
        "version": 1,
        "setup_cmd": "./setup.sh",
        "hooks": {
            "guard": "BTCLIB_VERIF",
            "enable": "no source hooks: monitors attach from outside (module-attribute rebinding, sys.monitoring, wrapper objects); checks import /repo's working tree in fresh interpreters with BTCLIB_VERIF=1 set",
            "baseline_off_cmd": BASE_OFF,
            "source_commits": [],
            "add_only": True,
        },
        "engines": [{"name": "rv", "path": "rv/", "serves_properties": [c["property_id"] for c in checks],
                     "kind_free_text": "runtime-verification framework: sharded fresh-interpreter workloads, reference-model monitors, invariant hooks, history checkers, sys.monitoring reach/yield/fault injection, three-valued verdicts"}],
        "checks": checks,
        "notes": "Exit codes: 0 held, 1 VIOLATION, 3 INCONCLUSIVE (deciding monitor not reached / oracle self-test failed / watchdog). known_findings.json lists genuine defects by mechanism. VERIF_REPO=<dir> points a check at a scratch copy (mutation validation only).",
        "not_applicable": na,
    }
    json.dump(man, open(os.path.join(ROOT, "MANIFEST.json"), "w"), indent=1)
    print(f"{len(checks)} checks, {len(na)} not claimed")

if __name__ == "__main__":
    main()
