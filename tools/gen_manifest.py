#!/usr/bin/env python3
"""Regenerate MANIFEST.json from the table below (kept valid at all times)."""
import json, os
ROOT = os.path.dirname(os.path.dirname(os.path.abspath(__file__)))
BASE_OFF = "cd /repo && env -u BTCLIB_VERIF /venv/bin/python -m pytest -ra -q -p no:cacheprovider --timeout=900 --continue-on-collection-errors"

CHECKS = {
 "C01": dict(
  technique="runtime monitoring: reference-model (differential) monitor over enumerated and class-stratified executions, reach counters via sys.monitoring",
  text="Every product returned by mult / PreparedPoint.mult / double_mult_var / multi_mult_var, the low-level Jacobian operations, the modular helpers and the SEC codec is compared at run time with an independent affine reference (brute-force groups on every toy curve the constructor admits, exhaustively over scalars and points; discrete-log bookkeeping and OpenSSL on the 27 catalogued curves, both arms on secp256k1). Malformed curve parameter sets and off-curve points must be refused. Held = no divergence on the executions listed in evidence; not a proof.",
  note="Trusted base: rv/ref/ec.py (affine law, pow(x,-1,p)), OpenSSL via cryptography as second oracle. Curves whose valid parameters the SEC 1 cofactor formula refuses are counted, not judged.",
  ref="DESIGN.md section 3 C01"),
}

def main():
    props = [json.loads(l) for l in open(os.path.join(ROOT, "properties.jsonl"))]
    checks, na = [], []
    for p in props:
        pid = p["id"]
        if pid in CHECKS and os.path.exists(os.path.join(ROOT, "rv", "props", pid.lower() + ".py")):
            c = CHECKS[pid]
            checks.append({
                "property_id": pid,
                "quick_cmd": f"./check {pid} --tier quick",
                "thorough_cmd": f"./check {pid} --tier thorough",
                "evidence_file": f"evidence/{pid}.json",
                "replay_cmd_template": f"./check {pid} --replay {{path}}",
                "engine": "rv",
                "level_claimed": {"category": "exploration", "text": c["text"], "design_ref": c["ref"]},
                "level_note": c["note"],
                "technique": c["technique"],
            })
        else:
            na.append({"property_id": pid, "reason": "check not built yet in this session (runtime monitoring applies; see DESIGN.md section 3); not claimed until its monitor exists and is silent on the unchanged tree"})
    man = {
        "version": 1,
        "setup_cmd": "./setup.sh",
        "hooks": {
            "guard": "BTCLIB_VERIF",
            "enable": "no source hooks: monitors attach from outside (module-attribute rebinding, sys.monitoring, wrapper objects); checks import /repo's working tree in fresh interpreters with BTCLIB_VERIF=1 set",
            "baseline_off_cmd": BASE_OFF,
            "source_commits": [],
            "add_only": True,
        },
        "engines": [{"name": "rv", "path": "rv/", "serves_properties": [c["property_id"] for c in checks],
                     "kind_free_text": "runtime-verification framework: sharded fresh-interpreter workloads, reference-model monitors, invariant hooks, history checkers, sys.monitoring reach/yield/fault injection, three-valued verdicts"}],
        "checks": checks,
        "notes": "Exit codes: 0 held, 1 VIOLATION, 3 INCONCLUSIVE (deciding monitor not reached / oracle self-test failed / watchdog). known_findings.json lists genuine defects by mechanism. VERIF_REPO=<dir> points a check at a scratch copy (mutation validation only).",
        "not_applicable": na,
    }
    json.dump(man, open(os.path.join(ROOT, "MANIFEST.json"), "w"), indent=1)
    print(f"{len(checks)} checks, {len(na)} not claimed")

if __name__ == "__main__":
    main()
