#!/venv/bin/python
"""Reach audit: which public callables of btclib does no check ever enter?

usage: tools/apicover.py [--run] [--dir /tmp/rv-apicover]
  --run   first run every check's quick tier with VERIF_APICOVER set (no evidence written), then report
Every shard records, with sys.monitoring PY_START (each code object once), the (file, qualname) of every btclib function it
enters. The public surface is what the packages' __all__ lists: functions, classes and their public methods.
Writes apicover.json (summary + the public callables never entered). It decides nothing: it shows where the workloads do not reach.
"""
import argparse, importlib, inspect, json, os, pkgutil, subprocess, sys, glob

ROOT = os.path.dirname(os.path.dirname(os.path.abspath(__file__)))


def public_surface():
    sys.path.insert(0, "/repo")
    import btclib
    lib = os.path.realpath(os.path.dirname(btclib.__file__)) + os.sep
    out = {}
    for mi in pkgutil.walk_packages(btclib.__path__, "btclib."):
        try:
            m = importlib.import_module(mi.name)
        except Exception:  # noqa: BLE001 - optional dependencies (rpc, hwi)
            continue
        for name in getattr(m, "__all__", []):
            obj = getattr(m, name, None)
            todo = []
            if inspect.isfunction(obj):
                todo.append((name, obj))
            elif inspect.isclass(obj):
                for an, av in vars(obj).items():
                    f = av.__func__ if isinstance(av, (staticmethod, classmethod)) else av.fget if isinstance(av, property) else av
                    if inspect.isfunction(f) and (not an.startswith("_") or an in ("__init__", "__post_init__")):
                        todo.append((f"{name}.{an}", f))
            for label, f in todo:
                f = inspect.unwrap(f)
                code = getattr(f, "__code__", None)
                if code is None:
                    continue
                fn = os.path.realpath(code.co_filename)
                if fn.startswith(lib):
                    out[(fn[len(lib):], code.co_qualname)] = f"{mi.name}:{label}"
    return out


def main():
    ap = argparse.ArgumentParser()
    ap.add_argument("--run", action="store_true")
    ap.add_argument("--dir", default="/tmp/rv-apicover")
    a = ap.parse_args()
    if a.run:
        for i in range(1, 21):
            env = dict(os.environ, VERIF_APICOVER=a.dir)
            p = subprocess.run([os.path.join(ROOT, "check"), f"C{i:02d}", "--tier", "quick", "--no-evidence"], env=env, cwd=ROOT,
                               capture_output=True, text=True)
            print(f"C{i:02d} rc={p.returncode}", flush=True)
    entered, by_prop = set(), {}
    for f in glob.glob(os.path.join(a.dir, "*.json")):
        prop = os.path.basename(f).split(".")[0]
        got = {tuple(x) for x in json.load(open(f))}
        entered |= got
        by_prop.setdefault(prop, set()).update(got)
    pub = public_surface()
    missing = sorted(v for k, v in pub.items() if k not in entered)
    by_module = {}
    for v in missing:
        by_module.setdefault(v.split(":")[0], []).append(v.split(":")[1])
    res = {"btclib_functions_entered": len(entered), "public_callables": len(pub), "public_callables_entered": len(pub) - len(missing),
           "entered_per_check": {k: len(v) for k, v in sorted(by_prop.items())}, "public_callables_never_entered": by_module}
    json.dump(res, open(os.path.join(ROOT, "apicover.json"), "w"), indent=1)
    print(json.dumps({k: v for k, v in res.items() if k != "public_callables_never_entered"}, indent=1))
    print("never entered:", len(missing))


if __name__ == "__main__":
    main()
