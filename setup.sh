#!/bin/sh
# idempotent offline install of the helper libraries next to the repo's interpreter
here="$(cd "$(dirname "$0")" && pwd)"
cd "$here" || exit 1
mkdir -p evidence replays
if [ ! -d .deps/icontract ]; then
  PIP_NO_INDEX=1 /venv/bin/pip install -q --no-index --find-links /opt/veriftools/wheels \
     --target "$here/.deps" icontract deal jsonschema >/dev/null 2>&1 || \
     echo "setup: helper libraries not installable; framework falls back to its own wrappers"
fi
PYTHONPATH="$here:$here/.deps" /venv/bin/python -c "import rv.main; print('setup ok')"
