"""Invariant hooks armed inside high-level workloads (Section 2.2 B of DESIGN.md).

M1: every point a public multiplication returns inside a PSBT / BIP32 / MuSig2 flow is on the
    curve, and (sampled) equals the reference group law.
M3: every Tx.serialize result has the length Tx reports as its size.

The conditions are attached through icontract (named condition functions, explicit error
class) when it is importable, through a plain wrapper otherwise; either way each evaluation is
counted, and a deciding hook with zero evaluations is the caller's to turn into INCONCLUSIVE.
"""

from __future__ import annotations

import functools

from .hooks import rebind, rebind_method

try:  # the helper libraries live in /verif/.deps (setup.sh); the framework degrades without them
    import icontract
except ImportError:  # pragma: no cover
    icontract = None


class PostBroken(AssertionError):
    pass


def arm_m1(ctx, sample_one_in: int = 8) -> int:
    """Hook curve.mult / double_mult_var / multi_mult_var / _tweak_add_var / _sum_var on secp256k1."""
    from btclib.curves import curve as C

    from .ref import ec as rec

    ref = rec.SECP256K1
    state = {"n": 0}

    def conv(P):
        return None if P[1] == 0 else (P[0], P[1])

    def expected(name, a, kw):
        ec = kw.get("ec", None)
        if name == "mult":
            m, Q = a[0], (a[1] if len(a) > 1 else kw.get("Q"))
            ec = a[2] if len(a) > 2 else ec
            if ec is not None and ec is not C.secp256k1 and ec != C.secp256k1:
                return NotImplemented
            return ref.mul(int(m) if isinstance(m, int) else int.from_bytes(bytes.fromhex(m) if isinstance(m, str) else bytes(m), "big"),
                           ref.G if Q is None else conv(Q))
        if name == "double_mult_var":
            ec = a[4] if len(a) > 4 else ec
            if ec is not None and ec != C.secp256k1:
                return NotImplemented
            return ref.add(ref.mul(int(a[0]), conv(a[1])), ref.mul(int(a[2]), conv(a[3])))
        if name == "multi_mult_var":
            ec = a[2] if len(a) > 2 else ec
            if ec is not None and ec != C.secp256k1:
                return NotImplemented
            return ref.lincomb([int(s) for s in a[0]], [conv(P) for P in a[1]])
        if name == "_tweak_add_var":
            if a[2] != C.secp256k1:
                return NotImplemented
            return ref.add(conv(a[0]), ref.mul(int(a[1]), ref.G))
        if name == "_sum_var":
            if a[1] != C.secp256k1:
                return NotImplemented
            R = None
            for P in a[0]:
                R = ref.add(R, conv(P))
            return R
        return NotImplemented

    def make(name, orig):
        def on_curve_and_equal(result, a, kw):
            state["n"] += 1
            ctx.mon(f"M1:{name}")
            if result[1] != 0 and not ref.on_curve((result[0], result[1])):
                # other curves answer NotImplemented below; an off-curve point on secp256k1 is judged only there
                want = expected(name, a, kw)
                if want is not NotImplemented:
                    ctx.violation(f"M1:{name}:result-off-curve", f"{name} returned a point off the curve inside a high-level flow", {"args": repr(a)[:400]})
                return True
            if state["n"] % sample_one_in == 0:
                try:
                    want = expected(name, a, kw)
                except Exception:  # noqa: BLE001 - arguments the reference does not model (strings, odd spellings)
                    return True
                if want is not NotImplemented:
                    ctx.mon(f"M1:{name}:compared")
                    if conv(result) != want:
                        ctx.violation(f"M1:{name}:differs-from-group-law", f"{name} inside a high-level flow returned {result}, group law {want}",
                                      {"args": repr(a)[:600]})
            return True

        @functools.wraps(orig)
        def w(*a, **kw):
            r = orig(*a, **kw)
            on_curve_and_equal(r, a, kw)
            return r
        w.__wrapped_original__ = orig
        return w

    n = 0
    for name in ("mult", "double_mult_var", "multi_mult_var", "_tweak_add_var", "_sum_var"):
        orig = getattr(C, name)
        n += rebind(orig, make(name, orig))
    return n


def arm_m3(ctx) -> None:
    """len(Tx.serialize(include_witness=True)) == Tx.size, on every serialization any workload makes."""
    from btclib.tx.tx import Tx

    def tx_len_matches_size(self, result, include_witness) -> bool:
        ctx.mon("M3:Tx.serialize")
        if include_witness and len(result) != self.size:
            ctx.violation("M3:tx-size-differs-from-serialization", f"Tx.size={self.size} but serialize() wrote {len(result)} bytes (inside a flow)",
                          {"tx": bytes(result)[:400]})
        return True

    def make(orig):
        if icontract is not None:
            # the contract form: a named condition function and an explicit error class (a lambda in call form would
            # surface the first violation as a SyntaxError); the condition records and returns True, it never raises
            def post(self, result, include_witness=True, check_validity=True):
                return tx_len_matches_size(self, result, include_witness)
            return icontract.ensure(post, error=PostBroken)(orig)

        @functools.wraps(orig)
        def w(self, include_witness=True, check_validity=True):
            r = orig(self, include_witness=include_witness, check_validity=check_validity)
            tx_len_matches_size(self, r, include_witness)
            return r
        return w

    rebind_method(Tx, "serialize", make)
