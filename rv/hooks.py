"""Source-free hooks on the real library: rebinding, reach observation, injection."""

from __future__ import annotations

import contextlib
import functools
import sys
import threading
import time
import types
from typing import Any, Callable

TOOL_REACH = 3
TOOL_YIELD = 4


# ----------------------------------------------------------------- rebinding
def _btclib_modules():
    return [m for n, m in list(sys.modules.items()) if n == "btclib" or n.startswith("btclib.")]


def rebind(original: Callable, wrapper: Callable) -> int:
    """Replace every ``btclib.*`` module attribute that *is* ``original``.

    Returns the number of bindings replaced.  References captured elsewhere
    (default arguments, closures, dict registries) are not reached: the caller
    counts evaluations and treats zero as inconclusive.
    """
    n = 0
    for m in _btclib_modules():
        for k, v in list(vars(m).items()):
            if v is original:
                setattr(m, k, wrapper)
                n += 1
    return n


def rebind_method(cls: type, name: str, make_wrapper: Callable[[Callable], Callable]) -> Callable:
    orig = cls.__dict__[name]
    if isinstance(orig, (staticmethod, classmethod)):
        inner = orig.__func__
        setattr(cls, name, type(orig)(make_wrapper(inner)))
    else:
        setattr(cls, name, make_wrapper(orig))
    return orig


def wrap_post(original: Callable, post: Callable[[tuple, dict, Any], None], counter: Callable[[], None]):
    """Wrapper evaluating ``post(args, kwargs, result)`` after each successful return."""

    @functools.wraps(original)
    def w(*a, **kw):
        r = original(*a, **kw)
        counter()
        post(a, kw, r)
        return r

    w.__wrapped_original__ = original  # type: ignore[attr-defined]
    return w


# ------------------------------------------------------------ reach observer
class Reach:
    """Counts entries of chosen functions with sys.monitoring (PY_START, local events)."""

    def __init__(self):
        self.counts: dict[str, int] = {}
        self._codes: dict[types.CodeType, str] = {}
        self._on = False
        self.absent: list[str] = []

    def watch(self, name: str, func: Any) -> bool:
        f = getattr(func, "__wrapped_original__", func)
        f = getattr(f, "__func__", f)
        f = getattr(f, "__wrapped__", f)
        code = getattr(f, "__code__", None)
        if code is None:
            return False
        self._codes[code] = name
        self.counts.setdefault(name, 0)
        return True

    def watch_path(self, dotted: str) -> bool:
        """'btclib.curves.curve_group:_mult_fixed_base' or '...:Class.method'."""
        import importlib

        modname, _, attr = dotted.partition(":")
        try:
            obj: Any = importlib.import_module(modname)
            for part in attr.split("."):
                obj = obj.__dict__[part] if isinstance(obj, type) else getattr(obj, part)
        except (ImportError, AttributeError, KeyError):
            self.absent.append(attr)      # not in this tree (renamed, removed): said in the evidence, see main.py
            return False
        return self.watch(attr, obj)

    def start(self):
        mon = sys.monitoring
        if mon.get_tool(TOOL_REACH) is None:
            mon.use_tool_id(TOOL_REACH, "rv-reach")

        def on_start(code, offset):
            n = self._codes.get(code)
            if n is not None:
                self.counts[n] += 1

        mon.register_callback(TOOL_REACH, mon.events.PY_START, on_start)
        for code in self._codes:
            mon.set_local_events(TOOL_REACH, code, mon.events.PY_START)
        self._on = True

    def stop(self):
        if self._on:
            mon = sys.monitoring
            for code in self._codes:
                mon.set_local_events(TOOL_REACH, code, 0)
            mon.register_callback(TOOL_REACH, mon.events.PY_START, None)
            self._on = False

    def report(self, ctx) -> None:
        for n, c in self.counts.items():
            if c:
                ctx.reach(n, c)
        for n in self.absent:
            ctx.stat(f"reach-absent:{n}")


class LineReach:
    """Set of executed source lines per file (LINE events, DISABLE after first hit)."""

    def __init__(self, file_suffixes: tuple[str, ...]):
        self.suffixes = file_suffixes
        self.lines: dict[str, set[int]] = {}

    def start(self):
        mon = sys.monitoring
        if mon.get_tool(TOOL_REACH + 2) is None:
            mon.use_tool_id(TOOL_REACH + 2, "rv-lines")

        def on_line(code, line):
            fn = code.co_filename
            if fn.endswith(self.suffixes):
                self.lines.setdefault(fn, set()).add(line)
            return mon.DISABLE

        mon.register_callback(TOOL_REACH + 2, mon.events.LINE, on_line)
        mon.set_events(TOOL_REACH + 2, mon.events.LINE)

    def stop(self):
        mon = sys.monitoring
        mon.set_events(TOOL_REACH + 2, 0)
        mon.register_callback(TOOL_REACH + 2, mon.events.LINE, None)

    def hit_text(self, file_suffix: str, needle: str) -> bool:
        """Was some line containing ``needle`` executed in the file?"""
        for fn, ls in self.lines.items():
            if fn.endswith(file_suffix):
                try:
                    with open(fn) as f:
                        src = f.read().splitlines()
                except OSError:
                    return False
                return any(needle in src[l - 1] for l in ls if 0 < l <= len(src))
        return False


# ------------------------------------------------------------ yield injection
class YieldInjector:
    """LINE callback on chosen files: sleep(0) on a seeded subset of statement starts.

    Records thread switches observed between consecutive LINE events, the set of
    (file, line) points at which a switch was observed, and a rolling hash of the
    switch sequence (the schedule's identity).
    """

    def __init__(self, file_suffixes: tuple[str, ...], seed: int, one_in: int = 7):
        self.suffixes = file_suffixes
        self.one_in = one_in
        self.seed = seed
        self.events = 0
        self.switches = 0
        self.points: set[tuple[str, int]] = set()
        self.sched = seed & 0xFFFFFFFF
        self._last = None
        self._old_interval = None

    def start(self):
        mon = sys.monitoring
        if mon.get_tool(TOOL_YIELD) is None:
            mon.use_tool_id(TOOL_YIELD, "rv-yield")
        mul = 2654435761
        seed = self.seed

        def on_line(code, line):
            fn = code.co_filename
            if not fn.endswith(self.suffixes):
                return mon.DISABLE
            self.events += 1
            tid = threading.get_ident()
            if self._last != tid:
                if self._last is not None:
                    self.switches += 1
                    self.points.add((fn.rsplit("/", 1)[-1], line))
                    self.sched = (self.sched * 1000003 ^ (line * 31 + (tid & 0xFFFF))) & 0xFFFFFFFFFFFF
                self._last = tid
            if ((self.events + seed) * mul >> 7) % self.one_in == 0:
                time.sleep(0)
            return None

        mon.register_callback(TOOL_YIELD, mon.events.LINE, on_line)
        self._old_interval = sys.getswitchinterval()
        sys.setswitchinterval(1e-6)
        mon.set_events(TOOL_YIELD, mon.events.LINE)

    def stop(self):
        mon = sys.monitoring
        mon.set_events(TOOL_YIELD, 0)
        mon.register_callback(TOOL_YIELD, mon.events.LINE, None)
        mon.restart_events()
        if self._old_interval is not None:
            sys.setswitchinterval(self._old_interval)


# ------------------------------------------------------------ fault injection
@contextlib.contextmanager
def patched(module: Any, name: str, replacement: Any):
    """Temporarily replace a module-level name the code looks up at call time."""
    old = getattr(module, name)
    setattr(module, name, replacement)
    try:
        yield old
    finally:
        setattr(module, name, old)


class NthCall:
    """Shim: delegate, except the n-th call (0-based) which returns ``crafted(*args)``."""

    def __init__(self, real: Callable, n: int, crafted: Callable):
        self.real, self.n, self.crafted = real, n, crafted
        self.calls = 0
        self.fired = 0

    def __call__(self, *a, **kw):
        i = self.calls
        self.calls += 1
        if i == self.n:
            self.fired += 1
            return self.crafted(*a, **kw)
        return self.real(*a, **kw)


# ------------------------------------------------------------ backend switch
def set_backend(on: bool) -> None:
    from btclib.curves.curve import set_libsecp256k1_serving

    set_libsecp256k1_serving(serving=on)


def backend_available() -> bool:
    try:
        import btclib_secp256k1  # noqa: F401

        return True
    except ImportError:
        return False


class ArmRecorder:
    """M2: records what ``curve._libsecp256k1_serves`` answered, per calling function."""

    def __init__(self, ctx):
        self.ctx = ctx
        self.n = 0

    def install(self) -> int:
        from btclib.curves import curve

        orig = curve._libsecp256k1_serves
        ctx = self.ctx

        @functools.wraps(orig)
        def w(*a, **kw):
            r = orig(*a, **kw)
            self.n += 1
            ctx.arms["bindings" if r else "python"] += 1
            return r

        w.__wrapped_original__ = orig  # type: ignore[attr-defined]
        return rebind(orig, w)
