"""End-to-end PSBT flows on the real library: descriptor -> update -> sign -> (combine) -> finalize -> extract.

Used by C10 (accepted / tamper), C11 (roles) and C18 (estimate >= actual, sizes).  Imports btclib
lazily (inside functions), as every workload module does.
"""

from __future__ import annotations

import hashlib
from dataclasses import dataclass, field

SHAPES = {
    # name: (template over {0},{1},{2} = signer keys and {3} = key nobody signs with, legacy?, taproot?, signers needed)
    "pkh": ("pkh({0})", True, False, 1),
    "wpkh": ("wpkh({0})", False, False, 1),
    "sh-wpkh": ("sh(wpkh({0}))", False, False, 1),
    "multi": ("multi(2,{0},{1},{2})", True, False, 2),
    "multi-1of1": ("multi(1,{0})", True, False, 1),
    "sh-multi": ("sh(multi(2,{0},{1},{2}))", True, False, 2),
    "sh-sortedmulti": ("sh(sortedmulti(2,{0},{1},{2}))", True, False, 2),
    "wsh-multi": ("wsh(multi(2,{0},{1},{2}))", False, False, 2),
    "wsh-multi-3of3": ("wsh(multi(3,{0},{1},{2}))", False, False, 3),
    "sh-wsh-multi": ("sh(wsh(multi(1,{0},{1})))", False, False, 1),
    "wsh-sortedmulti": ("wsh(sortedmulti(2,{0},{1},{2}))", False, False, 2),
    "sh-wsh-sortedmulti": ("sh(wsh(sortedmulti(2,{0},{1},{2})))", False, False, 2),
    "tr": ("tr({0})", False, True, 1),
    "tr-keypath-with-tree": ("tr({0},pk({1}))", False, True, 1),
    "tr-pk": ("tr({3},pk({0}))", False, True, 1),
    "tr-tree": ("tr({3},{{pk({0}),multi_a(2,{1},{2})}})", False, True, 1),
    "tr-multi_a": ("tr({3},multi_a(2,{0},{1},{2}))", False, True, 2),
    "tr-sortedmulti_a": ("tr({3},sortedmulti_a(2,{0},{1}))", False, True, 2),
    # many keys, one signature: eleven checks against empty signatures, which BIP342's budget does not charge for
    "tr-multi_a-1of12": ("tr({3},multi_a(1,{4},{5},{6},{7},{8},{0},{9},{10},{11},{12},{13},{14}))", False, True, 1),
    "tr-mini": ("tr({3},and_v(v:pk({0}),older(10)))", False, True, 1),
    # a multi_a() *fragment* inside a miniscript leaf (the satisfier's own walk over the keys, not the BIP387 leaf's)
    "tr-mini-multi_a": ("tr({3},and_v(v:multi_a(2,{0},{1},{2}),older(10)))", False, True, 2),
    "tr-mini-multi_a-1of3": ("tr({3},or_d(multi_a(1,{0},{1},{2}),and_v(v:pk({3}),older(20))))", False, True, 1),
    # one key named in several leaves: every leaf commits to its own tapleaf hash, so the key signs each leaf separately;
    # key {3} signs nothing, which decides the leaf that can be spent
    "tr-shared-key-second-leaf": ("tr({3},{{multi_a(2,{0},{3}),pk({0})}})", False, True, 1),
    "tr-shared-key-first-leaf": ("tr({3},{{pk({0}),multi_a(2,{0},{3})}})", False, True, 1),
    "tr-shared-key-three-leaves": ("tr({3},{{multi_a(2,{1},{3}),{{multi_a(2,{1},{2}),pk({1})}}}})", False, True, 2),
    # witness scripts longer than the 520-byte element limit (which binds the items under the script, not the script):
    # {4}.. are further keys nobody signs with; 16 keys is the largest multisig the library derives (547 bytes), 15 is 513
    "wsh-multi-16": ("wsh(multi(2,{0},{4},{5},{6},{7},{8},{9},{1},{10},{11},{12},{13},{14},{15},{3},{2}))", False, False, 2),
    "wsh-sortedmulti-16": ("wsh(sortedmulti(2,{0},{1},{2},{3},{4},{5},{6},{7},{8},{9},{10},{11},{12},{13},{14},{15}))", False, False, 2),
    "sh-wsh-multi-16": ("sh(wsh(multi(1,{4},{5},{6},{7},{8},{9},{10},{11},{12},{13},{14},{15},{3},{1},{2},{0})))", False, False, 1),
    "wsh-multi-15": ("wsh(multi(3,{0},{1},{2},{3},{4},{5},{6},{7},{8},{9},{10},{11},{12},{13},{14}))", False, False, 3),
    # legacy p2sh redeem scripts pushed with OP_PUSHDATA2 (above 255 bytes; 520 is the most p2sh allows: 15 keys = 513)
    "sh-multi-8": ("sh(multi(1,{4},{5},{6},{7},{0},{8},{9},{3}))", True, False, 1),
    "sh-sortedmulti-15": ("sh(sortedmulti(2,{0},{1},{3},{4},{5},{6},{7},{8},{9},{10},{11},{12},{13},{14},{15}))", True, False, 2),
    "wsh-mini-older": ("wsh(and_v(v:pk({0}),older(10)))", False, False, 1),
    "wsh-mini-or": ("wsh(or_d(pk({0}),and_v(v:pk({1}),after(100))))", False, False, 1),
    "wsh-mini-thresh": ("wsh(thresh(2,pk({0}),s:pk({1}),s:pk({2})))", False, False, 2),
}
LEGACY_SIGHASH = [1, 2, 3, 0x81, 0x82, 0x83]
TAPROOT_SIGHASH = [0, 1, 2, 3, 0x81, 0x82, 0x83]


def outcome_ok(f, *a):
    try:
        f(*a)
        return True
    except Exception:  # noqa: BLE001
        return False


def H(*a) -> bytes:
    return hashlib.sha256(repr(a).encode()).digest()


@dataclass
class Flow:
    shapes: list
    psbt_version: int
    created: object = None          # Psbt after the Updater
    signed: list = field(default_factory=list)   # one Psbt per signer (each from `created`)
    chained: object = None          # Psbt signed by every signer in turn
    finalized: object = None
    tx: object = None
    prevouts: list = field(default_factory=list)
    sighash: list = field(default_factory=list)
    roots: list = field(default_factory=list)
    descs: list = field(default_factory=list)
    index: list = field(default_factory=list)
    estimate: object = None
    note: dict = field(default_factory=dict)


class FlowGen:
    def __init__(self, rng, label="flow"):
        from btclib.bip32.bip32 import derive, fingerprint, rootxprv_from_seed, xpub_from_xprv

        self.rng = rng
        self.label = label
        self._derive, self._fp, self._root, self._xpub = derive, fingerprint, rootxprv_from_seed, xpub_from_xprv
        self._n = 0

    def roots(self, n=4):
        self._n += 1
        return [self._root(H(self.label, "root", self._n, i)) for i in range(n)]

    def key_expr(self, root, path="48h/0h/0h", tail="/0/*"):
        acc = self._derive(root, "m/" + path)
        return f"[{self._fp(root).hex()}/{path}]{self._xpub(acc)}{tail}"

    def descriptor(self, shape: str, roots, network="mainnet"):
        from btclib.descriptors import parse
        from btclib.descriptors.descriptors import add_checksum

        r = self.rng
        tmpl = SHAPES[shape][0]
        path = r.choice(["48h/0h/0h", "84h/0h/2h", "86h/0h/0h", "0h"])
        branch = r.choice([0, 1])
        keys = [self.key_expr(x, path, f"/{branch}/*") for x in roots]
        if "{4}" in tmpl:   # the many-key shapes: more accounts of the root nobody signs with
            keys += [self.key_expr(roots[3], f"{path}/{40 + i}h", f"/{branch}/*") for i in range(12)]
        return parse(add_checksum(tmpl.format(*keys)), network)

    def build(self, shapes=None, n_inputs=None, psbt_version=None, sighash="random", lock=None, sighash_first=None) -> Flow:
        """Create + update a PSBT spending ``n_inputs`` outputs of the given shapes."""
        from btclib.psbt.psbt import Psbt
        from btclib.script import ScriptPubKey
        from btclib.tx import OutPoint, Tx, TxIn, TxOut

        r = self.rng
        n_inputs = n_inputs or r.choice([1, 1, 2, 3, 4, 6])
        shapes = shapes or [r.choice(list(SHAPES)) for _ in range(n_inputs)]
        roots = self.roots()
        fl = Flow(shapes=list(shapes), psbt_version=psbt_version if psbt_version is not None else r.choice([0, 0, 2]), roots=roots)
        vin, funding = [], []
        for k, shape in enumerate(shapes):
            desc = self.descriptor(shape, roots)
            idx = r.choice([0, 1, 5, 999, 2**31 - 1, r.randrange(100000)])
            spk = desc.script_pub_key(idx)
            value = r.choice([50_000, 1_000_000, 546 * 100, 21 * 10**10])
            pos = r.choice([0, 1, 2])
            outs = [TxOut(777, ScriptPubKey(b"\x51")) for _ in range(pos)] + [TxOut(value, spk)]
            fund = Tx(2, 0, [TxIn(OutPoint(H(self.label, "fund", self._n, k), 1), b"", 0xFFFFFFFE)], outs)
            seq = r.choice([10, 11, 100, 65535]) if "mini" in shape else r.choice([0, 10, 0xFFFFFFFD, 0xFFFFFFFE, 0xFFFFFFFF])
            vin.append(TxIn(OutPoint(fund.id, pos), b"", seq))
            funding.append((fund, pos))
            fl.descs.append(desc)
            fl.index.append(idx)
        total = sum(f.vout[p].value for f, p in funding)
        n_out = r.choice([1, 1, 2, 3])
        fee = r.choice([500, 1500, 10_000])
        each = max(600, (total - fee) // n_out)
        vout = [TxOut(each, ScriptPubKey(r.choice([b"\x00\x14" + H("o", j)[:20], b"\x51\x20" + H("o", j), b"\x76\xa9\x14" + H("o", j)[:20] + b"\x88\xac"])))
                for j in range(n_out)]
        if lock is None:
            lock = r.choice([0, 100, 101, 499_999_999]) if any("mini-or" in s for s in shapes) else r.choice([0, 0, 1, 100, 500_000_000 + 5])
        if any(i.sequence == 0xFFFFFFFF for i in vin) and all(i.sequence == 0xFFFFFFFF for i in vin):
            lock = 0
        tx = Tx(2, lock, vin, vout)
        psbt = Psbt.from_tx(tx)
        for k, ((fund, pos), shape) in enumerate(zip(funding, shapes)):
            legacy, taproot = SHAPES[shape][1], SHAPES[shape][2]
            if not legacy:
                psbt.inputs[k].witness_utxo = fund.vout[pos]
            if not taproot and (legacy or r.random() < 0.7):
                psbt.inputs[k].non_witness_utxo = fund
            if k == 0 and sighash_first is not None:
                # the caller walks the hash types in turn (a short run still meets every one of them)
                kinds = TAPROOT_SIGHASH if taproot else LEGACY_SIGHASH
                ht = kinds[sighash_first % len(kinds)]
            elif sighash == "random":
                ht = r.choice(TAPROOT_SIGHASH if taproot else LEGACY_SIGHASH) if r.random() < 0.6 else None
            else:
                ht = sighash
            # SIGHASH_SINGLE needs a matching output
            if ht is not None and (ht & 3) == 3 and k >= len(vout):
                ht = 1
            fl.sighash.append(ht)
            if ht is not None:
                psbt.inputs[k].sig_hash_type = ht
            psbt = fl.descs[k].update_psbt_input(psbt, k, fl.index[k])
            fl.prevouts.append(fund.vout[pos])
        if fl.psbt_version == 2:
            psbt = psbt.to_v2()
            # BIP370: inputs may require a lock time; the transaction's is then computed from them, not the fallback
            if r.random() < 0.45:
                # one kind per transaction (heights or times), on one input or on several; now and then an input that
                # carries both kinds beside inputs of the chosen one, which BIP370 resolves
                kind = r.choice(["height", "time"])
                for k in r.sample(range(len(shapes)), r.choice([1, min(2, len(shapes)), len(shapes)])):
                    if kind == "height" or r.random() < 0.15:
                        psbt.inputs[k].required_height_lock_time = r.choice([1, 100, 144, 499_999_999])
                    if kind == "time" or r.random() < 0.15:
                        psbt.inputs[k].required_time_lock_time = r.choice([500_000_000, 1_700_000_000, 1_234_567_890])
                fl.note["required_lock_time_kind"] = kind
                fl.note["required_lock_times"] = True
                if outcome_ok(psbt.assert_valid) is False:
                    for p in psbt.inputs:
                        p.required_height_lock_time = p.required_time_lock_time = None
                    fl.note["required_lock_times"] = False
        fl.created = psbt
        return fl

    def sign(self, fl: Flow, how="software") -> Flow:
        from btclib.psbt.psbt import sign as psbt_sign
        from btclib.psbt_signer import SoftwareSigner, request_signatures

        cur = fl.created
        fl.signed = []
        for root in fl.roots[:3]:
            signer = SoftwareSigner(root)
            if how == "nogrind":
                signer = _NoGrind(root)
            if how == "software":
                one = request_signatures(signer, fl.created)
                cur = request_signatures(signer, cur)
            else:
                one = psbt_sign(fl.created, signer)[0]
                cur = psbt_sign(cur, signer)[0]
            fl.signed.append(one)
        fl.chained = cur
        return fl

    def finish(self, fl: Flow, psbt=None) -> Flow:
        from btclib.descriptors.descriptors import miniscript_solver
        from btclib.psbt.psbt import extract_tx, finalize

        fl.finalized = finalize(psbt if psbt is not None else fl.chained, solver=self.solver(fl))
        fl.tx = extract_tx(fl.finalized)
        return fl

    def solver(self, fl: Flow):
        """miniscript_solver for wsh() miniscripts; Descriptor.satisfy for taproot script paths the finalizer leaves to the caller."""
        from btclib.descriptors.descriptors import miniscript_solver
        from btclib.descriptors.miniscript import SpendContext

        def solve(psbt, vin_i):
            shape = fl.shapes[vin_i]
            # plain multisig is the library finalizer's own business (a multi() is also a miniscript, and the solver would take it over)
            if "mini" in shape:
                r = miniscript_solver(psbt, vin_i)
                if r is not None:
                    return r
            pin = psbt.inputs[vin_i]
            if not pin.taproot_script_spend_signatures or pin.taproot_key_spend_signature:
                return None
            # Descriptor.satisfy takes one signature per key, and a key named in several leaves signed each leaf separately
            # (the message commits to the tapleaf hash): offer one leaf's signatures at a time and keep the answer that
            # spends that very leaf
            from btclib.script.taproot import leaf_hash as tapleaf_hash

            tx = psbt.tx
            spend = SpendContext(locktime=tx.lock_time, sequence=tx.vin[vin_i].sequence, version=tx.version)
            by_leaf: dict = {}
            for key, sig in pin.taproot_script_spend_signatures.items():
                by_leaf.setdefault(key[32:], {})[key[:32]] = sig
            last = None
            for lh, sigs in by_leaf.items():
                try:
                    script_sig, witness = fl.descs[vin_i].satisfy(sigs, fl.index[vin_i], None, spend)
                except Exception as e:  # noqa: BLE001 - this leaf is not satisfied by its own signatures: try the next
                    last = e
                    continue
                control = witness.stack[-1]
                if tapleaf_hash(control[0] & 0xFE, witness.stack[-2]) == lh:
                    return script_sig, witness
            if last is not None:
                raise last
            return None
        return solve

    def sizer(self, fl: Flow):
        """The sizer a caller who knows how the inputs will be spent would pass."""
        from btclib.curves.sec_point import bytes_from_point  # noqa: F401
        from btclib.descriptors.descriptors import miniscript_sizer, satisfaction_sizer

        keys = []
        for pin in fl.created.inputs:
            keys += list(pin.hd_key_paths) + list(pin.taproot_hd_key_paths)
        sat = satisfaction_sizer(keys)

        from btclib.descriptors.miniscript import SpendContext

        where = {(i.prev_out.tx_id, i.prev_out.vout): k for k, i in enumerate(fl.created.tx.vin)}

        def both(psbt_in, tx_in):
            r = miniscript_sizer(psbt_in, tx_in)
            if r is None:
                r = sat(psbt_in, tx_in)
            if r is not None:
                return r
            # a taproot input carrying leaf scripts: which spend it will be is the caller's knowledge, and this caller knows
            k = where.get((tx_in.prev_out.tx_id, tx_in.prev_out.vout))
            if k is None or not SHAPES[fl.shapes[k]][2] or not psbt_in.taproot_leaf_scripts:
                return None
            sig_len = 64 if fl.sighash[k] in (None, 0) else 65
            if fl.shapes[k] == "tr-keypath-with-tree":
                return [sig_len]
            signers = set()
            for root in fl.roots[:3]:
                signers.add(bytes(self._fp(root)))
            sigs = {key: bytes(sig_len) for key, (leaves, origin) in psbt_in.taproot_hd_key_paths.items()
                    if leaves and bytes(origin.master_fingerprint) in signers}
            spend = SpendContext(locktime=fl.created.tx.lock_time, sequence=tx_in.sequence, version=fl.created.tx.version)
            _ss, witness = fl.descs[k].satisfy(sigs, fl.index[k], None, spend)
            return [len(e) for e in witness.stack]
        return both


def _NoGrind(root):
    """The library's SoftwareSigner with ECDSA low-R grinding switched off (dsa.sign_(grind=False)): 72-byte signatures occur."""
    from btclib.ecc import dsa
    from btclib.psbt_signer import SoftwareSigner

    class NoGrind(SoftwareSigner):
        def sign_ecdsa(self, pub_key, origin, msg_hash):
            prv_key = self._prv_key(pub_key, origin)
            if prv_key is None:
                return None
            return dsa.sign_(msg_hash, prv_key, grind=False).serialize()
    return NoGrind(root)


def core_tx(tx):
    """The library's Tx as the reference model's (rv.ref.core) Tx, through the wire bytes."""
    from ..ref import core as cm

    return cm.parse_tx(tx.serialize(include_witness=True))


def core_verdicts(tx, prevouts, flags=None):
    """Reference-model verdict per input under the standard flags."""
    from ..ref import core as cm

    mtx = core_tx(tx)
    spent = [cm.TxOut(p.value, p.script_pub_key.script) for p in prevouts]
    f = cm.ALL_FLAGS if flags is None else flags
    return [cm.run(i.script_sig, spent[k].spk, list(i.witness), f, cm.Checker(mtx, k, spent[k].value, spent)) for k, i in enumerate(mtx.vin)]
