"""Structured generators of script programs and spends (no btclib import).

Every generator yields ``Case`` objects: a spending transaction in the model's
own classes (rv.ref.core), the spent outputs, the input under test, flags, and a
tag naming the situation it was built for.
"""

from __future__ import annotations

import struct
from dataclasses import dataclass, field

from ..ref import core as cm
from ..ref import signers as sg
from ..ref.core import F, FLAG_NAMES, num_encode, push_data, ripemd160, sha256, tagged_hash

NUMS = bytes.fromhex("50929b74c1a04954b78b4b6035e97a5e078a5a0f28ec96d547bfee9ace803ac0")

SIMPLE = [0, 79] + list(range(81, 97)) + [97, 99, 100, 103, 104, 105, 106, 107, 108, 109, 110, 111, 112, 113, 114,
          115, 116, 117, 118, 119, 120, 121, 122, 123, 124, 125, 130, 135, 136, 139, 140, 143, 144, 145, 146, 147,
          148, 154, 155, 156, 157, 158, 159, 160, 161, 162, 163, 164, 165, 166, 167, 168, 169, 170, 171, 176, 177,
          178, 179, 185]
RARE = [80, 98, 101, 102, 126, 127, 128, 129, 131, 132, 133, 134, 137, 138, 141, 142, 149, 150, 151, 152, 153,
        172, 173, 174, 175, 186, 187, 200, 254, 255]
TAPOPS = SIMPLE + [186, 186, 172, 172, 80, 98, 126, 137, 187, 200, 254, 255, 255, 174]


@dataclass
class Case:
    tag: str
    tx: cm.Tx
    spent: list          # list[cm.TxOut], one per input
    n_in: int
    flags: int
    note: dict = field(default_factory=dict)

    def key(self):
        return (self.tx.ser(True), tuple((o.value, o.spk) for o in self.spent), self.n_in, self.flags)

    def describe(self) -> dict:
        i = self.tx.vin[self.n_in]
        return {"tag": self.tag, "tx": self.tx.ser(True).hex(), "n_in": self.n_in,
                "spent": [[o.value, o.spk.hex()] for o in self.spent],
                "flags": [n for n in FLAG_NAMES if self.flags & F[n]],
                "script_sig": i.script_sig.hex(), "witness": [w.hex() for w in i.witness], **self.note}


def close_flags(f: int) -> int:
    """Core's own preconditions between flags."""
    if f & F["CLEANSTACK"]:
        f |= F["WITNESS"]
    if f & F["TAPROOT"]:
        f |= F["WITNESS"]
    if f & F["WITNESS"]:
        f |= F["P2SH"]
    return f


STANDARD = 0
for _n in FLAG_NAMES:
    STANDARD |= F[_n]


class Gen:
    def __init__(self, rng):
        self.rng = rng
        self.pool = sg.KeyPool()
        self.spool = sg.SchnorrPool(self.pool)
        self._tap_keypath = {}

    # ------------------------------------------------------------ flags
    def flags(self) -> int:
        r = self.rng
        k = r.random()
        if k < 0.15:
            f = 0
        elif k < 0.35:
            f = cm.ALL_FLAGS
        elif k < 0.5:
            f = F[r.choice(FLAG_NAMES)]
        elif k < 0.6:
            f = cm.ALL_FLAGS & ~F[r.choice(FLAG_NAMES)]
        else:
            f = r.getrandbits(len(FLAG_NAMES))
        return close_flags(f)

    # ----------------------------------------------------------- pushes
    def push(self) -> bytes:
        r = self.rng
        k = r.random()
        if k < 0.45:
            d = bytes(r.randrange(256) for _ in range(r.choice([0, 1, 1, 1, 2, 3, 4, 5, 8, 20, 32, 33, 75, 76])))
        elif k < 0.8:
            d = num_encode(r.choice([0, 1, -1, 2, 16, 17, 127, 128, 255, 256, -128, -127, 2**31 - 1, 2**31,
                                     -(2**31) + 1, -(2**31), 2**32, 2**39 - 1, 2**39, r.randrange(-1000, 1000)]))
        else:
            d = r.choice([b"\x80", b"\x00", b"\x00\x80", b"\x01\x00", b"\x81", b"\x10", b"\x00\x00\x00\x00\x00",
                          b"\x00\x00\x00\x80", b"\xff\xff\xff\xff\x00", b"\x01\x00\x00\x00\x80"])
        if r.random() < 0.85:
            return push_data(d)
        m = r.choice([76, 77, 78])
        if m == 76:
            return bytes([76, len(d)]) + d
        if m == 77:
            return bytes([77]) + struct.pack("<H", len(d)) + d
        return bytes([78]) + struct.pack("<I", len(d)) + d

    def items(self, n: int) -> list[bytes]:
        out = []
        for _ in range(n):
            op = cm.get_op(self.push(), 0)
            out.append(op[1] if op and op[1] is not None else b"")
        return out

    def script(self, n: int, ops=SIMPLE) -> bytes:
        r = self.rng
        out = bytearray()
        for _ in range(n):
            k = r.random()
            if k < 0.38:
                out += self.push()
            elif k < 0.9:
                out.append(r.choice(ops))
            elif k < 0.95:
                out.append(r.choice(RARE))
            elif k < 0.975:
                out.append(r.randrange(256))
            else:
                out += bytes([r.choice([75, 76, 77, 78]), r.randrange(256)])  # probably truncated
        return bytes(out)

    def structured_script(self) -> bytes:
        """Conditionals (nested, unbalanced, unexecuted branches holding odd opcodes)."""
        r = self.rng
        body = lambda: self.script(r.randrange(0, 4))  # noqa: E731
        odd = lambda: bytes([r.choice(RARE + [r.randrange(256)])])  # noqa: E731
        shape = r.randrange(8)
        cond = r.choice([b"\x00", b"\x51", b"\x01\x02", b"\x01\x00", b"\x01\x80", b"\x52", self.push()])
        if shape == 0:
            s = cond + b"\x63" + body() + b"\x68"
        elif shape == 1:
            s = cond + b"\x63" + body() + b"\x67" + body() + b"\x68"
        elif shape == 2:
            s = b"\x00\x63" + odd() + b"\x68" + body()
        elif shape == 3:
            s = b"\x51\x63" + body() + b"\x67" + odd() + b"\x68" + body()
        elif shape == 4:
            s = cond + b"\x63" + cond + r.choice([b"\x63", b"\x64"]) + body() + b"\x68" + body() + b"\x68"
        elif shape == 5:
            s = cond + r.choice([b"\x63", b"\x64", b"\x67", b"\x68", b"\x63\x67\x67\x68"]) + body()
        elif shape == 6:
            s = b"\x00\x63" + push_data(bytes(r.choice([520, 521, 75, 76]))) + b"\x68" + body()
        else:
            s = body() + b"\x6a" + odd() + body()
        return s + (r.choice([b"", b"\x51", b"\x00", b"\x51\x51"]))

    # --------------------------------------------------------- assembly
    def _tx(self, script_sig: bytes, witness: list, n_extra_in=0, n_out=1, amount=1000):
        r = self.rng
        ver = r.choice([1, 2, 2, 0xFFFFFFFF, 0])
        lock = r.choice([0, 0, 1, 499999999, 500000000, 0xFFFFFFFF, r.randrange(1 << 32)])
        seq = r.choice([0, 1, 0xFFFFFFFF, 0xFFFFFFFF, 0xFFFFFFFE, 1 << 31, 1 << 22, (1 << 22) | 5, 5, 0xFFFF])
        vin = [cm.TxIn(bytes([0x11]) * 32, 0, script_sig, seq, list(witness))]
        for j in range(n_extra_in):
            vin.append(cm.TxIn(bytes([0x22 + j]) * 32, j, b"", r.choice([0, 0xFFFFFFFF, 7]), []))
        vout = [cm.TxOut(r.choice([0, 1, amount, 21 * 10**14]), r.choice([b"", b"\x51", b"\x6a\x01x"])) for _ in range(n_out)]
        return cm.Tx(ver, vin, vout, lock)

    def _case(self, tag, spk, script_sig=b"", witness=(), flags=None, amount=1000, n_extra_in=0, n_out=1, note=None):
        tx = self._tx(script_sig, list(witness), n_extra_in, n_out, amount)
        spent = [cm.TxOut(amount, spk)] + [cm.TxOut(5000 + j, b"\x51") for j in range(n_extra_in)]
        n_in = 0
        if n_extra_in and self.rng.random() < 0.5:  # move the input under test to another position
            n_in = self.rng.randrange(n_extra_in + 1)
            tx.vin[0], tx.vin[n_in] = tx.vin[n_in], tx.vin[0]
            spent[0], spent[n_in] = spent[n_in], spent[0]
        return Case(tag, tx, spent, n_in, self.flags() if flags is None else flags, note or {})

    # -------------------------------------------------- opcode-level cases
    def bare_program(self) -> Case:
        r = self.rng
        k = r.random()
        if k < 0.6:
            ss = self.script(r.randrange(0, 6)) if r.random() < 0.5 else b"".join(self.push() for _ in range(r.randrange(0, 5)))
            spk = self.script(r.randrange(1, 12))
            tag = "bare:random"
        elif k < 0.85:
            ss = b"".join(self.push() for _ in range(r.randrange(0, 4)))
            spk = self.structured_script()
            tag = "bare:conditionals"
        elif k < 0.93:
            ss = b"".join(push_data(x) for x in self.items(r.randrange(0, 4)))
            spk = self.arith_script()
            tag = "bare:numbers"
        else:
            # lock-time opcodes on boundary operands against boundary transaction fields
            v = r.choice([0, 1, 499999999, 500000000, 500000001, 0xFFFFFFFF, 0xFFFF, 0x10000, 1 << 22, (1 << 22) | 0xFFFF,
                          (1 << 22) | 5, 5, 1 << 31, (1 << 31) | 5, -1, 1 << 32, (1 << 39) - 1, 1 << 39])
            ss = b""
            op = r.choice([b"\xb1", b"\xb2"])
            spk = push_data(num_encode(v)) + op + r.choice([b"", b"\x75\x51", b"\x69\x51"])
            tag = "bare:locktime"
            case = self._case(tag, spk, ss)
            if r.random() < 0.65:
                # the transaction's own field next to the operand: same unit with the count one below / equal / one above,
                # the bits BIP68 ignores set at random (they must not take part in the comparison), the other unit, the
                # disable bit, the final sequence that switches nLockTime off
                tin = case.tx.vin[case.n_in]
                rel = r.choice([-1, 0, 0, 1])
                if op == b"\xb2":
                    base = v & 0xFFFFFFFF if v >= 0 else 5
                    seq = (base & (1 << 22)) | ((base & 0xFFFF) + rel) & 0xFFFF
                    if r.random() < 0.5:
                        seq |= r.getrandbits(31) & ~((1 << 22) | 0xFFFF)
                    if r.random() < 0.15:
                        seq ^= 1 << 22
                    if r.random() < 0.1:
                        seq |= 1 << 31
                    tin.sequence = seq
                    case.tx.version = r.choice([1, 2, 2, 2, 3, 0xFFFFFFFF])
                else:
                    case.tx.lock_time = min(max((v if 0 <= v < 1 << 32 else 500000000) + rel, 0), 0xFFFFFFFF)
                    if r.random() < 0.15:
                        case.tx.lock_time = (case.tx.lock_time + 500000000) % (1 << 32)
                    tin.sequence = r.choice([0, 0xFFFFFFFE, 0xFFFFFFFE, 0xFFFFFFFF, r.getrandbits(32)])
                case.note["locktime"] = "paired"
            return case
        return self._case(tag, spk, ss)

    def arith_script(self) -> bytes:
        r = self.rng
        nums = [0, 1, -1, 127, 128, -128, 255, 256, 32767, 32768, 2**31 - 1, -(2**31) + 1, 2**31, 2**32, r.randrange(-70000, 70000)]
        va, vb, vc = (r.choice(nums) for _ in range(3))
        rel = r.random()
        if rel < 0.25:  # the boundaries every comparison, MIN/MAX and WITHIN turn on: equal and adjacent operands
            vb = va
        elif rel < 0.4:
            vb = va + r.choice([-1, 1])
        if r.random() < 0.3:
            vc = r.choice([va, vb, va + 1, vb + 1])
        a, b, c = (push_data(num_encode(v)) for v in (va, vb, vc))
        if r.random() < 0.2:
            a = r.choice([b"\x01\x80", b"\x02\x00\x80", b"\x05\x00\x00\x00\x00\x80", b"\x02\x01\x00", b"\x05\x01\x00\x00\x00\x00"])
        op2 = bytes([r.choice([147, 148, 154, 155, 156, 157, 158, 159, 160, 161, 162, 163, 164, 135, 136])])
        op1 = bytes([r.choice([139, 140, 143, 144, 145, 146, 130, 115, 118])])
        form = r.randrange(5)
        if form == 0:
            return a + b + op2
        if form == 1:
            return a + op1 + b + op2
        if form == 2:
            return a + b + c + b"\xa5"  # WITHIN
        if form == 3:
            return a + b + op2 + r.choice([b"\x91", b"\x92", b"\x69", b""])
        return a + r.choice([b"\xb1", b"\xb2"]) + r.choice([b"", b"\x75\x51"])  # CLTV / CSV on a number

    def limit_edge(self) -> Case:
        """Builders at the op-count / push-size / stack-size / script-size limits."""
        r = self.rng
        kind = r.randrange(7)
        note = {}
        ss = b""
        if kind == 0:  # 200 / 201 / 202 counted ops; pushes (OP_0..OP_16, OP_RESERVED excluded) are free
            n = r.choice([200, 201, 202])
            k = r.choice([0, 0, 1, 5])
            free = r.choice([b"\x60", b"\x4f", b"\x01\x07", b"\x00"])
            spk = b"\x51" + (free + b"\x75") * k + b"\x61" * (n - k)
            tag = f"limit:ops:{n}"
        elif kind == 1:  # CHECKMULTISIG key count added to the op count
            nkeys = r.choice([1, 3, 20, 21])
            nops = r.choice([199 - nkeys, 200 - nkeys, 201 - nkeys, 201 - nkeys + 1])
            keys = b"".join(push_data(sg.pub_compressed(self.pool.key(j)[1])) for j in range(nkeys))
            # 0-of-n with no signature succeeds: the op count (nops + CHECKMULTISIG + nkeys) is the only thing at stake
            spk = b"\x61" * max(0, nops) + b"\x00\x00" + keys + (push_data(num_encode(nkeys))) + b"\xae"
            tag = f"limit:ops-multisig:{nkeys}"
        elif kind == 2:  # 520 / 521-byte pushes, executed or not
            n = r.choice([519, 520, 521, 522])
            body = push_data(bytes(n))
            spk = r.choice([body + b"\x75\x51", b"\x00\x63" + body + b"\x68\x51", b"\x51" + body + b"\x82\x75\x75"])
            tag = f"limit:push:{n}"
        elif kind == 3:  # 1000 / 1001 stack + altstack elements
            n = r.choice([998, 999, 1000, 1001])
            k = r.choice([0, 1, 400])
            spk = b"\x51" * (n - k) + b"\x51\x6b" * k + b"\x51"
            tag = f"limit:stack:{n}"
            if len(spk) > 10000:
                spk = b"\x51" * n + b"\x51"
            if r.random() < 0.5:
                # the limit crossed for one instruction only, and by a *data push* (0x01..0x4e), an OP_n or an operator in turn:
                # Core counts after every opcode, so going over 1000 fails even when the next opcode comes back under it
                base = r.choice([998, 999, 1000])
                over = r.choice([b"\x01\x07", b"\x02\x07\x07", b"\x4c\x01\x07", b"\x57", b"\x00", b"\x76", b"\x6e", b"\x6f"])
                n_over = r.choice([1, 2, 3])
                spk = b"\x51" * base + over * n_over + b"\x75" * (n_over + r.choice([0, 1, 2])) + r.choice([b"", b"\x51"])
                tag = f"limit:stack-transient:{base}"
        elif kind == 4:  # 10000 / 10001-byte scripts
            n = r.choice([9999, 10000, 10001])
            spk = b"\x51" + push_data(bytes(255)) * 38 + b"\x75" * 38
            spk = spk + b"\x61" * 0
            pad = n - len(spk)
            # pad with pushes (not counted as ops) and drops
            spk = b"\x51" + (b"\x4c\xff" + bytes(255) + b"\x75") * 38 + b""
            rest = n - len(spk)
            if rest >= 3:
                spk += bytes([0x4D]) + struct.pack("<H", rest - 4) + bytes(rest - 4) + b"\x75" if rest - 4 <= 520 else b"\x61" * min(rest, 150)
            tag = f"limit:size:{len(spk)}"
        elif kind == 5:  # number size boundary
            v = r.choice([2**31 - 1, 2**31, -(2**31) + 1, -(2**31)])
            spk = push_data(num_encode(v)) + r.choice([b"\x8b", b"\x51\x93", b"\x8f", b"\x90"]) + b"\x75\x51"
            tag = "limit:num4"
        else:  # PICK / ROLL indexes
            d = r.choice([0, 1, 2, 3])
            idx = r.choice([-1, 0, d, d + 1, 2**31])
            spk = b"\x51" * (d + 1) + push_data(num_encode(idx)) + r.choice([b"\x79", b"\x7a"])
            tag = "limit:pick-roll"
        return self._case(tag, spk, ss, note=note)

    # ------------------------------------------------------ signature helpers
    def _pub(self, Q, kind: str) -> bytes:
        if kind == "compressed":
            return sg.pub_compressed(Q)
        if kind == "uncompressed":
            return sg.pub_uncompressed(Q)
        if kind == "hybrid":
            return sg.pub_hybrid(Q)
        if kind == "wrong-length":
            return sg.pub_compressed(Q)[:-1]
        if kind == "bad-prefix":
            return b"\x05" + sg.pub_compressed(Q)[1:]
        if kind == "empty":
            return b""
        if kind == "not-on-curve":
            return b"\x02" + (5).to_bytes(32, "big")
        raise AssertionError(kind)

    def key_kind(self) -> str:
        return self.rng.choices(["compressed", "uncompressed", "hybrid", "wrong-length", "bad-prefix", "empty", "not-on-curve"],
                                [50, 18, 10, 5, 4, 4, 3])[0]

    def sig_kind(self) -> str:
        return self.rng.choices(["valid", "high-s", "lax", "wrong-key", "wrong-msg", "empty", "hashtype0", "hashtype-undef",
                                 "no-hashtype", "garbage", "der-values"], [45, 8, 10, 6, 6, 8, 5, 5, 3, 4, 8])[0]

    def ecdsa_sig(self, kind: str, d: int, digest_fn, hash_type: int | None = None) -> tuple[bytes, int]:
        """A signature element (DER || hash type byte) of the requested kind; digest_fn(hash_type) -> 32 bytes."""
        r = self.rng
        if hash_type is None:
            hash_type = r.choice([1, 1, 1, 2, 3, 0x81, 0x82, 0x83])
        if kind == "hashtype0":
            hash_type = 0
        if kind == "hashtype-undef":
            # any byte Core's IsDefinedHashtypeSignature refuses (the byte less 0x80 outside 1..3): the whole range, since
            # which bits a rule masks is exactly what such a rule gets wrong (0x21: SIGHASH_ALL's selector, undefined byte)
            hash_type = r.choice([4, 0x50, 0x84, 0x7F, 0xFF, 0x80] + [h for h in range(256) if not 1 <= (h & ~0x80) <= 3])
        if kind == "empty":
            return b"", hash_type
        if kind == "garbage":
            return bytes(r.randrange(256) for _ in range(r.choice([1, 8, 9, 70, 71, 72, 73, 74]))), hash_type
        if kind == "der-values":
            # a canonical DER encoding of values no signer produces: zero, the order and beyond it, an r that is the abscissa
            # of no point, integers of 33 and 34 octets. The encoding rules read lengths and sign bits, not values
            N_ = cm.N
            vals = [0, 1, 2, 5, N_ // 2, N_ // 2 + 1, N_ - 1, N_, N_ + 1, 2**255, 2**256 - 1, 2**256, 2**263, r.getrandbits(256), r.getrandbits(255)]
            return sg.der(r.choice(vals), r.choice(vals)) + bytes([hash_type]), hash_type
        msg = digest_fn(hash_type)
        if kind == "wrong-key":
            d = self.pool.key(r.randrange(1, 5))[0] ^ 1
        if kind == "wrong-msg":
            msg = sha256(msg)
        rr, ss = sg.ecdsa_sign(self.pool, d, msg, r.randrange(6), low_s=kind != "high-s")
        if kind == "high-s" and ss <= cm.N // 2:
            ss = cm.N - ss
        enc = sg.der(rr, ss)
        if kind == "lax":
            enc = r.choice(list(sg.der_variants(rr, ss).values()))
        if kind == "no-hashtype":
            return enc, hash_type
        return enc + bytes([hash_type]), hash_type

    # -------------------------------------------------------- spend-level
    def sig_spend(self) -> Case:
        """P2PK / P2PKH / multisig / templates with separators, wrapped in every legacy and v0 form."""
        r = self.rng
        template = r.choice(["p2pk", "p2pkh", "multisig", "codesep", "fad", "checksig-not", "cltv", "csv", "minimalif", "sigverify"])
        wrap = r.choice(["bare", "bare", "p2sh", "p2wsh", "p2sh-p2wsh"])
        if template == "p2pkh" and r.random() < 0.5:
            wrap = r.choice(["bare", "p2sh", "p2wpkh", "p2sh-p2wpkh"])
        flags = self.flags()
        if r.random() < 0.6:
            flags = close_flags(flags | F["P2SH"] | F["WITNESS"])
        amount = r.choice([0, 1, 1000, 21 * 10**14])
        kidx = r.randrange(6)
        d, Q = self.pool.key(kidx)
        kk = self.key_kind()
        if wrap in ("p2wpkh", "p2sh-p2wpkh"):
            kk = r.choice(["compressed", "compressed", "uncompressed", "hybrid"])
        pk = self._pub(Q, kk)
        sk = self.sig_kind()
        n_extra = r.choice([0, 0, 1, 2])
        n_out = r.choice([0, 1, 1, 2, 3])
        note = {"template": template, "wrap": wrap, "key": kk, "sig": sk}

        # the inner script and the element list that satisfies it; sig placeholders are filled after the tx exists
        sigslots: list[tuple[int, str]] = []   # (key index, sig kind) in push order
        pre: list[bytes] = []                  # elements pushed before the signatures' slots (dummy etc.)
        post: list[bytes] = []
        if template == "p2pk":
            inner = push_data(pk) + b"\xac"
            sigslots = [(kidx, sk)]
        elif template == "p2pkh":
            inner = b"\x76\xa9\x14" + ripemd160(sha256(pk)) + b"\x88\xac"
            sigslots = [(kidx, sk)]
            post = [pk]
        elif template == "sigverify":
            inner = push_data(pk) + b"\xad" + r.choice([b"\x51", b"\x00", b""])
            sigslots = [(kidx, sk)]
        elif template == "checksig-not":
            inner = push_data(pk) + b"\xac\x91"
            sigslots = [(kidx, r.choice(["empty", "wrong-key", "wrong-msg", "valid", "garbage", "hashtype0", "high-s"]))]
        elif template == "codesep":
            form = r.randrange(4)
            inner = [b"\xab" + push_data(pk) + b"\xac", push_data(pk) + b"\xab\xac",
                     b"\xab\xab" + push_data(pk) + b"\xab\xac", b"\x51\x63\xab\x68" + push_data(pk) + b"\xac"][form]
            sigslots = [(kidx, sk)]
        elif template == "fad":
            # the signature also sits inside the script: FindAndDelete territory (legacy only changes the digest)
            inner = b"FAD"  # replaced below, needs the signature
            sigslots = [(kidx, sk)]
        elif template == "cltv":
            lockv = r.choice([0, 1, 499999999, 500000000, 0xFFFFFFFF, -1, 2**39])
            inner = push_data(num_encode(lockv)) + b"\xb1\x75" + push_data(pk) + b"\xac"
            sigslots = [(kidx, sk)]
        elif template == "csv":
            seqv = r.choice([0, 1, 5, 0xFFFF, 1 << 22, (1 << 22) | 5, 1 << 31, (1 << 31) | 5, -1, 2**39])
            inner = push_data(num_encode(seqv)) + b"\xb2\x75" + push_data(pk) + b"\xac"
            sigslots = [(kidx, sk)]
        elif template == "minimalif":
            inner = b"\x63" + push_data(pk) + b"\xac\x67\x51\x68"
            sigslots = [(kidx, sk)]
            post = [r.choice([b"\x01", b"\x02", b"\x01\x00", b"", b"\x00", b"\x80"])]
        else:  # multisig
            n = r.choice([1, 2, 3, 3, 5, 20])
            m = r.randrange(0, n + 1) if r.random() < 0.9 else n + 1
            kinds = [self.key_kind() if r.random() < 0.25 else "compressed" for _ in range(n)]
            pks = [self._pub(self.pool.key(j)[1], kinds[j]) for j in range(n)]
            inner = push_data(num_encode(m)) + b"".join(push_data(x) for x in pks) + push_data(num_encode(n)) + b"\xae"
            if r.random() < 0.2:
                inner += b"\x91"
            signers = sorted(r.sample(range(n), min(m, n)))
            if r.random() < 0.15 and len(signers) > 1:
                signers.reverse()  # wrong order
            sigslots = [(j, "valid" if r.random() < 0.7 else self.sig_kind()) for j in signers]
            pre = [r.choice([b"", b"", b"", b"\x00", b"\x01", b"\x51"])]  # the dummy
            note["multisig"] = f"{m}-of-{n}"

        return self._assemble(template, wrap, inner, sigslots, pre, post, flags, amount, n_extra, n_out, note)

    def _assemble(self, template, wrap, inner, sigslots, pre, post, flags, amount, n_extra, n_out, note) -> Case:
        r = self.rng
        segwit = wrap in ("p2wsh", "p2sh-p2wsh", "p2wpkh", "p2sh-p2wpkh")
        # build the skeleton first (signatures empty), then sign against the final transaction
        if wrap in ("p2wpkh", "p2sh-p2wpkh"):
            pk = post[0]
            program = b"\x00\x14" + ripemd160(sha256(pk))
            script_code = b"\x76\xa9\x14" + ripemd160(sha256(pk)) + b"\x88\xac"
        elif wrap in ("p2wsh", "p2sh-p2wsh"):
            program = b"\x00\x20" + sha256(inner)
            script_code = inner
        else:
            program = None
            script_code = inner
        if wrap == "bare":
            spk = inner
        elif wrap == "p2sh":
            spk = b"\xa9\x14" + ripemd160(sha256(inner)) + b"\x87"
        elif wrap in ("p2wsh", "p2wpkh"):
            spk = program
        else:
            spk = b"\xa9\x14" + ripemd160(sha256(program)) + b"\x87"

        case = self._case(f"spend:{template}:{wrap}", spk, b"", [], flags, amount, n_extra, n_out, note)
        tx, n_in = case.tx, case.n_in

        def digest_fn_for(code):
            def f(ht):
                if segwit:
                    return cm.segwit_sighash(code, tx, n_in, ht, amount)
                return cm.legacy_sighash(code, tx, n_in, ht)
            return f

        # script code as Core computes it: after the last executed CODESEPARATOR (all our separators execute,
        # except the one inside an unexecuted IF), legacy additionally strips separators and FindAndDelete's the sig
        code = script_code
        if template == "codesep":
            if segwit:
                idx = code.rfind(b"\xab") if not code.startswith(b"\x51\x63") else -1
                # positions: separators are single bytes outside pushes here; key push is 34/66 bytes with no 0xab risk handled below
                code = self._after_last_executed_codesep(code)
            else:
                code = self._after_last_executed_codesep(code)
        sigs = []
        for (j, kind) in sigslots:
            dj = self.pool.key(j)[0]
            sig, _ = self.ecdsa_sig(kind, dj, digest_fn_for(code))
            sigs.append(sig)
        if template == "fad":
            # script = <sig> DROP <pk> CHECKSIG ; legacy FindAndDelete removes the push of the signature from the code
            pkb = self._pub(self.pool.key(sigslots[0][0])[1], note["key"])
            twice = r.random() < 0.5
            base_tail = (b"\x6d" if twice else b"\x75") + push_data(pkb) + b"\xac"
            # digest is over the script with the signature push deleted (legacy) or intact (segwit): two-pass fixpoint is
            # impossible for segwit (sig inside its own preimage), so the segwit form simply carries a foreign signature
            if segwit:
                foreign = sg.der(*sg.ecdsa_sign(self.pool, 7, bytes(32))) + b"\x01"
                inner2 = push_data(foreign) * (2 if twice else 1) + base_tail
                return self._assemble("fad-foreign", wrap, inner2, sigslots, pre, post, flags, amount, n_extra, n_out, note)
            sig, _ = self.ecdsa_sig(sigslots[0][1], self.pool.key(sigslots[0][0])[0],
                                    lambda ht: cm.legacy_sighash(base_tail, tx, n_in, ht))
            inner2 = push_data(sig) * (2 if twice else 1) + base_tail
            sigs = [sig]
            inner = inner2
            if wrap == "bare":
                case.spent[n_in] = cm.TxOut(amount, inner)
            else:  # p2sh
                case.spent[n_in] = cm.TxOut(amount, b"\xa9\x14" + ripemd160(sha256(inner)) + b"\x87")
            # the spent script changed but legacy digests do not commit to it beyond the script code: signature stays valid

        elements = list(pre) + sigs + list(post)
        mall = r.random()
        if wrap == "bare":
            ss = b"".join(push_data(e) for e in elements)
            if mall < 0.06:
                ss = b"\x61" + ss                       # not push-only
            elif mall < 0.1:
                ss = ss + b"\x51"                       # extra element: CLEANSTACK
            wit = []
            if mall > 0.97:
                wit = [b"\x01"]                         # witness on a non-witness spend
        elif wrap == "p2sh":
            ss = b"".join(push_data(e) for e in elements) + push_data(inner)
            if mall < 0.06:
                ss = b"\x61" + ss
            elif mall < 0.1:
                ss = b"\x51" + ss
            wit = [b"\x01"] if mall > 0.97 else []
        elif wrap in ("p2wsh", "p2wpkh"):
            ss = b"\x51" if mall < 0.05 else b""
            wit = elements + ([inner] if wrap == "p2wsh" else [])
            if 0.05 < mall < 0.09:
                wit = [b"\x51"] + wit                   # extra element
            if 0.09 < mall < 0.12 and wrap == "p2wsh":
                wit = wit[:-1] + [inner + b"\x61"]      # program mismatch
            if 0.12 < mall < 0.14:
                wit = []
        else:  # p2sh-wrapped witness
            ss = push_data(program)
            if mall < 0.07:
                ss = r.choice([self.push() + ss, b"\x4c" + ss, b"\x51" + ss, ss + b"\x51", b"\x00" + ss])
            wit = elements + ([inner] if wrap == "p2sh-p2wsh" else [])
            if 0.07 < mall < 0.1:
                wit = [b"\x51"] + wit
        tx.vin[n_in].script_sig = ss
        tx.vin[n_in].witness = wit
        # legacy digests commit to nothing in script_sig or witness, segwit ones neither: signatures made above stay valid
        return case

    @staticmethod
    def _after_last_executed_codesep(code: bytes) -> bytes:
        """Script code after the last OP_CODESEPARATOR that executes in our fixed templates."""
        if code.startswith(b"\x51\x63\xab\x68"):   # inside an executed IF (condition 1): it executes
            return code[3:]
        pos, pc, last = 0, 0, 0
        while pc < len(code):
            op = cm.get_op(code, pc)
            if op is None:
                break
            opcode, _data, nxt = op
            if opcode == 0xAB:
                last = nxt
            pc = nxt
        return code[last:]

    # ----------------------------------------------------------- taproot
    def _control(self, leaf_hash: bytes, depth: int, internal: bytes):
        r = self.rng
        k, path = leaf_hash, b""
        for _ in range(depth):
            e = bytes(r.randrange(256) for _ in range(32))
            path += e
            k = tagged_hash(b"TapBranch", k + e) if k < e else tagged_hash(b"TapBranch", e + k)
        return k, path

    def tap_script_spend(self, script: bytes, items: list[bytes], leaf_version=0xC0, depth=0, annex=None,
                         flags=None, tag="tap:script", signers=(), note=None) -> Case:
        """Script-path spend of ``script`` under the NUMS internal key.

        ``signers``: list of (slot index in items, key index, kind) filled with BIP342 signatures once the tx exists.
        """
        r = self.rng
        lh = cm.tapleaf_hash(leaf_version, script)
        root, path = self._control(lh, depth, NUMS)
        qx, parity, _ = sg.taproot_tweak(NUMS, root)
        control = bytes([leaf_version | parity]) + NUMS + path
        spk = b"\x51\x20" + qx
        amount = r.choice([1000, 0, 21 * 10**14])
        if flags is None:
            flags = close_flags(self.flags() | (F["TAPROOT"] | F["WITNESS"] | F["P2SH"] if r.random() < 0.85 else 0))
        n_extra = r.choice([0, 0, 1, 2])
        case = self._case(tag, spk, b"", [], flags, amount, n_extra, r.choice([0, 1, 2]), note or {})
        tx, n_in = case.tx, case.n_in
        wit = list(items)
        for slot, kidx, kind in signers:
            wit[slot] = self.schnorr_sig(kind, kidx, tx, n_in, case.spent, annex, lh, tapscript=True)
        wit = wit + [script, control]
        if annex is not None:
            wit.append(annex)
        tx.vin[n_in].witness = wit
        return case

    def schnorr_sig(self, kind, kidx, tx, n_in, spent, annex, leaf_hash, tapscript, key_override=None, codesep=0xFFFFFFFF):
        r = self.rng
        if kind == "empty":
            return b""
        if kind == "garbage":
            return bytes(r.randrange(256) for _ in range(r.choice([1, 63, 64, 65, 66])))
        ht = r.choice([0, 0, 1, 2, 3, 0x81, 0x82, 0x83])
        if kind == "hashtype-undef":
            ht = r.choice([4, 0x80, 0x84, 0x10, 0xFF] + [h for h in range(4, 256) if not 0x81 <= h <= 0x83])
        ed = cm.ExecData(annex=annex, tapleaf_hash=leaf_hash or b"", codesep_pos=codesep)
        sigver = cm.TAPSCRIPT if tapscript else cm.TAPROOT
        msg = cm.taproot_sighash(tx, n_in, spent, ht if kind != "hashtype-undef" else 0, sigver, ed)
        if msg is None:  # SIGHASH_SINGLE without a matching output: sign an arbitrary digest, Core refuses anyway
            msg = bytes(32)
        if kind == "wrong-msg":
            msg = sha256(msg)
        d, px = key_override if key_override else self.spool.items[kidx % len(self.spool.items)]
        if kind == "wrong-key":
            d = (d + 1) % cm.N
        sig = self.spool.sign(d, px, msg, r.randrange(6))
        if kind == "explicit-default":
            return sig + b"\x00"
        if kind == "66-bytes":
            return sig + b"\x01\x01"
        if ht == 0 and kind != "hashtype-undef":
            return sig
        return sig + bytes([ht])

    def tap_sig_kind(self):
        return self.rng.choices(["valid", "wrong-key", "wrong-msg", "empty", "hashtype-undef", "explicit-default", "66-bytes", "garbage"],
                                [55, 7, 7, 10, 6, 6, 4, 5])[0]

    def tap_keypath(self) -> Case:
        r = self.rng
        kidx = r.randrange(6)
        d0, Q = self.pool.key(kidx)
        with_root = r.random() < 0.4
        root = sha256(bytes([kidx])) if with_root else None
        ck = (kidx, with_root)
        if ck not in self._tap_keypath:
            qx, parity, _ = sg.taproot_tweak(sg.pub_xonly(Q), root)
            dd = sg.taproot_tweak_seckey(d0, root)
            Qo = cm.lift_x(int.from_bytes(qx, "big"))
            if (Qo[1] & 1) != parity:
                Qo = (Qo[0], cm.P - Qo[1])
            if Qo[1] & 1:
                dd = cm.N - dd
            self._tap_keypath[ck] = (qx, dd)
        qx, dd = self._tap_keypath[ck]
        annex = None
        if r.random() < 0.25:
            annex = b"\x50" + bytes(r.randrange(256) for _ in range(r.choice([0, 1, 5, 80])))
        flags = close_flags(self.flags() | (F["TAPROOT"] | F["WITNESS"] | F["P2SH"] if r.random() < 0.85 else 0))
        amount = r.choice([1000, 0, 21 * 10**14])
        wrap = r.random()
        spk = b"\x51\x20" + qx
        case = self._case("tap:keypath", spk, b"", [], flags, amount, r.choice([0, 0, 1, 2]), r.choice([0, 1, 2]))
        tx, n_in = case.tx, case.n_in
        kind = self.tap_sig_kind()
        sig = self.schnorr_sig(kind, 0, tx, n_in, case.spent, annex, None, tapscript=False, key_override=(dd, qx))
        wit = [sig] + ([annex] if annex is not None else [])
        if wrap < 0.05:
            wit = []
        elif wrap < 0.08:
            tx.vin[n_in].script_sig = b"\x51"
        elif wrap < 0.12:  # p2sh-wrapped v1 program: not taproot
            case.spent[n_in] = cm.TxOut(amount, b"\xa9\x14" + ripemd160(sha256(spk)) + b"\x87")
            tx.vin[n_in].script_sig = push_data(spk)
        tx.vin[n_in].witness = wit
        case.note = {"sig": kind, "annex": annex is not None}
        return case

    def tap_scriptpath(self) -> Case:
        r = self.rng
        mode = r.choice(["checksig", "checksig", "checksigadd", "random", "success", "keytypes", "budget", "leafver",
                         "minimalif", "multisig-disabled", "control", "codesep"])
        lv = 0xC0
        depth = r.choice([0, 0, 1, 3, 7])
        annex = (b"\x50" + bytes(r.randrange(256) for _ in range(r.choice([0, 3])))) if r.random() < 0.2 else None
        xk = lambda j: self.spool.items[j % 6][1]  # noqa: E731
        note = {"mode": mode}
        if mode == "checksig":
            j = r.randrange(6)
            script = push_data(xk(j)) + r.choice([b"\xac", b"\xad\x51", b"\xac\x91"])
            return self.tap_script_spend(script, [b""], lv, depth, annex, tag="tap:checksig",
                                         signers=[(0, j, self.tap_sig_kind())], note=note)
        if mode == "codesep":
            j = r.randrange(6)
            script = r.choice([b"\xab", b"\x51\x75\xab", b"\x51\x63\xab\x68"]) + push_data(xk(j)) + b"\xac"
            case = self.tap_script_spend(script, [b""], lv, depth, annex, tag="tap:codesep", note=note)
            # sign with the right codeseparator position (opcode index of the last executed separator)
            pos = {0xAB: 0}.get(script[0], 2)
            lh = cm.tapleaf_hash(lv, script)
            kind = self.tap_sig_kind()
            case.tx.vin[case.n_in].witness[0] = self.schnorr_sig(kind, j, case.tx, case.n_in, case.spent, annex, lh, True,
                                                                 codesep=pos if r.random() < 0.85 else 0xFFFFFFFF)
            return case
        if mode == "checksigadd":
            n = r.choice([1, 2, 3, 5])
            ks = [r.randrange(6) for _ in range(n)]
            thr = r.randrange(0, n + 2)
            script = push_data(xk(ks[0])) + b"\xac" + b"".join(push_data(xk(k)) + b"\xba" for k in ks[1:]) + \
                push_data(num_encode(thr)) + r.choice([b"\x9c", b"\x87", b"\xa2"])
            signers = [(n - 1 - i, ks[i], self.tap_sig_kind() if r.random() < 0.3 else r.choice(["valid", "valid", "empty"]))
                       for i in range(n)]
            return self.tap_script_spend(script, [b""] * n, lv, depth, annex, tag="tap:checksigadd", signers=signers, note=note)
        if mode == "keytypes":
            j = r.randrange(6)
            key = r.choice([b"", b"\x01", xk(j)[:31], sg.pub_compressed(self.pool.key(j)[1]), xk(j) + b"\x00", bytes(32),
                            (cm.P + 1).to_bytes(32, "big"), (5).to_bytes(32, "big")])
            script = push_data(key) + r.choice([b"\xac", b"\xac\x91", b"\x00\x7c\xba\x51\x87" if False else b"\xac"])
            sig = r.choice([b"", b"\x01", bytes(64), bytes(65)])
            return self.tap_script_spend(script, [sig], lv, depth, annex, tag="tap:keytypes", note=note)
        if mode == "budget":
            # unknown 33-byte key type: every non-empty signature costs 50 of a budget of 50 + witness size
            n = r.randrange(1, 60)
            key = sg.pub_compressed(self.pool.key(0)[1])
            unit = push_data(key) + b"\xac\x75"
            form = r.randrange(3)
            if form == 0:
                script = unit * n + b"\x51"
                items = [b"\x01"] * n
            elif form == 1:  # sigs produced by DUP: witness stays small
                script = (b"\x76" + push_data(key) + b"\xac\x75") * n + b"\x75\x51"
                items = [b"\x01"]
            else:
                script = unit * n + b"\x51"
                items = [r.choice([b"\x01", b""]) for _ in range(n)]
            fl = close_flags(F["TAPROOT"] | F["WITNESS"] | F["P2SH"] | (self.flags() & ~F["DISCOURAGE_UPGRADABLE_PUBKEYTYPE"]))
            note["n"] = n
            depth = r.choice([0, 1])
            # aim the budget (50 + serialized witness size - 50 per non-empty signature) at -1, 0 or +1 with the annex length
            target = r.choice([-1, 0, 0, 1, None])
            if target is not None:
                charged = n if form != 2 else sum(1 for x in items if x)

                def wsize(annex_len):
                    els = [len(x) for x in items] + [len(script), 33 + 32 * depth] + ([annex_len] if annex_len else [])
                    cs = lambda v: 1 if v < 253 else 3 if v < 65536 else 5  # noqa: E731
                    return cs(len(els)) + sum(cs(e) + e for e in els)
                for L in [0] + list(range(1, 400)):
                    if 50 + wsize(L) - 50 * charged == target:
                        annex = (b"\x50" + bytes(L - 1)) if L else None
                        note["budget_end"] = target
                        break
            return self.tap_script_spend(script, items, lv, depth, annex, flags=fl, tag="tap:budget", note=note)
        if mode == "leafver":
            lv = r.choice([0xC2, 0x50, 0xFE, 0x00, 0xC4, 0x66])
            return self.tap_script_spend(self.script(r.randrange(1, 5), TAPOPS), self.items(r.randrange(0, 3)), lv, depth, annex,
                                         tag="tap:leafver", note=note)
        if mode == "minimalif":
            sel = r.choice([b"\x01", b"", b"\x02", b"\x01\x00", b"\x00", b"\x80", b"\x01\x01"])
            script = r.choice([b"\x63", b"\x64"]) + b"\x51\x67\x51\x68"
            return self.tap_script_spend(script, [sel], lv, depth, annex, tag="tap:minimalif", note=note)
        if mode == "multisig-disabled":
            script = b"\x00\x00\x00" + r.choice([b"\xae", b"\xaf\x51"]) if r.random() < 0.7 else b"\x00\x63\xae\x68\x51"
            return self.tap_script_spend(script, [], lv, depth, annex, tag="tap:multisig-disabled", note=note)
        if mode == "success":
            parts = []
            for _ in range(r.randrange(1, 5)):
                parts.append(r.choice([b"\xff", bytes([r.choice([80, 98, 126, 187, 254])]), b"\x00\x63\xff\x68", b"\x51", b"\x4c",
                                       b"\x4d\x05", self.push(), b"\x63", b"\x68", b"\x00\x63" + bytes([r.randrange(256)]) + b"\x68",
                                       bytes([r.choice(TAPOPS)]), push_data(b"x" * 521), b"\x00\x63" + push_data(b"y" * 521) + b"\x68"]))
            items = self.items(r.randrange(0, 3))
            if r.random() < 0.15:
                items.append(b"z" * r.choice([520, 521]))
            if r.random() < 0.05:
                items = [b"\x01"] * r.choice([999, 1000, 1001])
            return self.tap_script_spend(b"".join(parts), items, lv, 0, annex, tag="tap:success", note=note)
        if mode == "control":
            script = b"\x51"
            depth = r.choice([0, 1, 127, 128])
            case = self.tap_script_spend(script, [], lv, depth, annex, tag="tap:control", note=note)
            w = case.tx.vin[case.n_in].witness
            ci = -2 if annex is not None else -1
            c = w[ci]
            edit = r.randrange(7)
            if edit == 0:
                c = bytes([c[0] ^ 1]) + c[1:]            # wrong parity
            elif edit == 1:
                c = c[:-1]                               # length not 33 + 32k
            elif edit == 2:
                c = c + bytes(32) if depth == 128 else c + bytes(32)   # 129 levels / foreign level
            elif edit == 3 and len(c) > 33:
                c = c[:33] + bytes([c[33] ^ 1]) + c[34:]
            elif edit == 4:
                c = c[:1] + bytes([c[1] ^ 1]) + c[2:]    # other internal key
            elif edit == 5:
                c = c[:32]
            w[ci] = c
            note["edit"] = edit
            return case
        return self.tap_script_spend(self.script(r.randrange(1, 10), TAPOPS), self.items(r.randrange(0, 4)), lv, depth, annex,
                                     tag="tap:random", note=note)

    # ---------------------------------------------------- wrapped programs
    def wrapped_random(self) -> Case:
        """Random inner programs behind P2SH / P2WSH / P2SH-P2WSH, and witness program oddities."""
        r = self.rng
        mode = r.choice(["p2wsh", "p2sh", "p2sh-p2wsh", "p2sh-extra", "wit-unexpected", "native-ss", "future-version", "anchor",
                         "p2wpkh-odd", "v0-badlen"])
        inner = self.script(r.randrange(1, 10)) if r.random() < 0.7 else self.structured_script()
        items = self.items(r.randrange(0, 4))
        ss, wit = b"", []
        if mode == "p2wsh":
            spk = b"\x00\x20" + sha256(inner)
            wit = items + [inner]
            if r.random() < 0.1:
                wit = items
            if r.random() < 0.05:
                spk = b"\x00\x20" + sha256(inner + b"x")
            if r.random() < 0.08:
                wit = [bytes(r.choice([520, 521]))] + wit
        elif mode == "native-ss":
            spk = b"\x00\x20" + sha256(inner)
            wit = items + [inner]
            ss = self.push()
        elif mode == "p2sh":
            spk = b"\xa9\x14" + ripemd160(sha256(inner)) + b"\x87"
            ss = b"".join(push_data(i) for i in items) + push_data(inner)
            if r.random() < 0.1:
                ss = bytes([r.choice(SIMPLE)]) + ss
            if r.random() < 0.05:
                spk = spk[:-1] + b"\x88"
        elif mode in ("p2sh-p2wsh", "p2sh-extra"):
            redeem = b"\x00\x20" + sha256(inner)
            spk = b"\xa9\x14" + ripemd160(sha256(redeem)) + b"\x87"
            wit = items + [inner]
            ss = push_data(redeem)
            if mode == "p2sh-extra":
                ss = r.choice([self.push() + ss, bytes([76, len(redeem)]) + redeem, b"\x51" + ss, ss + b"\x00\x75"[:0] + b"",
                               b"\x00" + ss, bytes([77, len(redeem), 0]) + redeem])
        elif mode == "wit-unexpected":
            spk = inner
            ss = b"".join(push_data(i) for i in items)
            wit = self.items(r.randrange(0, 2))
        elif mode == "future-version":
            ver = r.choice([1, 2, 16])
            prog = bytes(r.randrange(256) for _ in range(r.choice([2, 20, 31, 32, 33, 40, 41])))
            spk = bytes([0x50 + ver, len(prog)]) + prog
            wit = items
            if r.random() < 0.3:
                redeem = spk
                spk = b"\xa9\x14" + ripemd160(sha256(redeem)) + b"\x87"
                ss = push_data(redeem)
        elif mode == "anchor":
            spk = r.choice([bytes([0x51, 0x02, 0x4E, 0x73]), bytes([0x51, 0x02, 0x4E, 0x74]), bytes([0x52, 0x02, 0x4E, 0x73])])
            wit = r.choice([[], [b"\x01"]])
        elif mode == "p2wpkh-odd":
            spk = b"\x00\x14" + bytes(20)
            wit = self.items(r.choice([0, 1, 2, 3]))
        else:
            n = r.choice([2, 19, 21, 31, 33, 40])
            spk = bytes([0, n]) + bytes(n)
            wit = items
        fl = self.flags()
        if r.random() < 0.7:
            fl = close_flags(fl | F["WITNESS"] | F["P2SH"])
        return self._case(f"wrapped:{mode}", spk, ss, wit, fl)
