"""Hostile-input generators for C19: structure-aware mutants of valid encodings.

Three engines, none of which knows a format:

* ``BinMut`` mutates an octet encoding along a *field map* -- the list of
  (offset, width) reads the parser itself performed on the encoding, recorded by
  ``RecStream`` -- setting every field to every boundary value of its width,
  replacing one-octet fields by every CompactSize spelling, truncating at and
  inside every field, extending, deleting, duplicating and swapping fields, and
  splicing two encodings.  Deeper mutants are mutants of mutants (the field map
  of an accepted or late-refused mutant is recorded again), up to depth 6.
* ``TextMut`` edits a valid text form (address, descriptor, mnemonic, URI, path,
  base64) with non-ASCII look-alikes, non-ASCII digits, lone surrogates, NULs,
  whitespace variants, digit strings beyond the interpreter's int/str limit, very
  long tokens and nesting to depth 10^4.
* ``JsonMut`` puts a value of every JSON type into every path of a JSON object,
  removes and adds keys.

Seeds (valid encodings) come from ``Seeds``: vendored vectors in /verif/vectors
and objects built with the library's constructors and serialized.  Using the
library to *produce* inputs does not touch the oracle, which is the class of the
exception, the stream position and termination.
"""

from __future__ import annotations

from decimal import Decimal

import io
import struct

# ----------------------------------------------------------------- recording


class RecStream(io.BytesIO):
    """A BytesIO that logs (offset, asked, got) of every read."""

    def __init__(self, data: bytes = b""):
        super().__init__(data)
        self.reads: list[tuple[int, int, int]] = []

    def read(self, n=-1):  # noqa: D102
        off = self.tell()
        b = super().read(n)
        self.reads.append((off, -1 if n is None or n < 0 else n, len(b)))
        return b

    def fieldmap(self) -> list[tuple[int, int]]:
        out = sorted({(o, g) for o, _a, g in self.reads if g > 0})
        return out

    def deep(self) -> bool:
        """Did the parser get past its first field (a second read was issued)?"""
        return len(self.reads) >= 2


def compact(n: int) -> bytes:
    if n < 0xFD:
        return bytes([n])
    if n <= 0xFFFF:
        return b"\xfd" + struct.pack("<H", n)
    if n <= 0xFFFFFFFF:
        return b"\xfe" + struct.pack("<I", n)
    return b"\xff" + struct.pack("<Q", n)


# every CompactSize spelling worth a field: minimal and non-minimal, the width switches, the library's
# MAX_SIZE (2^25) boundary, 2^31, 2^32, 2^63, 2^64-1
COMPACT_FORMS = [
    b"\x00", b"\x01", b"\x02", b"\x7f", b"\x80", b"\xfc",
    b"\xfd\x00\x00", b"\xfd\x01\x00", b"\xfd\xfc\x00", b"\xfd\xfd\x00", b"\xfd\xff\xff", b"\xfd\x00\x80",
    b"\xfe\x00\x00\x00\x00", b"\xfe\xff\xff\x00\x00", b"\xfe\x00\x00\x01\x00", b"\xfe\x00\x00\x00\x02",
    b"\xfe\x01\x00\x00\x02", b"\xfe\xff\xff\xff\x01", b"\xfe\xff\xff\xff\x7f", b"\xfe\x00\x00\x00\x80", b"\xfe\xff\xff\xff\xff",
    b"\xff" + bytes(8), b"\xff\xff\xff\xff\xff\x00\x00\x00\x00", b"\xff\x00\x00\x00\x00\x01\x00\x00\x00",
    b"\xff\x00\x00\x00\x02\x00\x00\x00\x00", b"\xff" + b"\xff" * 7 + b"\x7f", b"\xff" + bytes(7) + b"\x80", b"\xff" * 9,
    b"\xfd", b"\xfe", b"\xff", b"\xfd\x00", b"\xfe\x00\x00", b"\xff\x00\x00\x00\x00",
]
BYTE_VALUES = [0, 1, 2, 3, 0x10, 0x20, 0x21, 0x40, 0x41, 0x4B, 0x4C, 0x4D, 0x4E, 0x4F, 0x50, 0x51, 0x60, 0x61, 0x6A, 0x7F, 0x80,
               0x81, 0xAB, 0xAC, 0xAE, 0xBA, 0xC0, 0xC1, 0xFB, 0xFC, 0xFD, 0xFE, 0xFF]


def int_values(width: int, orig: bytes) -> list[bytes]:
    """Boundary spellings of a fixed-width integer field, both byte orders."""
    bits = 8 * width
    top = (1 << bits) - 1
    vals = {0, 1, 2, top, top - 1, 1 << (bits - 1), (1 << (bits - 1)) - 1, (1 << (bits - 1)) + 1, 0xFD, 0xFF, 0x100}
    if bits >= 32:
        vals |= {0x7FFFFFFF, 0x80000000, 0xFFFFFFFF, 500000000, 499999999, 0xFFFFFFFE, 1 << 22, 1 << 31 | 1 << 22}
    if bits >= 64:
        vals |= {1 << 32, 21 * 10**14, 21 * 10**14 + 1, (1 << 63) - 1, 1 << 63, 1 << 62}
    o = int.from_bytes(orig, "little")
    vals |= {(o + 1) & top, (o - 1) & top, o ^ (1 << (bits - 1)), (o << 1) & top, o >> 1}
    out = []
    for v in sorted(vals):
        v &= top
        out.append(v.to_bytes(width, "little"))
        if width > 1 and v not in (0, top):
            out.append(v.to_bytes(width, "big"))
    return out


class BinMut:
    def __init__(self, rng):
        self.rng = rng

    # ------------------------------------------------------ systematic
    def field_mutants(self, data: bytes, off: int, w: int):
        """All boundary values of one field: (mutant, label)."""
        head, old, tail = data[:off], data[off:off + w], data[off + w:]
        if w == 1:
            for v in BYTE_VALUES:
                if v != old[0]:
                    yield head + bytes([v]) + tail, "byte"
            for c in COMPACT_FORMS:
                if len(c) > 1:
                    yield head + c + tail, "compact"
            yield head + bytes([(old[0] + 1) & 0xFF]) + tail, "byte+1"
            yield head + bytes([(old[0] - 1) & 0xFF]) + tail, "byte-1"
        elif w in (2, 4, 8):
            for v in int_values(w, old):
                if v != old:
                    yield head + v + tail, f"int{w}"
            if w in (2, 4, 8):  # the tail of a multi-octet CompactSize: pair it with its marker too
                pass
        elif w in (3, 5, 9):
            for c in COMPACT_FORMS:
                if c != old:
                    yield head + c + tail, "compact"
        else:
            yield head + bytes(w) + tail, "zero-fill"
            yield head + b"\xff" * w + tail, "ff-fill"
            yield head + old[:-1] + bytes([old[-1] ^ 1]) + tail, "lsb-flip"
            yield head + bytes([old[0] ^ 0x80]) + old[1:] + tail, "msb-flip"
            yield head + old[::-1] + tail, "reversed"
            yield head + old[:-1] + tail, "shrunk"
            yield head + old + old[-1:] + tail, "grown"
            yield head + old[: w // 2] + tail, "halved"
        yield head + tail, "deleted"
        yield head + old + old + tail, "duplicated"

    def systematic(self, data: bytes, fmap: list[tuple[int, int]], cap: int | None = None):
        """Depth-1 mutants over the whole field map (sampled down to ``cap``)."""
        out = []
        for off, w in fmap:
            for m, lab in self.field_mutants(data, off, w):
                out.append((m, lab, off))
            out.append((data[:off], "truncate@field", off))
            if w > 1:
                out.append((data[:off + self.rng.randrange(1, w)], "truncate-in-field", off))
        for k in (1, 2, 3, 4, 8, 9, 33):
            out.append((data + bytes(self.rng.randrange(256) for _ in range(k)), "extended", len(data)))
        out.append((data + data, "doubled", len(data)))
        if len(data) > 1:
            out.append((data[:-1], "truncate-last", len(data) - 1))
        if cap is not None and len(out) > cap:
            out = self.rng.sample(out, cap)
        return out

    # ---------------------------------------------------------- random
    def one(self, data: bytes, fmap: list[tuple[int, int]], other: bytes | None = None) -> tuple[bytes, str, int]:
        r = self.rng
        if not data:
            return bytes(r.randrange(256) for _ in range(r.randrange(1, 9))), "from-empty", 0
        k = r.random()
        if fmap and k < 0.62:
            off, w = r.choice(fmap)
            muts = list(self.field_mutants(data, off, w))
            m, lab = r.choice(muts)
            return m, lab, off
        if fmap and k < 0.70:
            off, _w = r.choice(fmap)
            return data[:off], "truncate@field", off
        if fmap and k < 0.78 and len(fmap) > 1:  # duplicate / delete / swap a run of fields (a record)
            i = r.randrange(len(fmap))
            j = min(len(fmap) - 1, i + r.randrange(1, 6))
            a, b = fmap[i][0], fmap[j][0] + fmap[j][1]
            kind = r.randrange(3)
            if kind == 0:
                return data[:a] + data[a:b] * r.choice([2, 3]) + data[b:], "record-duplicated", a
            if kind == 1:
                return data[:a] + data[b:], "record-deleted", a
            c = min(len(data), b + (b - a))
            return data[:a] + data[b:c] + data[a:b] + data[c:], "record-swapped", a
        if other and k < 0.84:
            a = r.randrange(len(data) + 1)
            b = r.randrange(len(other) + 1)
            if fmap and r.random() < 0.7:
                a = r.choice(fmap)[0]
            return data[:a] + other[b:], "spliced", a
        if k < 0.90:
            i = r.randrange(len(data))
            return data[:i] + bytes([data[i] ^ (1 << r.randrange(8))]) + data[i + 1:], "bitflip", i
        if k < 0.94:
            i = r.randrange(len(data) + 1)
            ins = r.choice(COMPACT_FORMS + [bytes(r.randrange(256) for _ in range(r.randrange(1, 6)))])
            return data[:i] + ins + data[i:], "inserted", i
        if k < 0.97:
            i = r.randrange(len(data))
            return data[:i], "truncate", i
        return data + bytes(r.randrange(256) for _ in range(r.randrange(1, 40))), "extended", len(data)

    def multi(self, data: bytes, fmap: list[tuple[int, int]], depth: int, other: bytes | None = None) -> tuple[bytes, str, int]:
        """``depth`` field edits at once, applied from the highest offset down so that the map stays valid."""
        if depth <= 1 or not fmap:
            return self.one(data, fmap, other)
        r = self.rng
        picks = sorted({r.randrange(len(fmap)) for _ in range(depth)}, reverse=True)
        labs = []
        first = len(data)
        for i in picks:
            off, w = fmap[i]
            if off + w > len(data):
                continue
            m, lab = r.choice(list(self.field_mutants(data, off, w)))
            data = m
            labs.append(lab)
            first = min(first, off)
        return data, "+".join(labs[:3]) or "noop", first

    def uniform(self, maxlen: int = 96) -> bytes:
        r = self.rng
        return bytes(r.randrange(256) for _ in range(r.randrange(0, maxlen)))


# ---------------------------------------------------------------------- text
HOSTILE_CHARS = [
    "\x00", "\x01", "\x1f", "\x7f", "\x80", "\xa0", "\xad", "\xe9", "\xdf", "\u0130", "\u0131", "\u017f", "\u212a",  # case-fold traps
    "\u0660", "\u0661", "\u0669", "\u06f1", "\u0967", "\uff10", "\uff11", "\uff21", "\uff41", "\xb2", "\xb9", "\u2460", "\u2075", "\xbd",
    "\u200b", "\u200d", "\u200e", "\u202e", "\u2028", "\u2029", "\u3000", "\ufeff", "\u0301", "\u3099",
    "\ud800", "\udfff", "\udc80", "\U0001f600", "\U0010ffff", "\ufffd", "\uffff",
    "\t", "\n", "\r", "\x0b", "\x0c", " ", "  ", "\x85", "\u1680", "\u2003",
    "'", "\"", "`", "h", "H", "*", "/", "//", "\\", "#", "##", "@", "[", "]", "(", ")", "{", "}", "<", ">", ";", ",", ",,", ":", "::",
    "=", "==", "&", "&&", "?", "??", "%", "%%", "%0", "%zz", "%00", "%c3", "%c3%28", "%ff", "+", "-", "_", ".", "..", "|", "~", "^", "$", "!",
    "0", "1", "9", "00", "-0", "-1", "+1", "1_0", "1e3", "0x1", "0b1", "0o1", "1.0", "1.", ".5", "\u0ce7",
]
NUMBER_TOKENS = [
    "0", "1", "-1", "+1", "00", "01", "007", "2147483647", "2147483648", "4294967295", "4294967296", "9223372036854775807",
    "9223372036854775808", "18446744073709551615", "18446744073709551616", "1e9", "1E9", "0x10", "1_000", " 1", "1 ", "\u0661", "\uff11",
    "\xb2", "1.5", "1.0", "-0", "NaN", "inf", "Infinity", "2" * 100, "9" * 4300, "9" * 4301, "9" * 5000, "1" + "0" * 10000,
    "16777215", "16777216", "65535", "65536", "499999999", "500000000", "20999999.99999999", "21000000", "21000000.00000001",
    "0.000000001", "1e-8", "1e-9", "1E+3", "0.00000001", "-0.00000001", ".1", "1.", "\u0660.\u0661",
]


class TextMut:
    def __init__(self, rng):
        self.rng = rng

    def systematic(self, s: str, cap: int | None = None, tokens: list[str] | None = None):
        """Edits at every position class of ``s``: (mutant, label, first edited offset)."""
        r = self.rng
        out = []
        n = len(s)
        pos = sorted(set([0, 1, 2, n // 2, max(0, n - 2), max(0, n - 1), n] + [i for i, c in enumerate(s) if not c.isalnum()]
                         + [i + 1 for i, c in enumerate(s) if not c.isalnum()] + [r.randrange(n + 1) for _ in range(12)]))
        pos = [p for p in pos if 0 <= p <= n]
        for p in pos:
            for c in r.sample(HOSTILE_CHARS, 10):
                out.append((s[:p] + c + s[p:], "insert", p))
                if p < n:
                    out.append((s[:p] + c + s[p + 1:], "replace", p))
            if p < n:
                out.append((s[:p] + s[p + 1:], "delete", p))
                out.append((s[:p] + s[p].swapcase() + s[p + 1:], "swapcase", p))
                out.append((s[:p], "truncate", p))
        # numeric tokens in place of every digit run
        import re

        for m in list(re.finditer(r"\d+", s))[:40]:
            for t in r.sample(NUMBER_TOKENS, 12) + [str(int(m.group()) + 1), str(int(m.group()) - 1)]:
                out.append((s[:m.start()] + t + s[m.end():], "number", m.start()))
        for t in (tokens or []):
            p = r.choice(pos)
            out.append((s[:p] + t + s[p:], "token", p))
        out += [(s.upper(), "upper", 0), (s.lower(), "lower", 0), (s.title(), "title", 0), (s + s, "doubled", n), (s[::-1], "reversed", 0),
                (" " + s, "lead-space", 0), (s + " ", "trail-space", n), (s + "\n", "trail-nl", n), (s + "\x00", "trail-nul", n),
                ("\ufeff" + s, "bom", 0), (s + "\ud800", "trail-surrogate", n), (s.replace("a", "\u0430"), "cyrillic-a", 0),
                (s * 50, "x50", n), (s + "A" * 100000, "long-tail", n), ("", "empty", 0)]
        import unicodedata

        out.append((unicodedata.normalize("NFKD", s), "nfkd", 0))
        out.append(("".join(chr(ord(c) + 0xFEE0) if "!" <= c <= "~" else c for c in s), "fullwidth", 0))
        if cap is not None and len(out) > cap:
            out = r.sample(out, cap)
        return out

    def one(self, s: str, other: str | None = None, tokens: list[str] | None = None) -> tuple[str, str, int]:
        r = self.rng
        n = len(s)
        if n == 0:
            return r.choice(HOSTILE_CHARS), "from-empty", 0
        k = r.random()
        p = r.randrange(n + 1)
        if k < 0.25:
            return s[:p] + r.choice(HOSTILE_CHARS) + s[p:], "insert", p
        if k < 0.45 and p < n:
            return s[:p] + r.choice(HOSTILE_CHARS) + s[p + 1:], "replace", p
        if k < 0.55 and p < n:
            q = min(n, p + r.randrange(1, 6))
            return s[:p] + s[q:], "delete", p
        if k < 0.65:
            import re

            ms = list(re.finditer(r"\d+", s))
            if ms:
                m = r.choice(ms)
                return s[:m.start()] + r.choice(NUMBER_TOKENS) + s[m.end():], "number", m.start()
        if k < 0.72 and tokens:
            return s[:p] + r.choice(tokens) + s[p:], "token", p
        if k < 0.80 and other:
            q = r.randrange(len(other) + 1)
            return s[:p] + other[q:], "spliced", p
        if k < 0.86 and p < n:
            q = min(n, p + r.randrange(1, 12))
            return s[:p] + s[p:q] * r.choice([2, 3, 200, 5000]) + s[q:], "repeat", p
        if k < 0.92 and p < n:
            return s[:p] + s[p].swapcase() + s[p + 1:], "swapcase", p
        if k < 0.96:
            return s[:p], "truncate", p
        q = r.randrange(n + 1)
        a, b = min(p, q), max(p, q)
        return s[:a] + s[a:b][::-1] + s[b:], "reverse-run", a

    def multi(self, s: str, depth: int, other: str | None = None, tokens: list[str] | None = None) -> tuple[str, str, int]:
        labs, first = [], len(s)
        for _ in range(max(1, depth)):
            s, lab, p = self.one(s, other, tokens)
            labs.append(lab)
            first = min(first, p)
            if len(s) > 300000:
                break
        return s, "+".join(labs[:3]), first

    def uniform(self, maxlen: int = 64) -> str:
        r = self.rng
        alph = r.choice(["abcdefghijklmnopqrstuvwxyz0123456789", "0123456789abcdefABCDEF", "".join(HOSTILE_CHARS),
                         "qpzry9x8gf2tvdw0s3jn54khce6mua7l1", "()[]{},/'*#@:<>=h0123456789abcdefpkwshtr_"])
        return "".join(r.choice(alph) for _ in range(r.randrange(0, maxlen)))


# ---------------------------------------------------------------------- JSON
def json_values():
    """A value of every JSON type, at the boundaries of each."""
    deep: list = []
    cur = deep
    for _ in range(400):
        nxt: list = []
        cur.append(nxt)
        cur = nxt
    deepd: dict = {}
    curd = deepd
    for _ in range(400):
        nd: dict = {}
        curd["a"] = nd
        curd = nd
    return [
        None, True, False, 0, 1, -1, 2, 255, 256, 65535, 65536, 2**31 - 1, 2**31, 2**32 - 1, 2**32, 2**53, 2**63 - 1, 2**63, 2**64 - 1, 2**64,
        -2**31, -2**63, -2**64, 10**30, 10**400, 21 * 10**14, 21 * 10**14 + 1,
        0.0, -0.0, 1.0, 1.5, -1.5, 0.1, 1e-9, 1e15, 1e16, 1e22, 1e308, float("inf"), float("-inf"), float("nan"), 4294967296.0, 2.0**64,
        "", " ", "0", "00", "0x00", "zz", "abc", "ab", "AB", "aB", "00" * 32, "00" * 33, "ff" * 31, "00" * 20, "0" * 63, "\x00", "\xe9", "\ud800",
        "\uff10\uff10", "\u0661\u0662", "1", "-1", "1.5", "true", "null", "[]", "{}", "a" * 100000, "00" * 100000, "mainnet", "testnet", "main",
        "1970-01-01T00:00:00+00:00", "2009-01-03 18:15:05+00:00", "9999-12-31T23:59:59", "0000-00-00", "m/0", "m/0h/1'", "/",
        # instants at the two ends of the calendar, where a UTC offset steps over them
        "0001-01-01T00:00:00+10:00", "0001-01-01T00:00:00-10:00", "9999-12-31T23:59:59-10:00", "9999-12-31T23:59:59+10:00", "0001-01-01T00:00:00+00:00",
        "2106-02-07T06:28:16+00:00", "1969-12-31T23:59:59+00:00", "2009-01-03T18:15:05+23:59", "2009-01-03T18:15:05.999999+00:00",
        # what a json loader hands over with parse_float / parse_int / parse_constant = Decimal (a *signalling* NaN is not
        # among them: no JSON text decodes to one, and every comparison with it raises by design)
        Decimal("Infinity"), Decimal("-Infinity"), Decimal("NaN"), Decimal("1"), Decimal("1.5"), Decimal("1E+400"), Decimal("-0"),
        Decimal("0.00000001"), Decimal("21000000"),
        [], [[]], [None], [0], [1, 2, 3], [""], ["00"], ["zz"], [[], []], [{}], [True], [1.5], [0] * 1000, ["00"] * 300, deep,
        {}, {"a": 1}, {"": ""}, {"00": "00"}, {"a": None}, {"a": []}, {"a": {}}, {"zz": "zz"}, {"0": 0}, deepd,
    ]


class JsonMut:
    def __init__(self, rng):
        self.rng = rng
        self.values = json_values()

    @staticmethod
    def paths(obj, prefix=()):
        """Every path (tuple of keys / indexes) of a JSON value, containers included."""
        out = [prefix] if prefix else []
        if isinstance(obj, dict):
            for k, v in obj.items():
                out += JsonMut.paths(v, prefix + (k,))
        elif isinstance(obj, list):
            for i, v in enumerate(obj[:6]):
                out += JsonMut.paths(v, prefix + (i,))
        return out

    @staticmethod
    def _copy(obj):
        if isinstance(obj, dict):
            return {k: JsonMut._copy(v) for k, v in obj.items()}
        if isinstance(obj, list):
            return [JsonMut._copy(v) for v in obj]
        return obj

    @staticmethod
    def get(obj, path):
        for k in path:
            obj = obj[k]
        return obj

    def set(self, obj, path, value):
        o = self._copy(obj)
        cur = o
        for k in path[:-1]:
            cur = cur[k]
        cur[path[-1]] = value
        return o

    def delete(self, obj, path):
        o = self._copy(obj)
        cur = o
        for k in path[:-1]:
            cur = cur[k]
        del cur[path[-1]]
        return o

    def at_path(self, obj, path, n_values: int | None = None):
        """(mutant, label) for one path: JSON values of every type (all, or a sample of ``n_values``), removal, type-aware edits."""
        r = self.rng
        vals = self.values if n_values is None else r.sample(self.values, min(n_values, len(self.values)))
        for v in vals:
            yield self.set(obj, path, v), f"set:{type(v).__name__}"
        yield self.delete(obj, path), "delete-key"
        old = self.get(obj, path)
        if isinstance(old, str):
            for v in (old + "0", old[:-1], old.upper(), old + "\x00", " " + old, old + old, old[::-1], "0x" + old, old + "zz",
                      old.replace("0", "\uff10"), old[: len(old) // 2]):
                yield self.set(obj, path, v), "str-edit"
        if isinstance(old, int) and not isinstance(old, bool):
            for v in (old + 1, old - 1, -old, float(old), str(old), old * 2**32, [old], float(old) + 0.5):
                yield self.set(obj, path, v), "int-edit"
        if isinstance(old, list):
            yield self.set(obj, path, old + old), "list-doubled"
            yield self.set(obj, path, old[:-1]), "list-shortened"
            yield self.set(obj, path, old + [None]), "list+null"
            yield self.set(obj, path, old * 300), "list-x300"
        if isinstance(old, dict):
            yield self.set(obj, path, {**old, "unknown-key": 0}), "unknown-key"
            yield self.set(obj, path, {**old, "": None}), "empty-key"

    def systematic(self, obj, cap_per_path: int | None = None):
        """(mutant, label, path) for every path x every JSON value, plus key removal / unknown keys."""
        for path in self.paths(obj):
            for m, lab in self.at_path(obj, path, cap_per_path):
                yield m, lab, path
        if isinstance(obj, dict):
            yield {**obj, "unknown-key": 1}, "unknown-key", ()
            yield {}, "empty-object", ()

    def one(self, obj):
        r = self.rng
        paths = self.paths(obj)
        if not paths:
            return r.choice(self.values), "toplevel", ()
        path = r.choice(paths)
        if r.random() < 0.1:
            return self.delete(obj, path), "delete-key", path
        return self.set(obj, path, r.choice(self.values)), "set", path

    def multi(self, obj, depth: int):
        lab, first = [], ()
        for i in range(max(1, depth)):
            try:
                obj, l, p = self.one(obj)
            except (KeyError, IndexError, TypeError):
                break
            lab.append(l)
            first = first or p
        return obj, "+".join(lab[:3]), first


# --------------------------------------------------------------------- seeds
import json as _json
import os as _os

VEC = _os.path.join(_os.path.dirname(_os.path.dirname(_os.path.dirname(_os.path.abspath(__file__)))), "vectors")


def _vec(name):
    with open(_os.path.join(VEC, name), encoding="utf-8") as f:
        return _json.load(f)


class Seeds:
    """Valid inputs per entry point.  ``get(key)`` -> list (bytes / str / JSON value / argument tuple).

    Built lazily from vendored vectors and from objects made with the library's constructors; a seed that the
    entry point does not accept is dropped by the caller (and counted), never judged.
    """

    def __init__(self, rng):
        self.rng = rng
        self._c: dict = {}

    def get(self, key: str) -> list:
        if key not in self._c:
            try:
                self._c[key] = list(getattr(self, "s_" + key)())
            except AttributeError:
                raise
        return self._c[key]

    def rb(self, n):
        return bytes(self.rng.randrange(256) for _ in range(n))

    # ------------------------------------------------------------ basics
    def s_var_int(self):
        return [compact(n) for n in (0, 1, 0xFC, 0xFD, 0xFFFF, 0x10000, 0x1FFFFFF, 0x2000000, 0xFFFFFFFF, 0x100000000, 2**64 - 1)]

    def s_var_bytes(self):
        return [compact(n) + self.rb(n) for n in (0, 1, 75, 76, 252, 253, 520, 70000)]

    def s_script(self):
        out = [bytes.fromhex(x) for x in (
            "76a914" + "11" * 20 + "88ac", "a914" + "22" * 20 + "87", "0014" + "33" * 20, "0020" + "44" * 32, "5120" + "55" * 32,
            "6a0b68656c6c6f20776f726c64", "51", "00", "4c0100", "4d0100ff", "4e01000000ee", "4f", "5152935387", "63516751686a",
            "5221" + "02" + "66" * 32 + "21" + "03" + "77" * 32 + "52ae", "20" + "88" * 32 + "ac", "20" + "88" * 32 + "ba5187", "b1b2b3b0", "ab",
        )]
        for x in _vec("script_tests.json")[:400]:
            if len(x) >= 4 and isinstance(x[0], str):
                pass
        return out

    def txs(self):
        if "_txs" not in self._c:
            raw = []
            for x in _vec("tx_valid.json"):
                if len(x) == 3 and isinstance(x[1], str):
                    raw.append(bytes.fromhex(x[1]))
            raw.sort(key=len)
            self._c["_txs"] = raw
        return self._c["_txs"]

    def s_tx(self):
        t = self.txs()
        seg = [x for x in t if x[4:6] == b"\x00\x01"]
        leg = [x for x in t if x[4:6] != b"\x00\x01"]
        return leg[:6] + seg[:6] + leg[40:44] + seg[10:12]

    def tx_objs(self):
        from btclib.tx import Tx

        out = []
        for b in self.s_tx():
            try:
                out.append(Tx.parse(b))
            except Exception:  # noqa: BLE001 - a vector the library refuses is simply not a seed
                pass
        return out

    def s_tx_in(self):
        return [i.serialize() for t in self.tx_objs()[:8] for i in t.vin[:2]]

    def s_tx_out(self):
        return [o.serialize() for t in self.tx_objs()[:8] for o in t.vout[:2]]

    def s_out_point(self):
        return [i.prev_out.serialize() for t in self.tx_objs()[:5] for i in t.vin[:1]] + [bytes(32) + b"\xff" * 4]

    def s_witness(self):
        out = [i.script_witness.serialize() for t in self.tx_objs() for i in t.vin[:2] if i.script_witness.stack]
        return out[:8] + [b"\x00", b"\x01\x00", b"\x02\x01\xaa\x00"]

    def blocks(self):
        if "_blocks" not in self._c:
            out = []
            for name in ("block_1.bin", "block_170.bin"):
                p = _os.path.join(VEC, name)
                if _os.path.exists(p):
                    out.append(open(p, "rb").read())
            for x in _vec("checkblock_valid.json"):
                if len(x) >= 5 and isinstance(x[4], str) and len(x[4]) > 160:
                    try:
                        out.append(bytes.fromhex(x[4]))
                    except ValueError:
                        pass
            self._c["_blocks"] = out
        return self._c["_blocks"]

    def s_block(self):
        return [b for b in self.blocks() if len(b) > 80 and len(b) < 20000][:8]

    def s_block_header(self):
        return [b[:80] for b in self.blocks()][:8]

    def psbts(self):
        if "_psbts" not in self._c:
            import base64

            out = []
            for f in ("bip174_test_vectors.json", "bip370_test_vectors.json", "bip371_test_vectors.json", "bip373_test_vectors.json"):
                d = _vec(f)
                for k in ("valid psbts", "lock time psbts"):
                    for x in d.get(k, []):
                        e = x.get("encoded psbt") or x.get("psbt")
                        if e:
                            out.append(e)
            for x in _vec("bip375_test_vectors.json").get("valid", [])[:6]:
                if x.get("psbt"):
                    out.append(x["psbt"])
            b = []
            for e in out:
                try:
                    b.append((e, base64.b64decode(e)))
                except Exception:  # noqa: BLE001
                    pass
            self._c["_psbts"] = b
        return self._c["_psbts"]

    def s_psbt(self):
        ps = sorted(self.psbts(), key=lambda x: len(x[1]))
        pick = ps[:6] + ps[len(ps) // 2: len(ps) // 2 + 6] + ps[-4:]
        return [b for _e, b in pick]

    def s_psbt_b64(self):
        ps = sorted(self.psbts(), key=lambda x: len(x[1]))
        return [e for e, _b in ps[:5] + ps[len(ps) // 2: len(ps) // 2 + 4] + ps[-2:]]

    def psbt_objs(self):
        from btclib.psbt.psbt import Psbt

        if "_psbt_objs" not in self._c:
            out = []
            for _e, b in self.psbts():
                try:
                    out.append(Psbt.parse(b))
                except Exception:  # noqa: BLE001
                    pass
            self._c["_psbt_objs"] = out
        return self._c["_psbt_objs"]

    def s_psbt_in(self):
        """(bytes, psbt_version) pairs."""
        out = []
        for p in self.psbt_objs():
            for i in p.inputs[:2]:
                try:
                    out.append((i.serialize(), p.version))
                except Exception:  # noqa: BLE001
                    pass
        out.sort(key=lambda x: len(x[0]))
        return out[:4] + out[len(out) // 2: len(out) // 2 + 6] + out[-6:]

    def s_psbt_out(self):
        out = []
        for p in self.psbt_objs():
            for o in p.outputs[:2]:
                try:
                    out.append((o.serialize(), p.version))
                except Exception:  # noqa: BLE001
                    pass
        out.sort(key=lambda x: len(x[0]))
        return out[:3] + out[len(out) // 2: len(out) // 2 + 5] + out[-6:]

    def s_psbt_map(self):
        return [b for b, _v in self.s_psbt_in()[:6]] + [b for b, _v in self.s_psbt_out()[:4]] + [b"\x00", b"\x01\xfc\x00\x00"]

    def s_leaf_script(self):
        return [b"\x51\xc0", b"\x20" + self.rb(32) + b"\xac\xc0", b"\xc0"]

    def s_taproot_tree(self):
        from btclib import var_bytes

        a = b"\x01\xc0" + var_bytes.serialize(b"\x51")
        b = b"\x01\xc0" + var_bytes.serialize(b"\x20" + self.rb(32) + b"\xac")
        return [a + b, b"\x00\xc0\x01\x51", b"\x02\xc0\x01\x51\x02\xc2\x02\x51\x51\x01\xc0\x00"]

    def s_taproot_bip32(self):
        return [b"\x00" + self.rb(4), b"\x01" + self.rb(32) + self.rb(4) + b"\x56\x00\x00\x80" + b"\x00\x00\x00\x80",
                b"\x02" + self.rb(64) + self.rb(4) + b"\x01\x00\x00\x00"]

    def s_musig2_keys(self):
        from btclib.to_pub_key import pub_keyinfo_from_prv_key

        k = [pub_keyinfo_from_prv_key(i)[0] for i in (1, 2, 3)]
        return [k[0], k[0] + k[1], k[0] + k[1] + k[2]]

    # ------------------------------------------------------------- keys, sigs
    def s_xkey_b58(self):
        out = []
        for _seed, rows in _vec("bip32_test_vectors.json").items():
            for row in rows[:3]:
                out += [row[1], row[2]]
        return out[:14]

    def s_xkey_bin(self):
        from btclib import base58

        return [base58.decode(x, 78) for x in self.s_xkey_b58()[:8]]

    def s_key_origin_bin(self):
        return [self.rb(4), self.rb(4) + b"\x54\x00\x00\x80\x00\x00\x00\x80\x00\x00\x00\x80", self.rb(4) + b"\x01\x00\x00\x00" * 255,
                self.rb(4) + b"\xff\xff\xff\xff\xff\xff\xff\x7f"]

    def keys(self):
        from btclib.to_pub_key import pub_keyinfo_from_prv_key

        return [(q, pub_keyinfo_from_prv_key(q)[0], pub_keyinfo_from_prv_key(q, compressed=False)[0]) for q in (1, 2, 12, 2**255 - 19, 0xDEADBEEF)]

    def s_dsa_sig(self):
        from btclib.ecc import dsa

        out = [dsa.sign(b"msg%d" % i, q).serialize() for i, (q, _c, _u) in enumerate(self.keys())]
        out += [bytes.fromhex("3006020101020101"), bytes.fromhex("3008020200ff020200ff")]
        return out

    def s_ssa_sig(self):
        from btclib.ecc import ssa

        return [ssa.sign(b"msg%d" % i, q).serialize() for i, (q, _c, _u) in enumerate(self.keys())]

    def s_bms_sig(self):
        from btclib.ecc import bms

        return [bms.sign(b"msg%d" % i, q).serialize() for i, (q, _c, _u) in enumerate(self.keys()[:4])]

    def s_bms_b64(self):
        return [x["signature"] for x in _vec("signmessage.json")[:10]]

    def s_sec_point(self):
        out = []
        for _q, c, u in self.keys():
            out += [c, u, bytes([6 + (u[-1] & 1)]) + u[1:]]
        return out

    def s_ellswift(self):
        return [self.rb(64) for _ in range(4)] + [bytes(64), b"\xff" * 64]

    def s_borromean(self):
        from btclib.ecc import borromean
        from btclib.to_pub_key import point_from_key

        out = []
        for rings_sizes in ((1,), (2, 3), (3, 1, 2)):
            rings, keys, idx = [], [], []
            q = 5
            for n in rings_sizes:
                ring = []
                for j in range(n):
                    q += 1
                    ring.append(point_from_key(q))
                rings.append(ring)
                keys.append(q)
                idx.append(n - 1)
            try:
                sig = borromean.sign(b"borromean", list(range(1, len(rings_sizes) + 1)), idx, keys, rings)
                out.append((sig.serialize(), tuple(rings_sizes), rings))
            except Exception:  # noqa: BLE001
                pass
        return out

    def s_ecies(self):
        from btclib.ecc import ecies

        out = []
        for i, (_q, c, _u) in enumerate(self.keys()[:3]):
            out.append(ecies.Envelope(b"BIE1", c, self.rb(16 * (i + 1)), self.rb(32)).serialize())
        return out

    def s_ecies_b64(self):
        import base64

        return [base64.b64encode(b).decode() for b in self.s_ecies()]

    def s_block_filter(self):
        out = []
        for row in _vec("blockfilters.json")[1:]:
            out.append((bytes.fromhex(row[5]), bytes.fromhex(row[1])[::-1]))
        return out

    def s_decode_num(self):
        return [b"", b"\x01", b"\x81", b"\x80", b"\x00\x80", b"\xff\xff\xff\x7f", b"\xff\xff\xff\xff", b"\x00\x00\x00\x80\x00", b"\x00"]

    def s_bits(self):
        return [bytes.fromhex(x) for x in ("1d00ffff", "207fffff", "1b0404cb", "03123456", "01003456", "04923456", "ff123456", "00000000", "01800000")]

    # -------------------------------------------------------------------- p2p
    def p2p(self):
        if "_p2p" in self._c:
            return self._c["_p2p"]
        from btclib.block.block import Block
        from btclib.block.block_header import BlockHeader
        from btclib.p2p import address as A
        from btclib.p2p import addrv2 as A2
        from btclib.p2p import block_filters as BF
        from btclib.p2p import compact_blocks as CB
        from btclib.p2p import data as D
        from btclib.p2p import handshake as H
        from btclib.p2p import inventory as I
        from btclib.p2p import keepalive as K
        from btclib.p2p import message as M
        from btclib.p2p import negotiation as N

        r = self.rng
        hdrs = [BlockHeader.parse(h) for h in self.s_block_header()[:3]]
        blocks = [Block.parse(b) for b in self.s_block()[:2]]
        txs = self.tx_objs()
        h32 = [self.rb(32) for _ in range(5)]
        na = [A.NetworkAddress(0, "::", 0), A.NetworkAddress(1033, "::ffff:10.0.0.1", 8333), A.NetworkAddress(2**64 - 1, "2001:db8::1", 65535)]
        tna = [A.TimestampedNetworkAddress(0, na[0]), A.TimestampedNetworkAddress(1293037666, na[1]), A.TimestampedNetworkAddress(2**32 - 1, na[2])]
        na2 = [A2.NetworkAddressV2(0, 0, 1, bytes(4), 0), A2.NetworkAddressV2(1700000000, 1033, 2, self.rb(16), 8333),
               A2.NetworkAddressV2(2**32 - 1, 2**64 - 1, 4, self.rb(32), 65535), A2.NetworkAddressV2(5, 1, 5, self.rb(32), 0),
               A2.NetworkAddressV2(5, 0xFD, 6, b"\xfc" + self.rb(15), 1), A2.NetworkAddressV2(5, 0x10000, 0x99, self.rb(7), 1)]
        inv = [I.Inventory(1, h32[0]), I.Inventory(2, h32[1]), I.Inventory(0x40000001, h32[2]), I.Inventory(0x40000002, h32[3]), I.Inventory(0, h32[4])]
        d: dict[str, list] = {
            "NetworkAddress": na, "TimestampedNetworkAddress": tna,
            "Addr": [A.Addr([]), A.Addr(tna[:1]), A.Addr(tna), A.Addr(tna * 5)],
            "NetworkAddressV2": na2, "AddrV2": [A2.AddrV2([]), A2.AddrV2(na2[:1]), A2.AddrV2(na2)], "SendAddrV2": [A2.SendAddrV2()],
            "GetCFilters": [BF.GetCFilters(0, 0, h32[0]), BF.GetCFilters(0, 2**32 - 1, h32[1])],
            "GetCFHeaders": [BF.GetCFHeaders(0, 0, h32[0]), BF.GetCFHeaders(0, 700000, h32[1])],
            "CFilter": [BF.CFilter(0, h32[0], b""), BF.CFilter(0, h32[1], b"\x01\x02\x03"), BF.CFilter(0, h32[2], self.rb(300))],
            "CFHeaders": [BF.CFHeaders(0, h32[0], h32[1], []), BF.CFHeaders(0, h32[0], h32[1], h32[2:4]), BF.CFHeaders(0, h32[0], h32[1], h32 * 60)],
            "GetCFCheckpt": [BF.GetCFCheckpt(0, h32[0])],
            "CFCheckpt": [BF.CFCheckpt(0, h32[0], []), BF.CFCheckpt(0, h32[0], h32[:3])],
            "SendCmpct": [CB.SendCmpct(False, 2), CB.SendCmpct(True, 1), CB.SendCmpct(True, 2**64 - 1)],
            "PrefilledTransaction": [CB.PrefilledTransaction(0, txs[0]), CB.PrefilledTransaction(3, txs[1]), CB.PrefilledTransaction(65535, txs[2])],
            "CmpctBlock": [CB.CmpctBlock(hdrs[0], 0, [], []), CB.CmpctBlock(hdrs[0], 1, [0x010203040506], [CB.PrefilledTransaction(1, blocks[0].transactions[0])]),
                           CB.CmpctBlock(hdrs[1], 2**64 - 1, [r.getrandbits(48) for _ in range(20)],
                                         [CB.PrefilledTransaction(0, txs[0]), CB.PrefilledTransaction(5, txs[1]), CB.PrefilledTransaction(6, txs[6])])],
            "GetBlockTxn": [CB.GetBlockTxn(h32[0], []), CB.GetBlockTxn(h32[0], [0, 2, 5]), CB.GetBlockTxn(h32[1], [0, 1, 2, 3, 300, 65535])],
            "BlockTxn": [CB.BlockTxn(h32[0], []), CB.BlockTxn(h32[0], txs[:1]), CB.BlockTxn(h32[1], [txs[0], txs[6], txs[7]])],
            "TxPayload": [D.TxPayload(txs[0], True), D.TxPayload(txs[6], True), D.TxPayload(txs[7], False)],
            "BlockPayload": [D.BlockPayload(blocks[0], True), D.BlockPayload(blocks[1], True)],
            "Version": [H.Version(), H.Version(70016, 1033, 1700000000, na[1], na[2], r.getrandbits(64), b"/Satoshi:25.0.0/", 800000, True),
                        H.Version(60002, 1, 1355854353, na[0], na[0], 1, b"/Satoshi:0.7.2/", 212672, None),
                        H.Version(70001, 0, 0, na[0], na[1], 0, b"", 0, False)],
            "Verack": [H.Verack()],
            "Inventory": inv, "Inv": [I.Inv([]), I.Inv(inv[:1]), I.Inv(inv)], "GetData": [I.GetData(inv[:2]), I.GetData(inv)],
            "NotFound": [I.NotFound(inv[:1]), I.NotFound(inv)],
            "GetBlocks": [I.GetBlocks(70016, [], h32[0]), I.GetBlocks(70016, h32[:3], bytes(32)), I.GetBlocks(0, h32 * 6, h32[1])],
            "GetHeaders": [I.GetHeaders(70016, h32[:1], bytes(32)), I.GetHeaders(2**31 - 1, h32, h32[0])],
            "Headers": [I.Headers([]), I.Headers(hdrs[:1]), I.Headers(hdrs)],
            "Ping": [K.Ping(0), K.Ping(2**64 - 1)], "Pong": [K.Pong(7), K.Pong(r.getrandbits(64))],
            "GetAddr": [N.GetAddr()], "Mempool": [N.Mempool()], "SendHeaders": [N.SendHeaders()], "WtxidRelay": [N.WtxidRelay()],
            "FeeFilter": [N.FeeFilter(0), N.FeeFilter(1000), N.FeeFilter(2**63 - 1)],
        }
        ser = {k: [o.serialize() for o in v] for k, v in d.items()}
        msgs = [M.Message("f9beb4d9", "ping", bytes(8)), M.Message("f9beb4d9", "verack", b""), M.Message("0b110907", "version", ser["Version"][1]),
                M.Message("f9beb4d9", "inv", ser["Inv"][2]), M.Message("fabfb5da", "tx", ser["TxPayload"][0]), M.Message("f9beb4d9", "addrv2", ser["AddrV2"][2])]
        ser["Message"] = [m.serialize() for m in msgs]
        self._c["_p2p"] = ser
        return ser

    # ------------------------------------------------------------------- text
    def s_b58_address(self):
        out = [x[0] for x in _vec("key_io_valid.json") if not x[2].get("isPrivkey") and x[0][0] in "123mn2"]
        return out[:12]

    def s_b32_address(self):
        out = [x[0] for x in _vec("key_io_valid.json") if not x[2].get("isPrivkey") and x[0][:2].lower() in ("bc", "tb")]
        return out[:12] + [out[0].upper()] if out else []

    def s_address(self):
        return self.s_b58_address()[:8] + self.s_b32_address()[:8]

    def s_wif(self):
        return [x[0] for x in _vec("key_io_valid.json") if x[2].get("isPrivkey")][:10]

    def s_base58(self):
        return [x[1] for x in _vec("base58_encode_decode.json") if x[1]][:10] + self.s_b58_address()[:3]

    def s_bech32(self):
        d = _vec("bip173_bip350.json")
        out = []
        for k, v in d.items():
            if "valid" in k.lower() and "invalid" not in k.lower():
                for x in v:
                    out.append(x if isinstance(x, str) else x[0])
        return (out or self.s_b32_address())[:14]

    def s_descriptor(self):
        out = [x["desc"] + "#" + x["checksum"] for x in _vec("descriptor_checksums.json")]
        xpub = self.s_xkey_b58()[0]
        xprv = self.s_xkey_b58()[1]
        k1 = "0279be667ef9dcbbac55a06295ce870b07029bfcdb2dce28d959f2815b16f81798"
        k2 = "02c6047f9441ed7d6d3045406e95c07cd85c778e4b8cef3ca7abac09b95c709ee5"
        xo = "79be667ef9dcbbac55a06295ce870b07029bfcdb2dce28d959f2815b16f81798"
        out += [f"wpkh({k1})", f"sh(wpkh({k1}))", f"pkh([d34db33f/44h/0h/0h]{xpub}/1/*)", f"wsh(multi(1,{k1},{k2}))", f"sh(wsh(sortedmulti(2,{k1},{k2})))",
                f"tr({xo})", f"tr({xo},{{pk({k2[2:]}),pk({k1[2:]})}})", f"tr({xo},{{{{pk({k2[2:]}),pk({xo})}},pk({k1[2:]})}})",
                f"wsh(and_v(v:pk({k1}),older(144)))", f"wsh(or_d(pk({k1}),and_v(v:pkh({k2}),after(500000))))", f"wpkh({xpub}/<0;1>/*)",
                f"wpkh([deadbeef/84'/0'/0']{xpub}/0/*)", f"combo({k1})", "addr(1BvBMSEYstWetqTFn5Au4m4GFg7xJaNVN2)", "raw(6a0568656c6c6f)",
                f"wsh(thresh(2,pk({k1}),s:pk({k2}),sln:older(12960)))", f"tr(musig({k1},{k2})/0/*)", f"rawtr({xo})", f"pk({xprv}/0h/1)"]
        return out

    def s_descriptor_nosum(self):
        return [d.split("#")[0] for d in self.s_descriptor()][:20]

    def s_any_mnemonic(self):
        return self.s_bip39()[:6] + self.s_electrum()[:6] + self.s_slip39_single()[:3]

    def s_tx_or_psbt_text(self):
        return [t.hex() for t in self.s_tx()[:5]] + self.s_psbt_b64()[:4] + [b.hex() for b in self.s_psbt()[:2]]

    def s_miniscript(self):
        out = [x["miniscript"] for x in _vec("miniscript_fixed_tests.json") if x.get("valid")]
        out.sort(key=len)
        return out[:6] + out[len(out) // 2: len(out) // 2 + 8] + out[-6:]

    def s_miniscript_script(self):
        out = [bytes.fromhex(x["p2wsh_script"]) for x in _vec("miniscript_fixed_tests.json") if x.get("valid") and x.get("p2wsh_script")]
        out.sort(key=len)
        return out[:5] + out[len(out) // 2: len(out) // 2 + 5] + out[-4:]

    def s_bip21(self):
        a, b = self.s_b58_address()[0], ([x for x in self.s_b32_address() if x.startswith("bc1")] or ["bc1qw508d6qejxtdg4y5r3zarvary0c5xw7kv8f3t4"])[0]
        return [f"bitcoin:{a}", f"bitcoin:{a}?amount=20.3&label=Luke-Jr", f"bitcoin:{b}?amount=50&label=Luke-Jr&message=Donation%20for%20project%20xyz",
                f"BITCOIN:{b.upper()}?amount=0.00000001", f"bitcoin:{a}?somethingyoudontunderstand=50&somethingelseyoudontget=999",
                f"bitcoin:{a}?label=%E2%82%AC%20euro&message=a%26b%3Dc", f"bitcoin:{a}?amount=21000000"]

    def s_der_path(self):
        return ["m", "m/0", "m/0h", "m/0'", "m/44h/0h/0h/0/0", "m/2147483647h/2147483647", "0/1/2", "m/0H/1h/2'", "/0/1", "m/" + "/".join(["1"] * 255), "./0/1"]

    def s_index_str(self):
        return ["0", "1", "2147483647", "0h", "0'", "0H", "2147483647h", "44'"]

    def s_key_origin_str(self):
        return ["d34db33f", "d34db33f/44h/0h/0h", "deadbeef/0/1/2", "00000000/2147483647'", "DEADBEEF/84'/0'/0'"]

    def s_bip39(self):
        d = _vec("bip39_test_vectors.json")
        out = []
        for lang in ("english", "japanese", "spanish", "chinese_simplified", "french", "korean", "czech"):
            rows = d.get(lang, [])
            out += [row[1] for row in rows[3:24:7]]
        return out

    def s_electrum(self):
        out = [x[0] for x in _vec("electrum_test_vectors.json")]
        d = _vec("electrum_upstream_vectors.json")
        for x in d.get("seed", []):
            for k in ("mnemonic", "words", "seed"):
                if isinstance(x.get(k), str):
                    out.append(x[k])
        for x in d.get("old", []):
            for k in ("mnemonic", "words"):
                if isinstance(x.get(k), str):
                    out.append(x[k])
        return out[:16]

    def s_slip39_single(self):
        out = []
        for row in _vec("vectors.json"):
            if row[2]:
                out += row[1][:2]
        return out[:12]

    def s_slip39_groups(self):
        return [tuple(row[1]) for row in _vec("vectors.json") if row[2]][:12]

    def s_entropy_str(self):
        return ["0" * 128, "1" * 128, "01" * 80, "0" * 256, "10" * 64, "0" * 512]

    def s_network_name(self):
        return ["mainnet", "testnet", "regtest", "signet", "testnet4"]

    def s_hex(self):
        return ["", "00", "deadbeef", "DEADBEEF", "00" * 32, "de ad be ef", " 00 "]

    def s_amount(self):
        return ["0", "1", "0.00000001", "20999999.99999999", "21000000", "1e-8", "1E2", "0.1", "10.50000000"]

    def s_sp_address(self):
        from btclib import silent_payments as sp

        out = []
        ks = self.keys()
        for net in ("mainnet", "testnet"):
            try:
                out.append(sp.address_from_keys(ks[0][1], ks[1][1], net))
                out.append(sp.address_from_keys(ks[2][1], ks[3][1], net))
            except Exception:  # noqa: BLE001
                pass
        return out

    def s_bip322_b64(self):
        from btclib import b32, b58, bip322

        out = []
        for q, c, _u in self.keys()[:3]:
            for addr in (b58.p2pkh(c), b32.p2wpkh(c), b58.p2wpkh_p2sh(c)):
                try:
                    out.append((bip322.sign(b"hello", q, addr).b64encode(), addr))
                except Exception:  # noqa: BLE001
                    pass
        return out

    def s_tx_or_psbt(self):
        return [t.hex() for t in self.s_tx()[:4]] + self.s_psbt_b64()[:3] + [b for b in self.s_psbt()[:2]] + self.s_tx()[:2]

    # ------------------------------------------------------------------- JSON
    def json_of(self, objs):
        out = []
        for o in objs:
            try:
                out.append(_json.loads(_json.dumps(o.to_dict())))
            except Exception:  # noqa: BLE001
                pass
        return out

    def s_json_tx(self):
        return self.json_of(self.tx_objs()[:3] + self.tx_objs()[6:9])

    def s_json_tx_in(self):
        return self.json_of([i for t in self.tx_objs()[:8] for i in t.vin[:1]])

    def s_json_tx_out(self):
        return self.json_of([o for t in self.tx_objs()[:6] for o in t.vout[:1]])

    def s_json_out_point(self):
        return self.json_of([i.prev_out for t in self.tx_objs()[:4] for i in t.vin[:1]])

    def s_json_witness(self):
        return self.json_of([i.script_witness for t in self.tx_objs() for i in t.vin[:1] if i.script_witness.stack][:4])

    def s_json_block_header(self):
        from btclib.block.block_header import BlockHeader

        return self.json_of([BlockHeader.parse(h) for h in self.s_block_header()[:4]])

    def s_json_block(self):
        from btclib.block.block import Block

        return self.json_of([Block.parse(b) for b in self.s_block()[:3]])

    def s_json_psbt(self):
        ps = sorted(self.psbt_objs(), key=lambda p: len(p.serialize()))
        return self.json_of(ps[:3] + ps[len(ps) // 2: len(ps) // 2 + 3] + ps[-2:])

    def s_json_psbt_in(self):
        ins = [i for p in self.psbt_objs() for i in p.inputs[:1]]
        ins.sort(key=lambda i: len(i.serialize()))
        return self.json_of(ins[:2] + ins[len(ins) // 2: len(ins) // 2 + 4] + ins[-4:])

    def s_json_psbt_out(self):
        outs = [o for p in self.psbt_objs() for o in p.outputs[:1]]
        outs.sort(key=lambda o: len(o.serialize()))
        return self.json_of(outs[:2] + outs[len(outs) // 2: len(outs) // 2 + 3] + outs[-4:])

    def s_json_key_origin(self):
        from btclib.bip32.key_origin import BIP32KeyOrigin

        return self.json_of([BIP32KeyOrigin.parse(b) for b in self.s_key_origin_bin()[:2]])

    def s_json_network(self):
        from btclib.network import network_from_name

        return self.json_of([network_from_name(n) for n in ("mainnet", "testnet", "regtest")])
