"""Known findings: committed file, read-only at run time, keyed by mechanism."""

from __future__ import annotations

import json
import os

PATH = os.path.join(os.path.dirname(os.path.dirname(os.path.abspath(__file__))), "known_findings.json")


def load(prop: str) -> dict[str, dict]:
    """mechanism -> entry, for entries of this property that are still open ('known')."""
    try:
        with open(PATH) as f:
            data = json.load(f)
    except FileNotFoundError:
        return {}
    return {e["mechanism"]: e for e in data.get("findings", [])
            if e.get("property") == prop and e.get("status") == "known"}
