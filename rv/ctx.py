"""Per-shard monitoring context: counters, verdict events, samples.

A property module's shard function receives one ``Ctx``.  Everything a monitor
observes goes through it, so that the evidence file can say what was actually
seen (classes, monitors, arms, mechanisms) and not merely that a workload ran.
"""

from __future__ import annotations

import hashlib
import json
import random
import time
import traceback
from collections import Counter
from typing import Any

MAX_SAMPLES = 6
MAX_VIOLATIONS_KEPT = 40


def jsonable(x: Any, depth: int = 0) -> Any:
    """Canonical JSON-friendly rendering of a case (bytes -> hex, ...)."""
    if depth > 8:
        return repr(x)[:200]
    if x is None or isinstance(x, (bool, str)):
        return x
    if isinstance(x, int):
        return x if abs(x) < 2**53 else hex(x)
    if isinstance(x, float):
        return x if x == x and abs(x) != float("inf") else repr(x)
    if isinstance(x, (bytes, bytearray, memoryview)):
        b = bytes(x)
        return "hex:" + (b.hex() if len(b) <= 4096 else b[:4096].hex() + f"...(+{len(b) - 4096})")
    if isinstance(x, dict):
        return {str(k): jsonable(v, depth + 1) for k, v in x.items()}
    if isinstance(x, (list, tuple, set, frozenset)):
        return [jsonable(v, depth + 1) for v in x]
    if isinstance(x, BaseException):
        return f"{type(x).__module__}.{type(x).__name__}: {str(x)[:300]}"
    return repr(x)[:400]


def digest(x: Any) -> str:
    return hashlib.sha256(json.dumps(jsonable(x), sort_keys=True).encode()).hexdigest()[:16]


class Ctx:
    def __init__(self, prop: str, tier: str, seed: int, shard: str, params: dict):
        self.prop = prop
        self.tier = tier
        self.seed = seed
        self.shard = shard
        self.params = params
        self.rng = random.Random(f"{prop}:{seed}:{shard}")
        self.evaluations = 0
        self._distinct: set[int] = set()
        self._bulk_distinct = 0
        self.classes: Counter[str] = Counter()
        self.monitors: Counter[str] = Counter()
        self.arms: Counter[str] = Counter()
        self.reached: Counter[str] = Counter()
        self.stats: Counter[str] = Counter()
        self.samples: list[Any] = []
        self._sample_classes: set[str] = set()
        self.violations: list[dict] = []
        self.violation_mechs: Counter[str] = Counter()
        self.inconclusive: list[str] = []
        self.exhaustive: list[str] = []
        self.selftest: Counter[str] = Counter()
        self.notes: list[str] = []
        self.t0 = time.time()
        self.cpu0 = time.process_time()
        self.deadline = self.t0 + float(params.get("_budget_s", 1e9))

    # ------------------------------------------------------------ budget
    def time_left(self) -> float:
        return self.deadline - time.time()

    def out_of_time(self) -> bool:
        """The soft budget of a shard, counted in the CPU time of its own process so that a loaded machine shortens
        nothing: a shard that got half a core works twice as long for the same coverage. Wall clock still bounds it
        (twice the budget) for the shards that wait rather than compute; the hard watchdog of main.py is apart."""
        budget = self.deadline - self.t0
        if time.time() - self.t0 > 2.0 * budget:
            return True
        return time.process_time() - self.cpu0 > budget

    # ------------------------------------------------------------- cases
    def case(self, klass: str, key: Any = None, nontrivial: bool = True, sample: Any = None) -> None:
        """One evaluated case of input class ``klass``.

        ``key`` identifies the case for distinctness (anything hashable or
        bytes); cases without key are counted as evaluations only.
        """
        self.evaluations += 1
        self.classes[klass] += 1
        if nontrivial and key is not None:
            self._distinct.add(hash(key) if not isinstance(key, (dict, list)) else hash(digest(key)))
        if sample is not None and klass not in self._sample_classes and len(self.samples) < MAX_SAMPLES:
            self._sample_classes.add(klass)
            self.samples.append({"class": klass, "case": jsonable(sample)})

    def bulk(self, klass: str, n: int, distinct: int | None = None) -> None:
        """``n`` evaluations of an enumeration whose cases are distinct by construction."""
        self.evaluations += n
        self.classes[klass] += n
        self._bulk_distinct += n if distinct is None else distinct

    @property
    def distinct_nontrivial(self) -> int:
        return len(self._distinct) + self._bulk_distinct

    def sample(self, klass: str, case: Any) -> None:
        if klass not in self._sample_classes and len(self.samples) < MAX_SAMPLES:
            self._sample_classes.add(klass)
            self.samples.append({"class": klass, "case": jsonable(case)})

    # ---------------------------------------------------------- monitors
    def mon(self, name: str, n: int = 1) -> None:
        self.monitors[name] += n

    def arm(self, name: str, n: int = 1) -> None:
        self.arms[name] += n

    def reach(self, name: str, n: int = 1) -> None:
        self.reached[name] += n

    def stat(self, name: str, n: int = 1) -> None:
        self.stats[name] += n

    # ---------------------------------------------------------- verdicts
    def violation(self, mechanism: str, description: str, case: Any) -> None:
        """A refutation of the property.  ``mechanism`` says *how* it fails."""
        self.violation_mechs[mechanism] += 1
        kept = sum(1 for v in self.violations if v["mechanism"] == mechanism)
        # the first witness of a mechanism is always kept: the cap bounds the size of a result, never which
        # mechanisms get reported
        if kept == 0 or (len(self.violations) < MAX_VIOLATIONS_KEPT and kept < 3):
            self.violations.append(
                {
                    "mechanism": mechanism,
                    "description": description[:600],
                    "case": jsonable(case),
                    "shard": self.shard,
                }
            )

    def inconclusive_(self, reason: str) -> None:
        if reason not in self.inconclusive:
            self.inconclusive.append(reason)

    def oracle_ok(self, name: str, n: int = 1) -> None:
        self.selftest[name] += n

    def oracle_broken(self, name: str, detail: str = "") -> None:
        self.inconclusive_(f"oracle self-test failed: {name} {detail}"[:300])

    # ------------------------------------------------------------ result
    def result(self) -> dict:
        return {
            "shard": self.shard,
            "evaluations": self.evaluations,
            "distinct_nontrivial": self.distinct_nontrivial,
            "classes": dict(self.classes),
            "monitors": dict(self.monitors),
            "arms": dict(self.arms),
            "reached": dict(self.reached),
            "stats": dict(self.stats),
            "samples": self.samples,
            "violations": self.violations,
            "violation_mechs": dict(self.violation_mechs),
            "inconclusive": self.inconclusive,
            "exhaustive": self.exhaustive,
            "selftest": dict(self.selftest),
            "notes": self.notes[:20],
            "wall_s": round(time.time() - self.t0, 2),
        }


def outcome(f, *a, **kw):
    """Run ``f`` and canonicalise: ('ok', value) or ('raise', exception)."""
    try:
        return ("ok", f(*a, **kw))
    except RecursionError as e:  # keep the stack short before anything else happens
        return ("raise", e)
    except Exception as e:  # noqa: BLE001 - the monitor classifies afterwards
        return ("raise", e)


def is_lib_exc(e: BaseException) -> bool:
    from btclib.exceptions import BTClibException

    return isinstance(e, BTClibException)


def tb_origin(e: BaseException) -> str:
    """'file:function' of the innermost frame, for mechanism tags."""
    tb = traceback.extract_tb(e.__traceback__)
    if not tb:
        return "?"
    fr = tb[-1]
    name = fr.filename.split("/btclib/")[-1] if "/btclib/" in fr.filename else fr.filename.split("/")[-1]
    return f"{name}:{fr.name}"


def raised_inside_lib(e: BaseException) -> bool:
    tb = traceback.extract_tb(e.__traceback__)
    return bool(tb) and "/btclib/" in tb[-1].filename
