"""Orchestrator: ./check CNN --tier quick|thorough [--replay path] [--only shard]

Runs the property's shards in fresh interpreters (subprocess, never a Pool),
merges what the monitors observed, applies the known-findings file, writes
evidence and replay files, prints the verdict lines and exits 0 / 1 / 3.
"""

from __future__ import annotations

import argparse
import importlib
import json
import os
import subprocess
import sys
import tempfile
import time
from collections import Counter
from concurrent.futures import ThreadPoolExecutor

from . import findings
from .ctx import digest

ROOT = os.path.dirname(os.path.dirname(os.path.abspath(__file__)))
EXIT_HELD, EXIT_VIOLATION, EXIT_INCONCLUSIVE = 0, 1, 3


def repo_path() -> str:
    return os.environ.get("VERIF_REPO", "/repo")


def run_shard(prop: str, tier: str, seed: int, spec: dict) -> dict:
    timeout = float(spec.get("_timeout_s", 1800))
    with tempfile.TemporaryDirectory(prefix="rv-") as td:
        sp, op = os.path.join(td, "spec.json"), os.path.join(td, "out.json")
        with open(sp, "w") as f:
            json.dump({"prop": prop, "tier": tier, "seed": seed, "spec": spec}, f)
        env = dict(os.environ)
        env.update(PYTHONHASHSEED="0", PYTHONDONTWRITEBYTECODE="1", BTCLIB_VERIF="1")
        env.pop("BTCLIB_NO_LIBSECP256K1", None)
        t0 = time.time()
        try:
            p = subprocess.run(
                [sys.executable, "-X", "faulthandler", "-m", "rv.shard", sp, op],
                cwd=ROOT, env=env, capture_output=True, text=True, timeout=timeout,
            )
        except subprocess.TimeoutExpired:
            return {"shard": spec["name"], "inconclusive": [f"shard {spec['name']} watchdog {timeout:.0f}s fired"],
                    "wall_s": time.time() - t0}
        if os.path.exists(op):
            with open(op) as f:
                r = json.load(f)
            r["stderr_tail"] = p.stderr[-500:] if p.returncode else ""
            return r
        return {"shard": spec["name"], "wall_s": time.time() - t0,
                "inconclusive": [f"shard {spec['name']} died rc={p.returncode}: {p.stderr[-800:]}"]}


def merge(results: list[dict]) -> dict:
    m: dict = {"evaluations": 0, "distinct_nontrivial": 0, "samples": [], "violations": [],
               "inconclusive": [], "exhaustive": [], "notes": [], "shards": {}}
    for k in ("classes", "monitors", "arms", "reached", "stats", "selftest", "violation_mechs"):
        m[k] = Counter()
    for r in results:
        m["evaluations"] += r.get("evaluations", 0)
        m["distinct_nontrivial"] += r.get("distinct_nontrivial", 0)
        for k in ("classes", "monitors", "arms", "reached", "stats", "selftest", "violation_mechs"):
            m[k].update(r.get(k, {}))
        m["samples"].extend(r.get("samples", [])[:2])
        m["violations"].extend(r.get("violations", []))
        for x in r.get("inconclusive", []):
            if x not in m["inconclusive"]:
                m["inconclusive"].append(x)
        for x in r.get("exhaustive", []):
            if x not in m["exhaustive"]:
                m["exhaustive"].append(x)
        m["notes"].extend(r.get("notes", [])[:5])
        m["shards"][r.get("shard", "?")] = {"evaluations": r.get("evaluations", 0), "wall_s": r.get("wall_s", 0)}
    return m


def main(argv=None) -> int:
    ap = argparse.ArgumentParser()
    ap.add_argument("prop")
    ap.add_argument("--tier", default=os.environ.get("VERIF_TIER", "quick"), choices=["quick", "thorough"])
    ap.add_argument("--replay")
    ap.add_argument("--only", help="run only shards whose name contains this")
    ap.add_argument("--jobs", type=int, default=int(os.environ.get("VERIF_JOBS", "16")))
    ap.add_argument("--no-evidence", action="store_true")
    a = ap.parse_args(argv)
    prop = a.prop.upper()
    seed = int(os.environ.get("VERIF_SEED", "0") or 0)
    mod = importlib.import_module(f"rv.props.{prop.lower()}")
    t0 = time.time()

    if a.replay:
        with open(a.replay) as f:
            rp = json.load(f)
        specs = [rp["spec"]]
        seed, tier = rp["seed"], rp["tier"]
        want = rp["mechanism"]
    else:
        tier = a.tier
        specs = mod.plan(tier, seed)
        if a.only:
            specs = [s for s in specs if a.only in s["name"]]
        want = None

    with ThreadPoolExecutor(max_workers=max(1, a.jobs)) as ex:
        results = list(ex.map(lambda s: run_shard(prop, tier, seed, s), specs))
    m = merge(results)
    spec_by_name = {s["name"]: s for s in specs}

    if not a.only and not a.replay and hasattr(mod, "finalize"):
        for reason in mod.finalize(m, tier) or []:
            if reason not in m["inconclusive"]:
                m["inconclusive"].append(reason)

    # A reach counter names a function of the library, most of them private. One that no longer exists in the tree
    # under test (renamed or folded away by a refactor) cannot be entered: the verdict rests on the oracle comparisons at
    # the public boundary, which ran or not regardless, so its absence is recorded and does not make the run inconclusive.
    import re as _re
    for reason in list(m["inconclusive"]):
        mt = _re.fullmatch(r"mechanism (\S+) never entered", reason)
        if mt and mt.group(1).split(".")[-1].startswith("_") and m["stats"].get(f"reach-absent:{mt.group(1)}") \
                and not m["reached"].get(mt.group(1)):
            m["inconclusive"].remove(reason)
            m["notes"].append(f"private function {mt.group(1)} is not in this tree (renamed or removed): its reach counter is not required")

    known = findings.load(prop)
    known_hit: Counter = Counter()
    new_mechs: dict[str, dict] = {}
    for v in m["violations"]:
        mech = v["mechanism"]
        if mech in known:
            known_hit[mech] += 1
        elif mech not in new_mechs:
            new_mechs[mech] = v
    for mech in m["violation_mechs"]:
        if mech in known:
            known_hit[mech] = max(known_hit[mech], m["violation_mechs"][mech])
        elif mech not in new_mechs:
            # counted by a shard whose witness did not survive (a crashed or capped shard): still a violation
            new_mechs[mech] = {"mechanism": mech, "description": f"observed {m['violation_mechs'][mech]}x; no witness kept", "case": None, "shard": "?"}

    lines = []
    for mech in sorted(known_hit):
        lines.append(f"KNOWN-FINDING: property={prop} {mech}: {known[mech]['description']} "
                     f"(observed {m['violation_mechs'].get(mech, known_hit[mech])}x)")
    # validation runs against scratch copies (--no-evidence / VERIF_REPO) keep their replays out of /verif
    scratch = a.no_evidence or "VERIF_REPO" in os.environ
    replay_dir = os.path.join("/tmp/rv-replays" if scratch else os.path.join(ROOT, "replays"), prop)
    for mech, v in sorted(new_mechs.items()):
        os.makedirs(replay_dir, exist_ok=True)
        path = os.path.join(replay_dir, digest([mech, v["case"]]) + ".json")
        with open(path, "w") as f:
            json.dump({"property": prop, "seed": seed, "tier": tier, "mechanism": mech,
                       "description": v["description"], "case": v["case"],
                       "spec": spec_by_name.get(v.get("shard"), {"name": v.get("shard")})}, f, indent=1)
        lines.append(f"VIOLATION property={prop} replay={path}")
        lines.append(f"  mechanism={mech} :: {v['description'][:300]}")

    if a.replay:
        hit = want in m["violation_mechs"]
        print(f"replay: mechanism {want} {'reproduced' if hit else 'NOT reproduced'}")
        for l in lines:
            print(l)
        return EXIT_VIOLATION if hit else EXIT_HELD

    if new_mechs:
        verdict, code = "violated", EXIT_VIOLATION
    elif m["inconclusive"]:
        verdict, code = "inconclusive", EXIT_INCONCLUSIVE
    else:
        verdict, code = "held", EXIT_HELD
    for r in m["inconclusive"]:
        lines.append(f"INCONCLUSIVE property={prop} reason={r[:400]}")

    wall = round(time.time() - t0, 2)
    if os.environ.get("VERIF_SHOW"):  # partial / scratch runs write no evidence: show the counters matching this regex instead
        import re as _re
        pat = _re.compile(os.environ["VERIF_SHOW"])
        for group in ("classes", "monitors", "arms", "reached", "stats"):
            for k, v in sorted(dict(m[group]).items()):
                if pat.search(k):
                    print(f"  {group}: {k} = {v}")
    if not a.no_evidence and not a.only:
        samples = m["samples"][:10] or [{"class": "none", "case": "no case evaluated"}]
        ev = {
            "property_id": prop, "tier": tier, "seed": seed, "level": "exploration",
            "coverage": {
                "evaluations": m["evaluations"],
                "distinct_nontrivial": m["distinct_nontrivial"],
                "rule": getattr(mod, "RULE", ""),
                "samples": samples,
                "exhaustive": False,
                "exhaustive_subspaces": m["exhaustive"],
                "classes": dict(m["classes"]),
                "monitors": dict(m["monitors"]),
                "arms": dict(m["arms"]),
                "mechanisms_reached": dict(m["reached"]),
                "stats": dict(m["stats"]),
                "oracle_selftest": dict(m["selftest"]),
                "known_findings_hit": dict(known_hit),
                "inconclusive_reasons": m["inconclusive"],
                "notes": sorted(set(m["notes"]))[:40],
                "shards": m["shards"],
                "verdict": verdict,
                "repo": repo_path(),
            },
            "assumptions": getattr(mod, "ASSUMPTIONS", []),
            "wall_s": wall,
            "violations": len(new_mechs),
        }
        os.makedirs(os.path.join(ROOT, "evidence"), exist_ok=True)
        with open(os.path.join(ROOT, "evidence", f"{prop}.json"), "w") as f:
            json.dump(ev, f, indent=1, sort_keys=True)

    for l in lines:
        print(l)
    print(f"{prop} {tier} seed={seed}: {verdict}; evaluations={m['evaluations']} "
          f"distinct_nontrivial={m['distinct_nontrivial']} shards={len(specs)} wall={wall}s")
    return code


if __name__ == "__main__":
    sys.exit(main())
