"""C18 - sizes, fees and amounts are exact integer accounting.

Monitors: len() of the real serialization against every reported size (with an independent
reader for the stripped size); fractions.Fraction / decimal arithmetic for fees, rates and
amounts; the library-signed transaction of an end-to-end flow for "estimate >= actual"; value
conservation, rate, dust and insufficiency invariants on every funded PSBT.
"""

from __future__ import annotations

import math
from decimal import Decimal
from fractions import Fraction

from ..ctx import Ctx, is_lib_exc, outcome, tb_origin
from ..hooks import Reach

PROPERTY = "C18"
RULE = (
    "transactions/blocks with input, output and witness-item counts and script/element lengths at every CompactSize boundary "
    "(0, 1, 252, 253, 65535, 65536), with and without witnesses; PSBT input mixes of every signable shape estimated before signing "
    "and compared after sign -> finalize -> extract; build_psbt over fee rates (integer and exact-decimal, 0, 1, 999, 1000, 1001, large), "
    "change scripts of each type and remainders placed within +-2 sat of the dust threshold and of the fee; fee/amount functions on "
    "boundary and random operands against Fraction/Decimal. Distinct = distinct (function, operands / transaction bytes)."
)
ASSUMPTIONS = [
    "rv/ref/core.py's transaction reader gives the stripped size independently of Tx.serialize(include_witness=False)",
    "fractions.Fraction and decimal with an exact context are the arithmetic the property names",
]
MECH = ["btclib.tx.tx:Tx._serialized_size", "btclib.tx.tx_in:input_weight", "btclib.var_int:_size", "btclib.block.block:Block._serialized_size",
        "btclib.psbt.psbt_size:estimated_input_sizes", "btclib.psbt.psbt_size:_solution_sizes", "btclib.psbt.psbt_size:_p2wsh_witness_sizes",
        "btclib.psbt.psbt_size:_taproot_witness_sizes", "btclib.psbt.psbt:Psbt.weight_estimate", "btclib.fee:fee_from_vsize",
        "btclib.fee:package_fee", "btclib.fee:dust_threshold", "btclib.tx_builder:build_psbt", "btclib.amount:valid_sats_amount",
        "btclib.amount:valid_btc_amount", "btclib.amount:sats_from_btc", "btclib.amount:btc_from_sats"]
BOUNDS = [0, 1, 2, 252, 253, 254, 65535, 65536]
MAX_SATS = 21 * 10**14


def plan(tier: str, seed: int) -> list[dict]:
    q = tier == "quick"
    specs = []
    for i in range(3 if q else 6):
        specs.append({"name": f"sizes-{i}", "fn": "shard_sizes", "cases": 1200 if q else 12000, "_budget_s": 150 if q else 900, "_timeout_s": 500 if q else 2400})
    for i in range(6 if q else 10):
        specs.append({"name": f"estimate-{i}", "fn": "shard_estimate", "flows": 150 if q else 2500, "part": i, "_budget_s": 150 if q else 900, "_timeout_s": 500 if q else 2400})
    for i in range(4 if q else 6):
        specs.append({"name": f"funding-{i}", "fn": "shard_funding", "cases": 400 if q else 5000, "_budget_s": 150 if q else 900, "_timeout_s": 500 if q else 2400})
    specs.append({"name": "fees-amounts", "fn": "shard_fees", "cases": 90000 if q else 800000, "_budget_s": 70 if q else 800, "_timeout_s": 500 if q else 2400})
    return specs


def finalize(m: dict, tier: str) -> list[str]:
    from ..gen.flows import SHAPES

    out = []
    s, c, r = m["stats"], m["classes"], m["reached"]
    for pos in ("vin", "vout", "witness-items", "script_sig", "script_pub_key", "witness-element"):
        for b in (252, 253, 65535, 65536):
            if pos in ("vin", "vout") and b >= 65535:
                continue   # counts that large are beyond any transaction the library builds; boundaries covered on var_int itself
            if not s.get(f"boundary:{pos}:{b}"):
                out.append(f"no case crossed the CompactSize boundary {b} in {pos}")
    for shape in SHAPES:
        if not s.get(f"estimated:{shape}"):
            out.append(f"shape {shape} never had its estimate compared with a signed transaction")
    for k in ("sig-size:71", "sig-size:72", "funding:change-created", "funding:change-folded-into-fee", "funding:insufficient-refused",
              "funding:near-dust", "funding:near-fee", "funding:outputs:252", "fees:fee_from_vsize", "fees:package_fee", "fees:dust_threshold", "amount:sats", "amount:btc",
              "amount:refused", "block:sizes"):
        if not s.get(k) and not c.get(k):
            out.append(f"{k} never observed")
    for f in ("Tx._serialized_size", "estimated_input_sizes", "fee_from_vsize", "build_psbt", "dust_threshold", "valid_btc_amount"):
        if not r.get(f):
            out.append(f"mechanism {f} never entered")
    return out


def _reach():
    reach = Reach()
    for d in MECH:
        reach.watch_path(d)
    reach.start()
    return reach


# ==================================================================== sizes
def shard_sizes(ctx: Ctx) -> None:
    from btclib import var_int
    from btclib.block.block import Block
    from btclib.script import ScriptPubKey, Witness
    from btclib.tx import OutPoint, Tx, TxIn, TxOut

    from ..ref import core as cm

    reach = _reach()
    r = ctx.rng

    def rb(n):
        return bytes(r.getrandbits(8) for _ in range(min(n, 16))) + bytes(max(0, n - 16))

    def pick(big_ok=True):
        v = r.choice(BOUNDS if big_ok else BOUNDS[:6])
        return v

    def rand_tx(force=None):
        """force = (position, boundary) puts that boundary value in that position."""
        segwit = r.random() < 0.6
        n_in = r.choice([1, 1, 2, 3])
        n_out = r.choice([0, 1, 2])
        pos, b = force or (None, None)
        if pos == "vin":
            n_in = max(1, b)
        if pos == "vout":
            n_out = b
        vin = []
        for k in range(n_in):
            ss = rb(b if pos == "script_sig" and k == 0 else r.choice([0, 1, 23, 107]))
            wit = []
            if segwit or pos in ("witness-items", "witness-element"):
                segwit = True
                items = b if pos == "witness-items" and k == 0 else r.choice([0, 1, 2, 3])
                wit = [rb(b if pos == "witness-element" and k == 0 and j == 0 else r.choice([0, 1, 33, 72])) for j in range(items)]
            vin.append(TxIn(OutPoint(rb(32), r.getrandbits(32), check_validity=False), ss, r.getrandbits(32), Witness(wit), check_validity=False))
        vout = [TxOut(r.choice([0, 1, MAX_SATS, r.randrange(10**9)]),
                      ScriptPubKey(rb(b if pos == "script_pub_key" and k == 0 else r.choice([0, 1, 22, 34])), check_validity=False), check_validity=False)
                for k in range(n_out)]
        return Tx(r.getrandbits(32), r.getrandbits(32), vin, vout, check_validity=False)

    forced = [(p, b) for p in ("vin", "vout") for b in (0, 1, 252, 253, 254)] + \
             [(p, b) for p in ("witness-items", "script_sig", "script_pub_key", "witness-element") for b in BOUNDS]
    for it in range(ctx.params["cases"]):
        if ctx.out_of_time():
            break
        force = forced[(it // 2) % len(forced)] if it % 2 == 0 else None
        tx = rand_tx(force)
        full = tx.serialize(include_witness=True, check_validity=False)
        mtx = cm.parse_tx(full)
        stripped = mtx.ser(False)
        has_wit = any(i.witness for i in mtx.vin)
        want_size, want_stripped = len(full), len(stripped)
        want_weight = 3 * want_stripped + want_size
        case = {"tx": full[:300].hex() + ("..." if len(full) > 300 else ""), "len": want_size, "stripped": want_stripped, "forced": force}
        got = {"size": tx.size, "weight": tx.weight, "vsize": tx.vsize}
        if got["size"] != want_size:
            ctx.violation("tx-size-differs-from-serialization", f"Tx.size={got['size']} len(serialize)={want_size}", case)
        if got["weight"] != want_weight:
            ctx.violation("tx-weight-not-3-stripped-plus-total", f"Tx.weight={got['weight']} but 3*{want_stripped}+{want_size}={want_weight}", case)
        if got["vsize"] != -(-want_weight // 4):
            ctx.violation("tx-vsize-not-ceil-weight-over-4", f"Tx.vsize={got['vsize']} weight={want_weight}", case)
        s2 = len(tx.serialize(include_witness=False, check_validity=False))
        if s2 != want_stripped:
            ctx.violation("tx-stripped-serialization-differs", f"len(serialize(include_witness=False))={s2}, independent reader {want_stripped}", case)
        if cm.hash256(stripped)[::-1] != tx.id or cm.hash256(full if has_wit else stripped)[::-1] != tx.hash:
            ctx.violation("tx-id-or-hash-not-hash-of-bytes", "txid/wtxid differ from hash256 of the bytes", case)
        ctx.case("tx:sizes", full, sample=case if force else None)
        if force:
            ctx.stats[f"boundary:{force[0]}:{force[1]}"] += 1
        # var_int sizes at every boundary, and var_int round trip
        for v in (0, 1, 252, 253, 65535, 65536, 2**32 - 1, 2**32, 2**64 - 1, r.getrandbits(r.choice([7, 15, 31, 63]))):
            enc = var_int.serialize(v)
            want = 1 if v < 253 else 3 if v < 65536 else 5 if v < 2**32 else 9
            if len(enc) != want:
                ctx.violation("var_int-size-wrong", f"var_int.serialize({v}) has {len(enc)} bytes, CompactSize says {want}", {"v": v})
            ctx.case("var_int", ("vi", v))
        # a block of a few of these transactions
        if it % 10 == 0:
            txs = [rand_tx() for _ in range(r.choice([1, 2, 5]))]
            hdr = None
            try:
                from btclib.block.block_header import BlockHeader
                from datetime import datetime, timezone
                hdr = BlockHeader(1, bytes(32), bytes(32), datetime.fromtimestamp(1231006505, timezone.utc), bytes.fromhex("207fffff"), 0, check_validity=False)
                blk = Block(hdr, txs, check_validity=False)
                full_b = blk.serialize(include_witness=True, check_validity=False)
                stripped_b = blk.serialize(include_witness=False, check_validity=False)
            except Exception as e:  # noqa: BLE001
                if not is_lib_exc(e):
                    ctx.violation(f"block:foreign-exception:{type(e).__name__}@{tb_origin(e)}", f"building a block raised {e!r}", {})
                ctx.stat("block:not-buildable")
                continue
            want_stripped_b = 80 + len(var_int.serialize(len(txs))) + sum(len(cm.parse_tx(t.serialize(include_witness=True, check_validity=False)).ser(False)) for t in txs)
            if len(stripped_b) != want_stripped_b:
                ctx.violation("block-stripped-serialization-differs", f"{len(stripped_b)} vs independent {want_stripped_b}", {})
            ww = 3 * want_stripped_b + len(full_b)
            if blk.size != len(full_b) or blk.weight != ww or blk.vsize != -(-ww // 4):
                ctx.violation("block-size-weight-vsize-identities", f"size={blk.size}/{len(full_b)} weight={blk.weight}/{ww} vsize={blk.vsize}", {"txs": len(txs)})
            ctx.case("block:sizes", full_b)
            ctx.stats["block:sizes"] += 1
    reach.stop()
    reach.report(ctx)


# ================================================================ estimates
def shard_estimate(ctx: Ctx) -> None:
    from ..gen.flows import SHAPES, FlowGen

    reach = _reach()
    r = ctx.rng
    g = FlowGen(r, label=f"c18:{ctx.seed}:{ctx.shard}")
    names = list(SHAPES)
    for it in range(ctx.params["flows"]):
        if ctx.out_of_time():
            break
        first = names[(it + ctx.params["part"] * 5) % len(names)]
        shapes = [first] + [r.choice(names) for _ in range(r.choice([0, 0, 1, 2, 4]))]
        try:
            fl = g.build(shapes)
            est_o = outcome(fl.created.weight_estimate, g.sizer(fl))
            vs_o = outcome(fl.created.vsize_estimate, g.sizer(fl))
            # the sizer-less spellings (properties): answered only where the psbt itself determines every input
            pw_o = outcome(lambda: fl.created.estimated_weight)
            pv_o = outcome(lambda: fl.created.estimated_vsize)
            g.sign(fl, ("software", "psbt.sign", "nogrind")[it % 3])
            g.finish(fl)
        except Exception as e:  # noqa: BLE001
            if not is_lib_exc(e):
                ctx.violation(f"estimate-flow:foreign-exception:{type(e).__name__}@{tb_origin(e)}", f"{shapes}: {e!r}", {"shapes": shapes})
            else:
                ctx.stat(f"estimate-flow-refused:{str(e)[:50]}")
            continue
        case = {"shapes": shapes, "psbt_version": fl.psbt_version, "sighash": fl.sighash, "tx": fl.tx.serialize(include_witness=True).hex()[:400]}
        if est_o[0] == "raise":
            if is_lib_exc(est_o[1]):
                ctx.stat(f"estimate-refused:{shapes[0]}")
                # a signable shape with the sizer a caller would pass must have an estimate: statistic only, the property
                # speaks of estimates that are given
            else:
                ctx.violation(f"estimate:foreign-exception:{type(est_o[1]).__name__}", f"weight_estimate raised {est_o[1]!r}", case)
            continue
        est, actual = est_o[1], fl.tx.weight
        case.update({"estimate": est, "actual": actual})
        ctx.mon("estimate>=actual")
        if est < actual:
            ctx.violation(f"estimate-below-signed-weight:{_worst(shapes)}", f"estimated weight {est} < weight {actual} of the transaction once signed ({shapes})", case)
        if vs_o[0] == "ok" and vs_o[1] != -(-est // 4):
            ctx.violation("vsize-estimate-not-ceil-weight-estimate-over-4", f"vsize_estimate={vs_o[1]} weight_estimate={est}", case)
        for name, o in (("estimated_weight", pw_o), ("estimated_vsize", pv_o)):
            if o[0] == "raise" and not is_lib_exc(o[1]):
                ctx.violation(f"estimate:foreign-exception:{type(o[1]).__name__}", f"Psbt.{name} raised {o[1]!r}", case)
        if pw_o[0] == "ok":
            ctx.mon("estimate>=actual:Psbt.estimated_weight")
            if pw_o[1] < actual:
                ctx.violation(f"estimate-below-signed-weight:estimated_weight:{_worst(shapes)}",
                              f"Psbt.estimated_weight {pw_o[1]} < weight {actual} of the transaction once signed ({shapes})", {**case, "estimate": pw_o[1]})
            if pv_o[0] == "ok" and pv_o[1] != -(-pw_o[1] // 4):
                ctx.violation("vsize-estimate-not-ceil-weight-estimate-over-4", f"estimated_vsize={pv_o[1]} estimated_weight={pw_o[1]}", case)
        else:
            ctx.stat("estimate:Psbt.estimated_weight-refused")
        ctx.stats["estimate:slack-total"] += est - actual
        for shp in set(shapes):
            ctx.stats[f"estimated:{shp}"] += 1
        for i in fl.tx.vin:
            for el in list(i.script_witness.stack) + _pushes(i.script_sig):
                if len(el) in (71, 72, 73) and el[:1] == b"\x30":
                    ctx.stats[f"sig-size:{len(el)}"] += 1
        ctx.case("estimate", fl.tx.serialize(include_witness=True), sample=case)
    reach.stop()
    reach.report(ctx)


def _worst(shapes):
    return shapes[0] if len(shapes) == 1 else "mixed"


def _pushes(script: bytes):
    from ..ref import core as cm

    out, pc = [], 0
    while True:
        op = cm.get_op(script, pc)
        if op is None:
            return out
        if op[1]:
            out.append(op[1])
        pc = op[2]


# ================================================================== funding
def shard_funding(ctx: Ctx) -> None:
    from btclib.fee import FeeRate, dust_threshold, fee_from_vsize
    from btclib.script import ScriptPubKey
    from btclib.tx import TxOut
    from btclib.tx_builder import build_psbt

    from ..gen.flows import SHAPES, FlowGen

    reach = _reach()
    r = ctx.rng
    g = FlowGen(r, label=f"c18f:{ctx.seed}:{ctx.shard}")
    names = [n for n in SHAPES]
    change_scripts = [b"\x00\x14" + bytes(20), b"\x51\x20" + bytes(range(32)), b"\x76\xa9\x14" + bytes(20) + b"\x88\xac", b"\xa9\x14" + bytes(20) + b"\x87",
                      b"\x00\x20" + bytes(32), None]
    for it in range(ctx.params["cases"]):
        if ctx.out_of_time():
            break
        shapes = [r.choice(names) for _ in range(r.choice([1, 1, 2, 3]))]
        try:
            fl = g.build(shapes, psbt_version=0, sighash=None)
            v2 = fl.created.to_v2()
        except Exception as e:  # noqa: BLE001
            if not is_lib_exc(e):
                raise
            ctx.stat("funding:setup-refused")
            continue
        inputs = list(v2.inputs)
        total_in = sum(p.value for p in fl.prevouts)
        rate = FeeRate(sats_per_kvbyte=r.choice([0, 1, 999, 1000, 1001, 2500, 10_000, 123_457, 10**7])) if r.random() < 0.7 else \
            FeeRate.from_sats_per_vbyte(Decimal(r.choice(["1", "1.001", "0.999", "2.5", "17.333", "100"])))
        change = r.choice(change_scripts)
        sizer = g.sizer(fl)
        # the output count crosses the CompactSize boundary with and without the change output (251/252/253 payments)
        n_out = r.choice([1, 1, 2]) if it % 8 else r.choice([251, 252, 252, 253])
        # first learn the fee the builder will ask for this shape of transaction, then aim the remainder at a boundary
        probe_outs = [TxOut(1000, ScriptPubKey(b"\x00\x14" + bytes([j % 256]) * 20)) for j in range(n_out)]
        po = outcome(build_psbt, inputs, probe_outs, rate, change, sizer=sizer)
        if po[0] == "raise":
            if not is_lib_exc(po[1]):
                ctx.violation(f"build_psbt:foreign-exception:{type(po[1]).__name__}@{tb_origin(po[1])}", f"build_psbt raised {po[1]!r}", {"shapes": shapes})
            ctx.stat("funding:probe-refused")
            continue
        probe = po[1]
        fee_with_change = probe.fee if probe.change_index is not None else None
        dust = dust_threshold(change, ) if change is not None else 0
        target = r.choice(["near-dust", "near-fee", "plenty", "insufficient", "random"])
        if target == "near-dust" and change is not None and fee_with_change is not None:
            remainder = fee_with_change + dust + r.choice([-2, -1, 0, 1, 2])
            ctx.stats["funding:near-dust"] += 1
        elif target == "near-fee":
            remainder = (fee_with_change or probe.fee) + r.choice([-2, -1, 0, 1, 2]) - (dust if r.random() < 0.3 else 0)
            ctx.stats["funding:near-fee"] += 1
        elif target == "insufficient":
            remainder = r.choice([0, 1, -5, (probe.fee // 2)])
        elif target == "plenty":
            remainder = total_in // 2
        else:
            remainder = r.randrange(0, total_in)
        pay = total_in - remainder
        if pay < n_out:
            continue
        outs = [TxOut(pay // n_out + (pay % n_out if j == 0 else 0), ScriptPubKey(b"\x00\x14" + bytes([j % 256]) * 20)) for j in range(n_out)]
        if n_out > 200:
            ctx.stats[f"funding:outputs:{n_out}"] += 1
        o = outcome(build_psbt, inputs, outs, rate, change, sizer=sizer)
        case = {"shapes": shapes, "total_in": total_in, "outputs": [x.value for x in outs], "rate_sat_per_kvB": rate.sats_per_kvbyte,
                "change_script": change.hex() if change else None, "remainder": remainder, "target": target}
        ctx.mon("funded-psbt-invariants")
        if o[0] == "raise":
            if not is_lib_exc(o[1]):
                ctx.violation(f"build_psbt:foreign-exception:{type(o[1]).__name__}@{tb_origin(o[1])}", f"build_psbt raised {o[1]!r}", case)
                continue
            ctx.stats["funding:refused"] += 1
            # a refusal is owed only when even the change-less transaction cannot pay its fee: judged below on the accept side;
            # here: refusing although plenty is left would be a false refusal (statistic, the property states no completeness)
            if remainder < 0 or target == "insufficient":
                ctx.stats["funding:insufficient-refused"] += 1
            ctx.case("funding:refused", (tuple(shapes), pay, rate.sats_per_kvbyte, change))
            continue
        fp = o[1]
        psbt = fp.psbt
        out_values = [po_.amount for po_ in psbt.outputs]
        total_out = sum(out_values)
        case.update({"fee": fp.fee, "change_index": fp.change_index, "out_values": out_values})
        if total_in != total_out + fp.fee:
            ctx.violation("funded-psbt-does-not-conserve-value", f"inputs {total_in} != outputs {total_out} + fee {fp.fee}", case)
        if fp.fee < 0:
            ctx.violation("funded-psbt-negative-fee", f"fee {fp.fee}", case)
        if fp.change_index is not None:
            ctx.stats["funding:change-created"] += 1
            ch = psbt.outputs[fp.change_index]
            if ch.amount < dust_threshold(ch.script_pub_key):
                ctx.violation("funded-psbt-dust-change", f"change {ch.amount} below the dust threshold {dust_threshold(ch.script_pub_key)}", case)
            if ch.script_pub_key != change:
                ctx.violation("funded-psbt-change-to-wrong-script", "change output pays another script", case)
        elif change is not None:
            ctx.stats["funding:change-folded-into-fee"] += 1
        if remainder < 0:
            ctx.violation("funded-psbt-accepts-insufficient-inputs", f"inputs {total_in} cover neither outputs {pay}", case)
        # the rate on the FINAL virtual size: sign, finalize, extract
        try:
            fl2 = fl
            fl2.created = psbt
            g.sign(fl2, "software")
            g.finish(fl2)
        except Exception as e:  # noqa: BLE001
            if not is_lib_exc(e):
                ctx.violation(f"funded-flow:foreign-exception:{type(e).__name__}@{tb_origin(e)}", f"{e!r}", case)
            else:
                ctx.stat(f"funding:not-signable:{str(e)[:40]}")
            ctx.case("funding:accepted-unsigned", (tuple(shapes), pay, rate.sats_per_kvbyte, change))
            continue
        vsize = fl2.tx.vsize
        owed = -(-rate.sats_per_kvbyte * vsize // 1000)
        case.update({"final_vsize": vsize, "owed_at_rate": owed})
        if fp.fee < owed:
            ctx.violation("funded-psbt-underpays-the-requested-rate", f"fee {fp.fee} < ceil({rate.sats_per_kvbyte} * {vsize} / 1000) = {owed}", case)
        if fee_from_vsize(vsize, rate) != owed:
            ctx.violation("fee-from-vsize-not-ceil", f"fee_from_vsize({vsize}, {rate.sats_per_kvbyte}) = {fee_from_vsize(vsize, rate)} != {owed}", case)
        actual_fee = total_in - sum(o_.value for o_ in fl2.tx.vout)
        if actual_fee != fp.fee:
            ctx.violation("funded-psbt-fee-differs-from-extracted-transaction", f"reported fee {fp.fee}, transaction pays {actual_fee}", case)
        ctx.case("funding:signed", fl2.tx.serialize(include_witness=True), sample=case)

    # ---- the money range of the *sum*: inputs worth more than 21M BTC, every single amount within it
    from btclib.psbt.psbt_in import PsbtIn

    MAX_SATS = 21 * 10**14
    COIN = 10**8
    plans = [([15 * 10**6 * COIN, 15 * 10**6 * COIN], [12 * 10**6 * COIN]), ([MAX_SATS, COIN // 100], [MAX_SATS - COIN // 10000]),
             ([MAX_SATS, MAX_SATS], [1000]), ([20 * 10**6 * COIN] * 2, [20 * 10**6 * COIN, 20 * 10**6 * COIN - 10**6]),
             ([MAX_SATS, MAX_SATS, MAX_SATS], [MAX_SATS, MAX_SATS]), ([MAX_SATS // 2 + 1] * 2, [MAX_SATS // 2]), ([MAX_SATS // 2] * 2, [MAX_SATS // 2]),
             ([11 * 10**6 * COIN] * 2, [1 * 10**6 * COIN, 10 * 10**6 * COIN])]
    for values, pays in plans:
        for change in (change_scripts[0], change_scripts[1], None):
            for rate in (FeeRate(sats_per_kvbyte=1000), FeeRate(sats_per_kvbyte=0), FeeRate(sats_per_kvbyte=10**6)):
                ins = [PsbtIn(witness_utxo=TxOut(v, ScriptPubKey(b"\x00\x14" + bytes([40 + j]) * 20)), previous_tx_id=bytes([j + 1]) * 32, output_index=j)
                       for j, v in enumerate(values)]
                outs = [TxOut(v, ScriptPubKey(b"\x00\x14" + bytes([80 + j]) * 20)) for j, v in enumerate(pays)]
                o = outcome(build_psbt, ins, outs, rate, change)
                case = {"input_values": values, "payments": pays, "change_script": change.hex() if change else None, "rate_sat_per_kvB": rate.sats_per_kvbyte}
                ctx.mon("funded-psbt-money-range")
                ctx.case("funding:inputs-above-the-money-supply", ("range", tuple(values), tuple(pays), change, rate.sats_per_kvbyte))
                if o[0] == "raise":
                    if not is_lib_exc(o[1]):
                        ctx.violation(f"build_psbt:foreign-exception:{type(o[1]).__name__}@{tb_origin(o[1])}", f"build_psbt raised {o[1]!r}", case)
                    ctx.stats["funding:range-refused"] += 1
                    continue
                amounts = [x.amount for x in o[1].psbt.outputs]
                case.update({"out_values": amounts, "fee": o[1].fee})
                if any(not 0 <= a <= MAX_SATS for a in amounts) or sum(amounts) > MAX_SATS:
                    ctx.violation("funded-psbt-outputs-outside-the-money-range",
                                  f"build_psbt answered outputs {amounts}: total {sum(amounts)} against the {MAX_SATS} there can be", case)
                elif sum(values) != sum(amounts) + o[1].fee:
                    ctx.violation("funded-psbt-does-not-conserve-value", f"inputs {sum(values)} != outputs {sum(amounts)} + fee {o[1].fee}", case)
                else:
                    ctx.stats["funding:range-accepted-within-range"] += 1
    reach.stop()
    reach.report(ctx)


# ======================================================== fees and amounts
def shard_fees(ctx: Ctx) -> None:
    from btclib import amount as am
    from btclib.fee import FeeRate, dust_threshold, fee_from_vsize, package_fee

    reach = _reach()
    r = ctx.rng
    rates = [0, 1, 2, 999, 1000, 1001, 1999, 3000, 12_345, 10**6, 10**9]
    vsizes = [0, 1, 2, 3, 109, 110, 111, 141, 999, 1000, 1001, 100_000, 999_999, 4_000_000]
    n = ctx.params["cases"]
    for it in range(n):
        if ctx.out_of_time():
            break
        k = it % 6
        if k == 0:
            rate, vs = r.choice(rates + [r.randrange(10**7)]), r.choice(vsizes + [r.randrange(10**6)])
            fr = outcome(lambda: FeeRate(sats_per_kvbyte=rate))
            if fr[0] == "raise":
                continue
            o = outcome(fee_from_vsize, vs, fr[1])
            want = math.ceil(Fraction(rate * vs, 1000))
            if o[0] == "raise" or o[1] != want:
                ctx.violation("fee-from-vsize-not-ceil", f"fee_from_vsize({vs}, {rate} sat/kvB) -> {o[1]!r}, ceil = {want}", {"vsize": vs, "rate": rate})
            ctx.case("fees:fee_from_vsize", ("f", rate, vs))
            ctx.stats["fees:fee_from_vsize"] += 1
        elif k == 1:
            rate, vs, avs = r.choice(rates), r.choice(vsizes), r.choice(vsizes)
            af = r.choice([0, 1, 100, 10**6, math.ceil(Fraction(rate * avs, 1000)), math.ceil(Fraction(rate * avs, 1000)) + r.choice([-1, 1, 500])])
            af = max(0, af)
            fr = FeeRate(sats_per_kvbyte=rate)
            o = outcome(package_fee, vs, fr, ancestor_vsize=avs, ancestor_fee=af)
            want = max(math.ceil(Fraction(rate * vs, 1000)), math.ceil(Fraction(rate * (vs + avs), 1000)) - af)
            if o[0] == "raise" or o[1] != want:
                ctx.violation("package-fee-wrong", f"package_fee({vs},{rate},anc {avs}/{af}) -> {o[1]!r}, expected {want}", {"vsize": vs, "rate": rate, "avs": avs, "af": af})
            ctx.case("fees:package_fee", ("p", rate, vs, avs, af))
            ctx.stats["fees:package_fee"] += 1
        elif k == 2:
            n_spk = r.choice([0, 1, 22, 23, 25, 34, 35, 252, 253, 10000, 10001])
            first = r.choice([0x00, 0x51, 0x76, 0xA9, 0x6A, 0x60])
            spk = (bytes([first]) + bytes([n_spk - 2 if 2 <= n_spk - 2 <= 75 else 0x14]) + bytes(max(0, n_spk - 2)))[:n_spk] if n_spk else b""
            rate = r.choice([0, 1, 1000, 3000, 3001, 10**5])
            o = outcome(dust_threshold, spk, FeeRate(sats_per_kvbyte=rate))
            if o[0] == "raise":
                if not is_lib_exc(o[1]):
                    ctx.violation(f"dust_threshold:foreign-exception:{type(o[1]).__name__}", f"{o[1]!r}", {"spk": spk})
                continue
            if spk[:1] == b"\x6a" or len(spk) > 10000:
                want = 0
            else:
                size = 8 + (1 if len(spk) < 253 else 3) + len(spk)
                witness = len(spk) >= 4 and len(spk) <= 42 and (spk[0] == 0 or 0x51 <= spk[0] <= 0x60) and spk[1] == len(spk) - 2
                size += (32 + 4 + 1 + 107 // 4 + 4) if witness else (32 + 4 + 1 + 107 + 4)
                want = math.ceil(Fraction(rate * size, 1000))
            if o[1] != want:
                ctx.violation("dust-threshold-differs-from-core-formula", f"dust_threshold({spk[:6].hex()}.. len {len(spk)}, {rate}) = {o[1]}, GetDustThreshold gives {want}",
                              {"spk_len": len(spk), "first": first, "rate": rate})
            ctx.case("fees:dust_threshold", ("d", spk, rate))
            ctx.stats["fees:dust_threshold"] += 1
        elif k == 3:
            v = r.choice([0, 1, -1, MAX_SATS, MAX_SATS + 1, MAX_SATS - 1, 2**63, r.randrange(MAX_SATS), True, 1.0, 1.5, "1", None, Decimal(1), float("nan")])
            o = outcome(am.valid_sats_amount, v)
            # exact and in range: an integer, or a float/Decimal holding an integral value (documented: None reads as 0)
            try:
                fv = None if isinstance(v, (bool, str)) else (Fraction(0) if v is None else Fraction(v))
            except (ValueError, TypeError, OverflowError):
                fv = None
            good = fv is not None and fv.denominator == 1 and 0 <= fv <= MAX_SATS
            v_int = int(fv) if good else None
            if good and (o[0] == "raise" or o[1] != v_int or type(o[1]) is not int):
                ctx.violation("valid-sats-refuses-or-alters-a-valid-amount", f"valid_sats_amount({v!r}) -> {o[1]!r}", {"v": repr(v)})
            if not good:
                if o[0] == "ok":
                    ctx.violation("valid-sats-answers-an-out-of-range-or-inexact-amount", f"valid_sats_amount({v!r}) -> {o[1]!r}", {"v": repr(v)})
                elif not is_lib_exc(o[1]):
                    ctx.violation(f"amount:foreign-exception:{type(o[1]).__name__}", f"valid_sats_amount({v!r}) raised {o[1]!r}", {"v": repr(v)})
                ctx.stats["amount:refused"] += 1
            if good and isinstance(v, int):
                b = outcome(am.btc_from_sats, v)
                if b[0] == "raise" or b[1] != Decimal(v) / Decimal(10**8) or outcome(am.sats_from_btc, b[1]) != ("ok", v):
                    ctx.violation("sats-btc-conversion-inexact", f"btc_from_sats({v}) -> {b[1]!r}", {"v": v})
            ctx.case("amount:sats", ("s", repr(v)))
            ctx.stats["amount:sats"] += 1
        elif k == 4:
            digits = r.choice(["0", "1", "0.00000001", "0.000000001", "20999999.99999999", "21000000", "21000000.00000001", "-0.00000001", "1e-8", "1e-9",
                               "0.1", "0.123456789", "NaN", "Infinity", "1.00000000000000000000000001", "2.100000000E+7", str(r.randrange(MAX_SATS)) + "e-8"])
            d = Decimal(digits)
            o = outcome(am.valid_btc_amount, d)
            exact = d.is_finite() and (d * 10**8) == (d * 10**8).to_integral_value() and 0 <= d * 10**8 <= MAX_SATS
            if exact:
                if o[0] == "raise":
                    ctx.violation("valid-btc-refuses-an-exact-in-range-amount", f"valid_btc_amount({digits}) raised {o[1]}", {"d": digits})
                else:
                    so = outcome(am.sats_from_btc, d)
                    if so != ("ok", int(d * 10**8)):
                        ctx.violation("sats-btc-conversion-inexact", f"sats_from_btc({digits}) -> {so[1]!r}", {"d": digits})
            else:
                so = outcome(am.sats_from_btc, d)
                if o[0] == "ok" and so[0] == "ok":
                    ctx.violation("btc-amount-inexact-or-out-of-range-answered", f"valid_btc_amount / sats_from_btc({digits}) -> {so[1]!r}", {"d": digits})
                for oo in (o, so):
                    if oo[0] == "raise" and not is_lib_exc(oo[1]):
                        ctx.violation(f"amount:foreign-exception:{type(oo[1]).__name__}", f"{digits}: {oo[1]!r}", {"d": digits})
                ctx.stats["amount:refused"] += 1
            ctx.case("amount:btc", ("b", digits))
            ctx.stats["amount:btc"] += 1
        else:
            # fee-rate unit conversions are exact or refused
            txt = r.choice(["1", "1.001", "0.999", "0.0005", "2.5", "1e-3", "1e-4", "123.456", "0", "-1", "NaN", "1000000"])
            o = outcome(FeeRate.from_sats_per_vbyte, Decimal(txt))
            d = Decimal(txt)
            exact = d.is_finite() and d >= 0 and (d * 1000) == (d * 1000).to_integral_value()
            if exact and (o[0] == "raise" or o[1].sats_per_kvbyte != int(d * 1000)):
                ctx.violation("fee-rate-conversion-inexact", f"from_sats_per_vbyte({txt}) -> {o[1]!r}", {"txt": txt})
            if not exact and o[0] == "ok":
                ctx.violation("fee-rate-inexact-value-answered", f"from_sats_per_vbyte({txt}) -> {o[1].sats_per_kvbyte}", {"txt": txt})
            if o[0] == "ok" and o[1].sats_per_vbyte * 1000 != o[1].sats_per_kvbyte:
                ctx.violation("fee-rate-conversion-inexact", f"sats_per_vbyte property {o[1].sats_per_vbyte} vs {o[1].sats_per_kvbyte}/1000", {"txt": txt})
            ctx.case("fees:rate-conversion", ("r", txt))

    # ---- the caller's decimal context is not an argument: with fewer digits than an amount has, a conversion may be
    # refused (any exception) but never answered inexactly. The truth is integer arithmetic on the digits.
    import decimal
    from btclib.tx import TxOut

    texts = ["0.00000001", "1.00000001", "12.34567891", "1234.56789012", "20999999.99999999", "21000000", "0.12345678", "99999.99999999",
             "1000000.00000001", "7", "0.5"] + [f"{r.randrange(MAX_SATS) / 10**8:.8f}" for _ in range(12)]
    for prec in (28, 20, 16, 15, 12, 9, 8, 6, 4):
        for txt in texts:
            whole, _, frac = txt.partition(".")
            want = int(whole) * 10**8 + int((frac + "0" * 8)[:8])
            with decimal.localcontext() as dctx:
                dctx.prec = prec
                d = Decimal(txt)
                calls = [("sats_from_btc", lambda: am.sats_from_btc(d)), ("TxOut.from_dict", lambda: TxOut.from_dict({"value": txt, "scriptPubKey": "51"}).value),
                         ("sats_from_btc(str)", lambda: am.sats_from_btc(txt)),
                         ("btc_from_sats", lambda: int(Fraction(am.btc_from_sats(want)) * 10**8))]
                for name, call in calls:
                    o = outcome(call)
                    ctx.case("amount:decimal-context", ("ctx", prec, txt, name))
                    ctx.stats["amount:decimal-context"] += 1
                    if o[0] == "ok" and o[1] != want:
                        ctx.violation(f"sats-btc-conversion-inexact:decimal-context:{name}",
                                      f"{name}({txt}) under decimal precision {prec} -> {o[1]!r}, the digits say {want}", {"text": txt, "prec": prec})
                    elif o[0] == "raise":
                        ctx.stats["amount:decimal-context:refused"] += 1
        # the fee-rate unit conversions read digits too: sat/vB with three decimals, BTC/kvB with eight
        for txt in ["1.001", "0.001", "123456.789", "99999.999", "12345678.912", "1000000.001", "2.5", "17"] + \
                [f"{r.randrange(10**11) / 1000:.3f}" for _ in range(6)]:
            whole, _, frac = txt.partition(".")
            want = int(whole) * 1000 + int((frac + "000")[:3])
            with decimal.localcontext() as dctx:
                dctx.prec = prec
                d = Decimal(txt)
                btc = f"{want // 10**8}.{want % 10**8:08d}"
                calls = [("from_sats_per_vbyte", lambda: FeeRate.from_sats_per_vbyte(d).sats_per_kvbyte),
                         ("from_sats_per_vbyte(str)", lambda: FeeRate.from_sats_per_vbyte(txt).sats_per_kvbyte),
                         ("from_btc_per_kvbyte(str)", lambda: FeeRate.from_btc_per_kvbyte(btc).sats_per_kvbyte),
                         ("sats_per_vbyte", lambda: int(Fraction(FeeRate(sats_per_kvbyte=want).sats_per_vbyte) * 1000))]
                for name, call in calls:
                    o = outcome(call)
                    ctx.case("fees:decimal-context", ("fctx", prec, txt, name))
                    ctx.stats["fees:decimal-context"] += 1
                    if o[0] == "ok" and o[1] != want:
                        ctx.violation(f"fee-rate-conversion-inexact:decimal-context:{name}",
                                      f"{name}({txt}) under decimal precision {prec} -> {o[1]!r}, the digits say {want}", {"text": txt, "prec": prec})
                    elif o[0] == "raise":
                        ctx.stats["fees:decimal-context:refused"] += 1
    reach.stop()
    reach.report(ctx)
