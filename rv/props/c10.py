"""C10 - what the library builds and signs its own engine accepts; tampering is rejected.

Monitors on real end-to-end executions (descriptor -> PSBT -> SoftwareSigner / psbt.sign ->
finalize -> extract): the library's engine under the standard flags AND the independent
Core model (rv.ref.core) must accept the extracted transaction; after every single-field
edit of the finished transaction that some signature's hash type commits to, both must
reject; uncommitted edits are checked for engine == Core model only.  Message signatures
(BIP322, BMS, KeyWallet.sign) must verify for their own address and for no other.
"""

from __future__ import annotations

from ..ctx import Ctx, is_lib_exc, outcome, tb_origin
from ..hooks import Reach, backend_available, set_backend

PROPERTY = "C10"
RULE = (
    "flows: random key trees x descriptor shapes (22 shapes: pkh, wpkh, sh-wpkh, bare/sh/wsh/sh-wsh multi and sortedmulti, tr key path, "
    "tr script path with pk / multi_a / sortedmulti_a / miniscript leaves, wsh miniscript) x 1..6 mixed inputs x per-input sighash type x "
    "PSBT v0/v2 x lock time and sequence classes x two signer entry points; each finished transaction is then edited one field at a "
    "time. Distinct = distinct (finished transaction bytes, edit). A flow is non-trivial when it reached extraction."
)
ASSUMPTIONS = [
    "rv/ref/core.py as second oracle (validated on Core's vectors by the C08 self-test) so that a digest shared and wrong in signer and engine cannot hide",
    "the table of what each hash type commits to is BIP143/BIP341's and the legacy algorithm's, written out in rv/props/c10.py",
]

MECH = ["btclib.psbt.psbt:sign", "btclib.psbt.psbt:finalize", "btclib.psbt.psbt:extract_tx", "btclib.psbt.psbt:_finalized_input",
        "btclib.psbt.psbt:_finalized_taproot_input", "btclib.psbt.psbt:_sign_taproot_key_path", "btclib.psbt.psbt:_sign_taproot_script_path",
        "btclib.psbt.psbt:_sign_ecdsa_input", "btclib.psbt.psbt:_bip147_dummy", "btclib.descriptors.descriptors:miniscript_solver",
        "btclib.psbt_signer:SoftwareSigner.sign_psbt", "btclib.psbt_signer:request_signatures", "btclib.script.engine:verify_transaction",
        "btclib.bip322:sign", "btclib.bip322:assert_as_valid", "btclib.ecc.bms:sign"]


def plan(tier: str, seed: int) -> list[dict]:
    q = tier == "quick"
    specs = []
    for i in range(10 if q else 14):
        specs.append({"name": f"flows-{i}", "fn": "shard_flows", "flows": 45 if q else 1500, "part": i,
                      "_budget_s": 150 if q else 1000, "_timeout_s": 600 if q else 2400})
    for i in range(2):
        specs.append({"name": f"messages-{i}", "fn": "shard_messages", "cases": 120 if q else 2500,
                      "_budget_s": 150 if q else 900, "_timeout_s": 600 if q else 2400})
    return specs


def finalize(m: dict, tier: str) -> list[str]:
    from ..gen.flows import LEGACY_SIGHASH, SHAPES, TAPROOT_SIGHASH

    out = []
    s, r = m["stats"], m["reached"]
    for shape in SHAPES:
        if not s.get(f"completed:{shape}"):
            out.append(f"descriptor shape {shape} never completed a flow")
    for ht in LEGACY_SIGHASH:
        if not s.get(f"sighash:ecdsa:{ht}"):
            out.append(f"ECDSA hash type {ht:#x} never completed a flow")
        if not s.get(f"tamper:committed:ecdsa:{ht}") or (ht != 1 and not s.get(f"tamper:uncommitted:ecdsa:{ht}")):
            out.append(f"tamper table never produced a committed and an uncommitted edit for ECDSA hash type {ht:#x}")
    for ht in TAPROOT_SIGHASH:
        if not s.get(f"sighash:taproot:{ht}"):
            out.append(f"taproot hash type {ht:#x} never completed a flow")
    for k in ("psbt-v0", "psbt-v2", "signer:software", "signer:psbt.sign", "message:bip322:p2pkh", "message:bip322:p2wpkh",
              "message:bip322:p2sh-p2wpkh", "message:bip322:p2tr", "message:bms", "message:keywallet", "message:foreign-refused",
              "message:bip322-psbt:recognized", "message:bip322-psbt:tampered-refused"):
        if not s.get(k):
            out.append(f"{k} never exercised")
    for f in ("sign", "finalize", "extract_tx", "_finalized_taproot_input", "miniscript_solver", "verify_transaction"):
        if not r.get(f):
            out.append(f"mechanism {f} never entered")
    if not m["monitors"].get("M3:Tx.serialize") or not any(k.startswith("M1:") for k in m["monitors"]):
        out.append("the M1/M3 invariant hooks were never evaluated inside a flow")
    return out


# --------------------------------------------------------------- verdicts
def lib_verdict(prevouts, tx):
    from btclib.script.engine import verify_transaction

    o = outcome(verify_transaction, prevouts, tx)
    if o[0] == "ok":
        return "OK", None
    return ("REJ" if is_lib_exc(o[1]) else "EXC"), o[1]


def base_type(ht, taproot):
    if ht is None:
        return 1
    if taproot and ht == 0:
        return 1
    return ht & 3 if (ht & 3) in (1, 2, 3) else 1


def acp(ht):
    return bool(ht is not None and ht & 0x80)


def shard_flows(ctx: Ctx) -> None:  # noqa: C901, PLR0912, PLR0915
    from btclib.script import ScriptPubKey
    from btclib.tx import OutPoint, Tx, TxIn, TxOut

    from ..gen.flows import SHAPES, FlowGen, core_verdicts

    reach = Reach()
    for d in MECH:
        reach.watch_path(d)
    reach.start()
    from ..monitors import arm_m1, arm_m3
    arm_m1(ctx)      # low-level invariants checked inside the high-level flows (Section 2.2 B)
    arm_m3(ctx)
    r = ctx.rng
    g = FlowGen(r, label=f"c10:{ctx.seed}:{ctx.shard}")
    names = list(SHAPES)
    for it in range(ctx.params["flows"]):
        if ctx.out_of_time():
            break
        if backend_available():
            set_backend(it % 5 != 4)
        # every shape gets its turn as the first input; the others are random
        first = names[(it + ctx.params["part"] * 7) % len(names)]
        n_in = r.choice([1, 1, 2, 3, 4, 6])
        shapes = [first] + [r.choice(names) for _ in range(n_in - 1)]
        how = ("software", "psbt.sign")[it % 2]
        desc = {"shapes": shapes, "signer": how}
        try:
            fl = g.build(shapes, sighash_first=(it + ctx.params["part"]) if it % 2 == 0 else None)
            desc.update({"psbt_version": fl.psbt_version, "sighash": fl.sighash})
            g.sign(fl, how)
            g.finish(fl)
        except Exception as e:  # noqa: BLE001
            if is_lib_exc(e):
                ctx.violation(f"flow-refused:{shapes[0] if len(shapes) == 1 else 'mixed'}:{_norm(str(e))}",
                              f"the library refused its own flow {shapes}: {e}", desc)
            else:
                ctx.violation(f"flow-foreign-exception:{type(e).__name__}@{tb_origin(e)}", f"flow {shapes} raised {e!r}", desc)
            ctx.case("flow:failed", (tuple(shapes), it, ctx.shard), nontrivial=False)
            continue
        desc["tx"] = fl.tx.serialize(include_witness=True).hex()
        desc["prevouts"] = [[p.value, p.script_pub_key.script.hex()] for p in fl.prevouts]
        v, exc = lib_verdict(fl.prevouts, fl.tx)
        cv = core_verdicts(fl.tx, fl.prevouts)
        ctx.mon("engine-accepts-own-transaction")
        if v != "OK":
            ctx.violation(f"own-transaction-rejected-by-engine:{_norm(str(exc))}", f"built+signed {shapes} rejected by verify_transaction: {exc}", desc)
        if any(x != "OK" for x in cv):
            bad = [(k, x) for k, x in enumerate(cv) if x != "OK"]
            ctx.violation(f"own-transaction-rejected-by-core-model:{bad[0][1]}:{shapes[bad[0][0]]}",
                          f"built+signed {shapes}: Core model rejects input(s) {bad}", desc)
        ctx.case("flow:completed", fl.tx.serialize(include_witness=True), sample=desc)
        for shp in set(shapes):
            ctx.stats[f"completed:{shp}"] += 1
        ctx.stats[f"psbt-v{fl.psbt_version}"] += 1
        ctx.stats[f"signer:{how}"] += 1
        ctx.stats[f"inputs:{len(shapes)}"] += 1
        taproot = [SHAPES[s][2] for s in shapes]
        legacy = [SHAPES[s][1] for s in shapes]
        eff = [(0 if t else 1) if h is None else h for h, t in zip(fl.sighash, taproot)]
        for h, t in zip(eff, taproot):
            ctx.stats[f"sighash:{'taproot' if t else 'ecdsa'}:{h}"] += 1
        if v != "OK" or any(x != "OK" for x in cv):
            continue

        # ------------------------------------------------------------ tamper half
        tx = fl.tx
        n_out = len(tx.vout)
        bases = [base_type(h, t) for h, t in zip(fl.sighash, taproot)]
        acps = [acp(h) for h in fl.sighash]

        def rebuilt(version=None, lock=None, vin=None, vout=None):
            return Tx(tx.version if version is None else version, tx.lock_time if lock is None else lock,
                      list(tx.vin) if vin is None else vin, list(tx.vout) if vout is None else vout, check_validity=False)

        def with_seq(k, seq):
            vin = list(tx.vin)
            i = vin[k]
            vin[k] = TxIn(i.prev_out, i.script_sig, seq, i.script_witness, check_validity=False)
            return rebuilt(vin=vin)

        def with_prevout(k, txid=None, n=None):
            vin = list(tx.vin)
            i = vin[k]
            op = OutPoint(i.prev_out.tx_id if txid is None else txid, i.prev_out.vout if n is None else n, check_validity=False)
            vin[k] = TxIn(op, i.script_sig, i.sequence, i.script_witness, check_validity=False)
            return rebuilt(vin=vin)

        def out_committed(j):
            return any(b == 1 or (b == 3 and i == j) for i, b in enumerate(bases))

        edits = []   # (tag, tampered tx, tampered prevouts, committed?, hash-type key for the statistics)
        for j in range(n_out):
            o = tx.vout[j]
            vo = list(tx.vout)
            vo[j] = TxOut(o.value - 1, o.script_pub_key, check_validity=False)
            edits.append((f"output-amount", rebuilt(vout=vo), fl.prevouts, out_committed(j)))
            vo = list(tx.vout)
            sc = bytearray(o.script_pub_key.script)
            sc[-1] ^= 1
            vo[j] = TxOut(o.value, ScriptPubKey(bytes(sc), check_validity=False), check_validity=False)
            edits.append((f"output-script", rebuilt(vout=vo), fl.prevouts, out_committed(j)))
        any_all = any(b == 1 for b in bases)
        edits.append(("output-appended", rebuilt(vout=list(tx.vout) + [TxOut(0, ScriptPubKey(b"\x6a", check_validity=False), check_validity=False)]),
                      fl.prevouts, any_all))
        if n_out > 1:
            edits.append(("output-removed", rebuilt(vout=list(tx.vout)[:-1]), fl.prevouts, any_all or any(b == 3 and i == n_out - 1 for i, b in enumerate(bases))))
        edits.append(("lock-time", rebuilt(lock=tx.lock_time + 1), fl.prevouts, True))
        edits.append(("version", rebuilt(version=tx.version + 1), fl.prevouts, True))
        for k in range(len(tx.vin)):
            edits.append(("sequence", with_seq(k, tx.vin[k].sequence ^ 1), fl.prevouts, True))
            edits.append(("prevout-index", with_prevout(k, n=tx.vin[k].prev_out.vout + 1), fl.prevouts, True))
            tid = bytearray(tx.vin[k].prev_out.tx_id)
            tid[0] ^= 1
            edits.append(("prevout-txid", with_prevout(k, txid=bytes(tid)), fl.prevouts, True))
            # the spent output: amount (+1, so that the fee check is not what refuses) and script
            p = fl.prevouts[k]
            po = list(fl.prevouts)
            po[k] = TxOut(p.value + 1, p.script_pub_key, check_validity=False)
            amount_committed = (not legacy[k]) or any(t and not a for t, a in zip(taproot, acps))
            edits.append(("spent-amount", tx, po, amount_committed))
            sc = bytearray(p.script_pub_key.script)
            sc[-1] ^= 1
            po = list(fl.prevouts)
            po[k] = TxOut(p.value, ScriptPubKey(bytes(sc), check_validity=False), check_validity=False)
            edits.append(("spent-script", tx, po, True))
        # keep the cost bounded on wide transactions
        if len(edits) > 40:
            edits = r.sample(edits, 40)
        for tag, ttx, tprev, committed in edits:
            tv, texc = lib_verdict(tprev, ttx)
            tcv = core_verdicts(ttx, tprev)
            core_ok = all(x == "OK" for x in tcv)
            d = {**desc, "edit": tag, "tampered_tx": ttx.serialize(include_witness=True).hex(),
                 "tampered_prevouts": [[p.value, p.script_pub_key.script.hex()] for p in tprev], "core_model": tcv,
                 "engine": tv if texc is None else f"{tv}: {str(texc)[:100]}"}
            ctx.mon("tamper")
            if tv == "EXC":
                ctx.violation(f"tamper:foreign-exception:{type(texc).__name__}@{tb_origin(texc)}", f"verify_transaction raised {texc!r} on an edited transaction", d)
            elif committed and tv == "OK":
                ctx.violation(f"tampered-transaction-accepted:{tag}", f"{tag} edited after signing (committed to by a signature, hash types {eff}) and the engine still accepts", d)
            elif committed and core_ok:
                ctx.inconclusive_(f"tamper table says {tag} is committed (hash types {eff}, shapes {shapes}) but the Core model accepts: table or model wrong")
            elif (tv == "OK") != core_ok:
                ctx.violation(f"tamper:engine-differs-from-core-model:{tag}:{'engine-accepts' if tv == 'OK' else 'engine-rejects'}",
                              f"{tag} (uncommitted): engine {tv}, Core model {tcv}", d)
            ctx.case(f"tamper:{tag}", (ttx.serialize(include_witness=True), tuple((p.value, p.script_pub_key.script) for p in tprev)))
            for h, t in zip(eff, taproot):
                ctx.stats[f"tamper:{'committed' if committed else 'uncommitted'}:{'taproot' if t else 'ecdsa'}:{h}"] += 1
            if not committed and tv == "OK":
                ctx.stats["tamper:uncommitted-edit-still-accepted"] += 1
    if backend_available():
        set_backend(True)
    reach.stop()
    reach.report(ctx)


def _norm(msg: str) -> str:
    import re

    return re.sub(r"\s+", " ", re.sub(r"0x[0-9a-fA-F]+|\b[0-9a-fA-F]{8,}\b|\d+", "#", msg)).strip()[:60]


# ----------------------------------------------------------------- messages
def shard_messages(ctx: Ctx) -> None:
    from btclib import b32, b58, bip322
    from btclib.curves.curve import mult
    from btclib.curves.sec_point import bytes_from_point
    from btclib.ecc import bms
    from btclib.wallet.key_wallet import KeyWallet

    reach = Reach()
    for d in MECH:
        reach.watch_path(d)
    reach.start()
    r = ctx.rng
    N = 0xFFFFFFFFFFFFFFFFFFFFFFFFFFFFFFFEBAAEDCE6AF48A03BBFD25E8CD0364141
    for it in range(ctx.params["cases"]):
        if ctx.out_of_time():
            break
        if backend_available():
            set_backend(it % 3 != 2)
        k1, k2 = r.randrange(1, N), r.randrange(1, N)
        net = r.choice(["mainnet", "mainnet", "testnet", "regtest", "signet"])
        wif1, wif2 = b58.wif_from_prv_key(k1, net, True), b58.wif_from_prv_key(k2, net, True)
        P1, P2 = bytes_from_point(mult(k1)), bytes_from_point(mult(k2))

        def addrs(Pk):
            from btclib.script import taproot
            from btclib.script.script_pub_key import ScriptPubKey
            xq, _ = taproot.output_pubkey(Pk)
            return {"p2pkh": b58.p2pkh(Pk, net), "p2wpkh": b32.p2wpkh(Pk, net), "p2sh-p2wpkh": b58.p2wpkh_p2sh(Pk, net),
                    "p2tr": b32.p2tr(xq, net)}
        ao = outcome(addrs, P1)
        bo = outcome(addrs, P2)
        if ao[0] == "raise" or bo[0] == "raise":
            ctx.stat(f"message:address-setup-failed:{type((ao if ao[0] == 'raise' else bo)[1]).__name__}")
            continue
        a1, a2 = ao[1], bo[1]
        msg = bytes(r.randrange(256) for _ in range(r.choice([0, 1, 32, 80]))) if r.random() < 0.5 else r.choice(["", "Hello World", "ü"]).encode()
        # ---- BIP322
        for kind, addr in a1.items():
            so = outcome(bip322.sign, msg, wif1, addr)
            case = {"scheme": "bip322", "kind": kind, "address": addr, "msg": msg.hex(), "network": net}
            if so[0] == "raise":
                if is_lib_exc(so[1]):
                    ctx.violation(f"bip322-sign-refused:{kind}", f"bip322.sign refused its own key's {kind} address: {so[1]}", case)
                else:
                    ctx.violation(f"bip322:foreign-exception:{type(so[1]).__name__}", f"bip322.sign raised {so[1]!r}", case)
                continue
            sig = so[1]
            for form in (sig, sig.b64encode() if hasattr(sig, "b64encode") else sig):
                vo = outcome(bip322.verify, msg, addr, form)
                if vo != ("ok", True):
                    ctx.violation(f"bip322-own-signature-does-not-verify:{kind}", f"bip322.verify -> {vo[1]!r} for the address it was made for", case)
            ctx.stats[f"message:bip322:{kind}"] += 1
            ctx.case(f"bip322:{kind}", ("bip322", kind, addr, msg))
            # other key's address (same type), other message, other type of the same key
            for tag, m2, ad2 in (("other-key", msg, a2[kind]), ("other-message", msg + b"x", addr),
                                 ("other-type", msg, a1[r.choice([k for k in a1 if k != kind])])):
                vo = outcome(bip322.verify, m2, ad2, sig)
                if vo[0] == "raise":
                    ctx.violation(f"bip322-verify-raised:{type(vo[1]).__name__}", f"bip322.verify raised {vo[1]!r} ({tag})", case)
                elif vo[1] is True:
                    ctx.violation(f"bip322-signature-verifies-for-{tag}", f"a {kind} signature verifies for {tag}", {**case, "other": ad2})
                else:
                    ctx.stats["message:foreign-refused"] += 1
        # ---- BIP322 as a psbt (the Creator's to_sign_psbt and the Signer's reading of it): the psbt made for (msg, addr) is
        # recognized as the challenge of msg, before and after the wire; one carrying another message, or the utxo of another
        # key's challenge, is not recognized as anything
        if hasattr(bip322, "to_sign_psbt") and hasattr(bip322, "assert_signed_message"):
            from copy import deepcopy

            from btclib.psbt.psbt import Psbt
            for kind, addr in a1.items():
                case = {"scheme": "bip322-psbt", "kind": kind, "address": addr, "msg": msg.hex(), "network": net}
                po = outcome(bip322.to_sign_psbt, msg, addr)
                if po[0] == "raise":
                    if not is_lib_exc(po[1]):
                        ctx.violation(f"bip322:foreign-exception:{type(po[1]).__name__}", f"to_sign_psbt raised {po[1]!r}", case)
                    else:
                        ctx.stat("message:bip322-psbt:creator-refused")
                    continue
                p = po[1]
                ctx.mon("bip322-psbt-recognition")
                wire = outcome(lambda: Psbt.parse(p.serialize()))
                for tag, q in (("as-built", p),) + ((("after-the-wire", wire[1]),) if wire[0] == "ok" else ()):
                    ro, r1 = outcome(bip322.assert_signed_message, q), outcome(bip322.signed_message, q)
                    if ro != ("ok", msg) or r1 != ("ok", msg):
                        ctx.violation(f"bip322-psbt-own-challenge-not-recognized:{tag}", f"to_sign_psbt({kind}) {tag}: assert_signed_message -> {ro[1]!r}, "
                                      f"signed_message -> {r1[1]!r}", case)
                if wire[0] == "raise":
                    ctx.violation("bip322-psbt-own-challenge-not-recognized:does-not-serialize", f"to_sign_psbt({kind}) does not survive the wire: {wire[1]!r}", case)
                ctx.stats["message:bip322-psbt:recognized"] += 1
                tampers = []
                t = deepcopy(p); t.signed_message = msg + b"x"; tampers.append(("other-message", t))
                t = deepcopy(p); t.signed_message = msg[:-1] if msg else b"\x00"; tampers.append(("other-message-shorter", t))
                oo = outcome(bip322.to_sign_psbt, msg, a2[kind])
                if oo[0] == "ok":
                    t = deepcopy(p); t.inputs[0].non_witness_utxo = oo[1].inputs[0].non_witness_utxo; tampers.append(("other-key-utxo", t))
                    t = deepcopy(oo[1]); t.signed_message = msg + b"y"; tampers.append(("other-key-other-message", t))
                for tag, t in tampers:
                    ro, r1 = outcome(bip322.assert_signed_message, t), outcome(bip322.signed_message, t)
                    ctx.mon("bip322-psbt-tampered")
                    if ro[0] == "ok" or (r1[0] == "ok" and r1[1] is not None):
                        ctx.violation(f"bip322-psbt-tampered-challenge-recognized:{tag}", f"a to_sign psbt with {tag} is read as signing "
                                      f"{(ro[1] if ro[0] == 'ok' else r1[1])!r}", {**case, "psbt": t.serialize(check_validity=False).hex()[:2000]})
                    elif not is_lib_exc(ro[1]) or r1[0] == "raise":
                        bad = ro[1] if not is_lib_exc(ro[1]) else r1[1]
                        ctx.violation(f"bip322:foreign-exception:{type(bad).__name__}", f"{tag}: {bad!r}", case)
                    else:
                        ctx.stats["message:bip322-psbt:tampered-refused"] += 1
                ctx.case(f"bip322-psbt:{kind}", ("bip322-psbt", kind, addr, msg))
        # ---- BMS and the KeyWallet on top of it
        for kind in ("p2pkh", "p2wpkh", "p2sh-p2wpkh"):
            addr = a1[kind]
            so = outcome(bms.sign, msg, wif1, addr)
            case = {"scheme": "bms", "kind": kind, "address": addr, "msg": msg.hex(), "network": net}
            if so[0] == "raise":
                if net == "regtest" and kind != "p2pkh" and is_lib_exc(so[1]):
                    ctx.stat("message:bms-regtest-bech32-refused")   # a WIF cannot say regtest: nothing is signed, nothing is judged
                    continue
                ctx.violation(f"bms-sign-refused:{kind}" if is_lib_exc(so[1]) else f"bms:foreign-exception:{type(so[1]).__name__}",
                              f"bms.sign: {so[1]!r}", case)
                continue
            vo = outcome(bms.verify, msg, addr, so[1])
            if vo != ("ok", True):
                ctx.violation(f"bms-own-signature-does-not-verify:{kind}", f"bms.verify -> {vo[1]!r}", case)
            vo = outcome(bms.verify, msg, a2[kind], so[1])
            if vo[0] == "raise" or vo[1] is True:
                ctx.violation("bms-signature-verifies-for-other-key", f"bms.verify -> {vo[1]!r} for another key's address", case)
            else:
                ctx.stats["message:foreign-refused"] += 1
            ctx.stats["message:bms"] += 1
            ctx.case(f"bms:{kind}", ("bms", kind, addr, msg))
        st = r.choice(["p2pkh", "p2wpkh", "p2wpkh-p2sh"])
        wo = outcome(KeyWallet, [wif1], st, net)
        if wo[0] == "ok" and wo[1].addresses:
            w = wo[1]
            addr = w.addresses[0]
            so = outcome(w.sign, addr, msg)
            if so[0] == "ok":
                vo = outcome(bms.verify, msg, addr, so[1])
                if vo != ("ok", True):
                    ctx.violation("keywallet-signature-does-not-verify", f"KeyWallet.sign then bms.verify -> {vo[1]!r}", {"address": addr, "type": st})
                ctx.stats["message:keywallet"] += 1
                ctx.case("keywallet", ("kw", addr, msg))
            elif not is_lib_exc(so[1]):
                ctx.violation(f"keywallet:foreign-exception:{type(so[1]).__name__}", f"KeyWallet.sign raised {so[1]!r}", {"address": addr})
            elif net == "regtest" and st != "p2pkh":
                ctx.stat("message:bms-regtest-bech32-refused")
            else:
                ctx.violation("keywallet-sign-refused", f"KeyWallet.sign refused its own address: {so[1]}", {"address": addr, "type": st, "network": net})
        elif wo[0] == "raise" and not is_lib_exc(wo[1]):
            ctx.violation(f"keywallet:foreign-exception:{type(wo[1]).__name__}", f"KeyWallet() raised {wo[1]!r}", {})
    if backend_available():
        set_backend(True)
    reach.stop()
    reach.report(ctx)
