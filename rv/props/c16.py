"""C16 - interactive protocols complete: honest parties always agree.

Every workload is an *honest* run of a protocol (all parties follow it); the
monitors are the independent judges the parties would appeal to: the BIP340
reference verifier for an aggregate MuSig2 signature under the reference
(BIP327) aggregate key, the reference partial-signature equation, the affine
group law for ECDH / ElligatorSwift / spend keys, the BIP352 reference sender
and scanner, the BIP374 reference verifier.  Tamper checks (wrong key, altered
statement) are demanded only where the reference also says "invalid".
"""

from __future__ import annotations

import hashlib
import hmac as _hmac
import itertools
import os

from ..ctx import Ctx, is_lib_exc, outcome, tb_origin
from ..hooks import ArmRecorder, Reach, backend_available, set_backend
from ..ref import ec as rec

PROPERTY = "C16"
RULE = (
    "honest protocol runs generated class-stratified: MuSig2 sessions over signer counts x duplicate patterns x key "
    "orders (every permutation of <= 4 keys for key aggregation) x tweak sequences (length 0..4, plain/x-only, zero "
    "tweak) x message lengths (0, 32, others) x nonce sources (nonce_gen_, nonce_gen, deterministic_sign) x adaptor / "
    "mixed-implementation sessions, directly and through the BIP373 PSBT roles; ECDH on every catalogued curve and "
    "exhaustively on toy curves; ElligatorSwift, ECIES, DLEQ, Pedersen, Borromean, sign-to-contract round trips with "
    "tampering; silent-payment transactions over input kinds (taproot even/odd y, non-taproot) x outpoint orders x "
    "recipient lists (repeats, labels, several wallets) x decoys x both scanners x both arms, and through BIP375. "
    "Distinct = distinct (protocol, party keys, order, tweaks, message, nonces); a case is non-trivial when an "
    "independent reference judged its outcome."
)
ASSUMPTIONS = [
    "rv.ref.bip340 / keyagg / bip352 / dleq / ellswift are the specifications (each replays its published vectors first)",
    "rv.ref.ec (affine group law) gives shared secrets and spend keys; OpenSSL cross-checks it for ECDH",
    "MuSig2 adaptor sessions have no published specification: judged only by the completed signature (BIP340 reference), "
    "the revealed secret and the library's own partial verification",
    "nonce_gen, ElligatorSwift encoding and Borromean signing draw from `secrets`: those cases are reproducible from the "
    "recorded transcript, not from the seed",
]

VEC = os.path.join(os.path.dirname(os.path.dirname(os.path.dirname(os.path.abspath(__file__)))), "vectors")
EC = rec.SECP256K1
N, P_, G = EC.n, EC.p, EC.G

WATCH = {
    "btclib.ecc.musig2": ["key_agg", "_key_agg_coeff_", "apply_tweak", "key_agg_and_tweak", "nonce_gen_", "nonce_gen", "nonce_agg",
                          "session_values", "sign", "deterministic_sign", "partial_sig_verify_", "partial_sig_verify",
                          "partial_sig_agg", "partial_sig_agg_adaptor", "adapt", "extract_adaptor", "_bindings_session"],
    "btclib.psbt.musig2": ["add_participant_pub_keys", "nonce_gen", "partial_sign", "partial_sig_verify", "partial_sigs_agg",
                           "session_context", "_derivation_tweaks"],
    "btclib.ecc.dh": ["diffie_hellman"],
    "btclib.kdf": ["ansi_x9_63_kdf", "hkdf"],
    "btclib.ecc.ellswift": ["_xswiftec_var", "_xswiftec_inv_var", "encode_var", "decode_var", "create_var", "xdh"],
    "btclib.ecc.ecies": ["derive_keys", "encrypt", "decrypt"],
    "btclib.ecc.dleq": ["generate_proof", "assert_proof_as_valid", "_challenge"],
    "btclib.ecc.pedersen": ["commit", "assert_as_valid"],
    "btclib.ecc.borromean": ["sign", "assert_as_valid"],
    "btclib.ecc.commit_nonce": ["commit_nonce_", "commit_point_"],
    "btclib.silent_payments": ["output_keys", "_delegated_output_keys", "prv_key_sum", "_input_hash_", "label_tweak", "scan_outputs",
                               "scan_transaction_outputs", "_delegated_scan_outputs", "_labelled", "prv_key_from_tweak", "tweak_data"],
    "btclib.psbt.silent_payments": ["set_input_share", "set_global_share", "set_output_scripts", "assert_as_valid", "output_scripts"],
}


def _reach() -> Reach:
    import importlib

    r = Reach()
    for modname, names in WATCH.items():
        try:
            mod = importlib.import_module(modname)
        except ImportError:
            continue
        short = modname.replace("btclib.", "").replace("ecc.", "")
        for nm in names:
            f = getattr(mod, nm, None)
            if f is not None:
                r.watch(f"{short}.{nm}", f)
    r.start()
    return r


# ====================================================================== plan
def plan(tier: str, seed: int) -> list[dict]:
    q = tier == "quick"
    # soft budgets bound the wall time on a loaded machine; on an idle one the case counts end each shard earlier
    bud = {"_budget_s": 60 if q else 600, "_timeout_s": 600 if q else 3000}
    specs = [{"name": "oracle-selftest", "fn": "shard_selftest", "_budget_s": 300, "_timeout_s": 1200}]
    for i in range(5 if q else 12):
        specs.append({"name": f"musig-{i}", "fn": "shard_musig", "part": i, "sessions": 200 if q else 2200, "keysets": 8 if q else 60, **bud})
    specs.append({"name": "musig-psbt", "fn": "shard_musig_psbt", "flows": 200 if q else 3000, **bud})
    specs.append({"name": "ecdh-big", "fn": "shard_ecdh", "pairs": 12 if q else 120, **bud})
    specs.append({"name": "ecdh-toy", "fn": "shard_ecdh_toy", "primes": [11, 13, 17, 19, 23, 29] if q else [11, 13, 17, 19, 23, 29, 31, 37, 41, 43, 47], **bud})
    specs.append({"name": "ellswift", "fn": "shard_ellswift", "n": 900 if q else 12000, **bud})
    specs.append({"name": "ecies-dleq", "fn": "shard_ecies_dleq", "n": 300 if q else 4000, **bud})
    specs.append({"name": "commit-ring", "fn": "shard_commit_ring", "n": 170 if q else 2500, **bud})
    for i in range(4 if q else 10):
        specs.append({"name": f"sp-{i}", "fn": "shard_sp", "part": i, "txs": 170 if q else 2400, **bud})
    specs.append({"name": "sp-psbt", "fn": "shard_sp_psbt", "flows": 220 if q else 3000, **bud})
    return specs


NEED_CLASSES = [
    "musig:session", "musig:session:adaptor", "musig:session:mixed-implementations", "musig:session:deterministic-signer",
    "musig:session:duplicate-keys", "musig:session:single-signer", "musig:keyagg:permutation", "musig:msg-len:0", "musig:msg-len:32",
    "musig:msg-len:other", "musig:tweak:xonly-negating", "musig:tweak:plain", "musig:tweak:none", "musig:nonce:nonce_gen",
    "musig-psbt:output-key", "musig-psbt:taproot-tweak", "musig-psbt:bip328-derivation", "musig-psbt:script-path",
    "ecdh:catalogued", "ecdh:toy", "ecdh:hkdf", "ellswift:lib-encoding", "ellswift:reference-encoding", "ellswift:xdh", "ellswift:other-curve",
    "ecies:roundtrip", "ecies:wrong-key", "ecies:tampered", "ecies:reference-envelope", "dleq:own-proof", "dleq:altered",
    "pedersen:commit", "borromean:sign", "s2c:commit",
    "sp:tx", "sp:input:taproot-odd-y", "sp:input:taproot-even-y", "sp:input:non-taproot", "sp:input:mixed", "sp:recipient:labelled",
    "sp:recipient:repeated", "sp:decoys", "sp:outpoints:same-txid", "sp-psbt:per-input-shares", "sp-psbt:global-share",
]
NEED_MONITORS = [
    "musig:aggregate-key-vs-bip327", "musig:partial-sig:library-verify", "musig:partial-sig:reference-verify",
    "musig:aggregate:bip340-reference", "musig:adaptor:completes", "musig:adaptor:reveals", "musig:nonce-agg-vs-bip327",
    "musig-psbt:aggregate:bip340-reference", "musig-psbt:engine-accepts", "musig-psbt:core-model-accepts",
    "ecdh:sides-equal", "ecdh:vs-reference", "ellswift:decode-vs-reference", "ellswift:xdh-vs-reference", "ellswift:sides-equal",
    "ecies:decrypts-to-itself", "ecies:other-key-refused", "dleq:verifies", "dleq:reference-verifies", "dleq:altered-refused",
    "pedersen:opens", "pedersen:tamper-refused", "borromean:verifies", "borromean:tamper-refused", "s2c:point-matches",
    "sp:sender-vs-bip352", "sp:found:scan_transaction_outputs", "sp:found:scan_outputs", "sp:spend-key-opens",
    "sp-psbt:scripts-vs-bip352", "sp-psbt:found",
]
NEED_REACH = [
    "musig2.key_agg", "musig2._key_agg_coeff_", "musig2.apply_tweak", "musig2.nonce_gen_", "musig2.nonce_gen", "musig2.nonce_agg",
    "musig2.session_values", "musig2.sign", "musig2.deterministic_sign", "musig2.partial_sig_verify_", "musig2.partial_sig_verify",
    "musig2.partial_sig_agg", "musig2.partial_sig_agg_adaptor", "musig2.adapt", "musig2.extract_adaptor",
    "psbt.musig2.add_participant_pub_keys", "psbt.musig2.nonce_gen", "psbt.musig2.partial_sign", "psbt.musig2.partial_sigs_agg",
    "psbt.musig2.session_context", "dh.diffie_hellman", "kdf.ansi_x9_63_kdf", "kdf.hkdf", "ellswift._xswiftec_var",
    "ellswift._xswiftec_inv_var", "ellswift.encode_var", "ellswift.decode_var", "ellswift.xdh", "ecies.derive_keys", "ecies.encrypt",
    "ecies.decrypt", "dleq.generate_proof", "dleq.assert_proof_as_valid", "dleq._challenge", "pedersen.commit", "borromean.sign",
    "borromean.assert_as_valid", "silent_payments.output_keys", "silent_payments.prv_key_sum", "silent_payments._input_hash_",
    "silent_payments.label_tweak", "silent_payments.scan_outputs", "silent_payments.scan_transaction_outputs",
    "silent_payments.prv_key_from_tweak", "silent_payments._labelled", "psbt.silent_payments.set_input_share",
    "psbt.silent_payments.set_global_share", "psbt.silent_payments.set_output_scripts",
]
NEED_SELFTEST = ["bip340_test_vectors.csv", "bip327 vectors", "send_and_receive_test_vectors.json", "bip374 vectors", "bip324 vectors",
                 "ecdh reference vs OpenSSL", "kdf reference vs cryptography"]


def finalize(m: dict, tier: str) -> list[str]:
    out = []
    c, mon, r, s, a, st = m["classes"], m["monitors"], m["reached"], m["stats"], m["arms"], m["selftest"]
    for k in NEED_SELFTEST:
        if not st.get(k):
            out.append(f"oracle self-test {k} did not run")
    for k in NEED_CLASSES:
        if not c.get(k):
            out.append(f"input class {k} never evaluated")
    for k in NEED_MONITORS:
        if not mon.get(k):
            out.append(f"monitor {k} never evaluated")
    for k in NEED_REACH:
        if not r.get(k):
            out.append(f"mechanism {k} never entered")
    if not s.get("musig:parity:odd-key+odd-nonce+xonly-tweak"):
        out.append("no MuSig2 session had an odd-y aggregate key, an odd-y aggregate nonce and an x-only tweak together")
    for combo in ("even-key+even-nonce", "even-key+odd-nonce", "odd-key+even-nonce", "odd-key+odd-nonce"):
        if not s.get(f"musig:parity:{combo}"):
            out.append(f"no MuSig2 session with {combo}")
    if not s.get("sp:group-reached-k>=2"):
        out.append("no silent-payment recipient group reached k >= 2")
    if not s.get("sp:labelled-output-found"):
        out.append("no labelled silent-payment output was found by a scanner")
    if backend_available():
        for k in ("musig:arm:bindings", "musig:arm:python", "sp:arm:bindings", "sp:arm:python", "ecdh:arm:bindings", "ecdh:arm:python",
                  "ellswift:arm:bindings", "ellswift:arm:python"):
            if not s.get(k):
                out.append(f"arm never exercised: {k}")
        if not (a.get("bindings") and a.get("python")):
            out.append("both arithmetic arms were not observed serving")
        if not r.get("musig2._bindings_session"):
            out.append("delegated partial-signature verification never entered")
        if not r.get("silent_payments._delegated_output_keys") or not r.get("silent_payments._delegated_scan_outputs"):
            out.append("delegated silent-payment sender/scanner never entered")
    else:
        out.append("btclib_secp256k1 bindings not installed: bindings arm unobserved")
    return out


# =================================================================== helpers
def _exc_tag(e: BaseException) -> str:
    return f"{type(e).__name__}@{tb_origin(e)}"


def _armname(arm) -> str:
    return "bindings" if arm else "python"


def _arms():
    return [True, False] if backend_available() else [False]


class Key:
    __slots__ = ("sk", "skb", "P", "pk")

    def __init__(self, sk: int):
        self.sk = sk
        self.skb = sk.to_bytes(32, "big")
        self.P = EC.mul_nored(sk, G)
        self.pk = bytes([2 + (self.P[1] & 1)]) + self.P[0].to_bytes(32, "big")


def _pool(rng, size: int, specials=(1, 2, N - 1, N - 2)) -> list[Key]:
    sks = list(specials)[: max(0, min(len(specials), size // 4))]
    while len(sks) < size:
        sks.append(rng.randrange(1, N))
    return [Key(s) for s in sks]


# ================================================================== selftest
def shard_selftest(ctx: Ctx) -> None:
    """The oracles against their published vectors; the library is not consulted."""
    from ..ref import bip340 as r340
    from ..ref import bip352 as r352
    from ..ref import dleq as rdleq
    from ..ref import ellswift as rell
    from ..ref import keyagg as rk

    n, bad = r340.selftest(os.path.join(VEC, "bip340_test_vectors.csv"))
    for b in bad:
        ctx.oracle_broken("bip340_test_vectors.csv", b)
    ctx.oracle_ok("bip340_test_vectors.csv", n - len(bad))
    n, bad = rk.selftest(VEC)
    for b in bad:
        ctx.oracle_broken("bip327 vectors", b)
    ctx.oracle_ok("bip327 vectors", n - len(bad))
    n, bad = rdleq.selftest(os.path.join(VEC, "test_vectors_generate_proof.csv"), os.path.join(VEC, "test_vectors_verify_proof.csv"))
    for b in bad:
        ctx.oracle_broken("bip374 vectors", b)
    ctx.oracle_ok("bip374 vectors", n - len(bad))
    n, bad = rell.selftest(os.path.join(VEC, "ellswift_decode_test_vectors.csv"), os.path.join(VEC, "xswiftec_inv_test_vectors.csv"))
    for b in bad:
        ctx.oracle_broken("bip324 vectors", b)
    ctx.oracle_ok("bip324 vectors", n - len(bad))
    n, bad = r352.selftest(os.path.join(VEC, "send_and_receive_test_vectors.json"), heavy=ctx.tier != "quick")
    for b in bad:
        ctx.oracle_broken("send_and_receive_test_vectors.json", b)
    ctx.oracle_ok("send_and_receive_test_vectors.json", n - len(bad))

    # ECDH x-coordinate of the reference group law against OpenSSL; reference KDFs against cryptography's
    try:
        from cryptography.hazmat.primitives import hashes
        from cryptography.hazmat.primitives.asymmetric import ec as cec
        from cryptography.hazmat.primitives.kdf.hkdf import HKDF
        from cryptography.hazmat.primitives.kdf.x963kdf import X963KDF
    except ImportError:
        ctx.inconclusive_("cryptography not importable: ECDH/KDF reference self-test impossible")
        return
    rng = ctx.rng
    ok = 0
    for _ in range(12):
        d1, d2 = rng.randrange(1, N), rng.randrange(1, N)
        k1 = cec.derive_private_key(d1, cec.SECP256K1())
        k2 = cec.derive_private_key(d2, cec.SECP256K1())
        z = k1.exchange(cec.ECDH(), k2.public_key())
        Q2 = EC.mul_nored(d2, G)
        if EC.mul_nored(d1, Q2)[0].to_bytes(32, "big") != z:
            ctx.oracle_broken("ecdh reference vs OpenSSL", "x-coordinate differs")
        else:
            ok += 1
    ctx.oracle_ok("ecdh reference vs OpenSSL", ok)
    ok = 0
    for hname, halg in (("sha256", hashes.SHA256()), ("sha1", hashes.SHA1()), ("sha512", hashes.SHA512())):
        for size in (1, 20, 32, 33, 64, 100):
            z = rng.randbytes(32)
            info = rng.choice([None, b"", rng.randbytes(9)])
            if ref_x963(z, size, hname, info) != X963KDF(halg, size, info).derive(z):
                ctx.oracle_broken("kdf reference vs cryptography", f"x9.63 {hname} {size}")
            salt = rng.choice([None, rng.randbytes(7)])
            if ref_hkdf(z, size, hname, salt, info) != HKDF(halg, size, salt, info).derive(z):
                ctx.oracle_broken("kdf reference vs cryptography", f"hkdf {hname} {size}")
            ok += 2
    ctx.oracle_ok("kdf reference vs cryptography", ok)
    ctx.case("selftest", "vectors", nontrivial=False)


def ref_x963(z: bytes, size: int, hname: str, info) -> bytes:
    """ANSI X9.63 KDF (SEC 1 v2, 3.6.1): Hash(Z || counter || SharedInfo), counter from 1."""
    out = b""
    counter = 1
    while len(out) < size:
        out += hashlib.new(hname, z + counter.to_bytes(4, "big") + (info or b"")).digest()
        counter += 1
    return out[:size]


def ref_hkdf(ikm: bytes, size: int, hname: str, salt, info) -> bytes:
    """RFC 5869."""
    hl = hashlib.new(hname).digest_size
    prk = _hmac.new(salt if salt else bytes(hl), ikm, hname).digest()
    t, okm, i = b"", b"", 1
    while len(okm) < size:
        t = _hmac.new(prk, t + (info or b"") + bytes([i]), hname).digest()
        okm += t
        i += 1
    return okm[:size]


# ==================================================================== MuSig2
MSG_LENS = [32, 0, 32, 1, 32, 33, 31, 32, 64, 200]


def _gen_session(rng, it: int, npool: int, quick: bool) -> dict:
    k = (1, 2, 3, 4, 5)[it % 5] if quick or it % 3 else rng.choice([6, 7, 8, 11, 16])
    idx = rng.sample(range(npool), k)
    dup = rng.choice(["none", "none", "none", "one", "second-equals-first", "all-same", "pairs"]) if k > 1 else "none"
    if dup == "one":
        j = rng.randrange(1, k)
        idx[j] = idx[rng.randrange(0, j)]
    elif dup == "second-equals-first":
        idx[1] = idx[0]
    elif dup == "all-same":
        idx = [idx[0]] * k
    elif dup == "pairs":
        idx = [idx[i // 2] for i in range(k)]
    nt = (it // 5) % 5
    flags = [rng.random() < 0.55 for _ in range(nt)]
    if nt and it % 7 == 0:
        flags = [True] * nt
    tweaks = []
    for _ in range(nt):
        c = rng.random()
        t = 0 if c < 0.04 else (N - 1 if c < 0.08 else (rng.randrange(1, 1 << 20) if c < 0.12 else rng.randrange(1, N)))
        tweaks.append(t.to_bytes(32, "big"))
    msg = rng.randbytes(MSG_LENS[it % len(MSG_LENS)])
    kind = rng.choice(["plain", "plain", "plain", "adaptor", "mixed", "det", "det"])
    if kind == "det" and k < 2:
        kind = "plain"
    s = {"idx": idx, "dup": dup, "tweaks": tweaks, "flags": flags, "msg": msg, "kind": kind,
         "nonce_modes": [rng.choice(["full", "full", "bare", "random", "partial"]) for _ in range(k)],
         "rands": [rng.randbytes(32) for _ in range(k)], "extra": rng.choice([None, b"", rng.randbytes(5)]),
         "sign_arm": rng.random() < 0.5, "det_rand": rng.choice([None, rng.randbytes(32)]),
         "adaptor_t": rng.randrange(1, N), "ref_signers": [rng.random() < 0.5 for _ in range(k)]}
    return s


def _desc(S: dict, pool) -> dict:
    return {"secret_keys": [f"{pool[i].sk:064x}" for i in S["idx"]], "tweaks": [t.hex() for t in S["tweaks"]], "is_xonly": S["flags"],
            "msg": S["msg"].hex(), "kind": S["kind"], "nonce_modes": S["nonce_modes"], "rands": [x.hex() for x in S["rands"]],
            "extra_in": None if S["extra"] is None else S["extra"].hex(), "sign_arm": _armname(S["sign_arm"]),
            "det_rand": None if S["det_rand"] is None else S["det_rand"].hex(), "adaptor_t": f"{S['adaptor_t']:064x}",
            "ref_signers": S["ref_signers"] if S["kind"] == "mixed" else None}


def _musig_session(ctx: Ctx, m2, ssa, S: dict, pool, rk, r340) -> None:
    keys = [pool[i] for i in S["idx"]]
    k = len(keys)
    pks = [x.pk for x in keys]
    tweaks, flags, msg, kind = S["tweaks"], S["flags"], S["msg"], S["kind"]
    d = _desc(S, pool)
    have_b = backend_available()

    def fail(mech, text, **extra):
        ctx.violation(mech, text, {**d, **extra})

    # ---- reference key aggregation, step by step (to see which tweaks negate)
    negating = False
    try:
        rctx = rk.key_agg(pks)
        for t, x in zip(tweaks, flags):
            if x and rctx.Q[1] & 1:
                negating = True
            rctx = rk.apply_tweak(rctx, t, x)
    except ValueError:
        ctx.stat("musig:reference-refuses-session")
        return
    aggpk = rk.xbytes(rctx.Q)

    if have_b:
        set_backend(S["sign_arm"])
        ctx.stat(f"musig:arm:{_armname(S['sign_arm'])}")
    else:
        ctx.stat("musig:arm:python")
    o = outcome(m2.key_agg_and_tweak, pks, tweaks, flags)
    ctx.mon("musig:aggregate-key-vs-bip327")
    if o[0] == "raise":
        fail(f"musig:honest-key-aggregation-raised:{_exc_tag(o[1])}", f"key_agg_and_tweak raised {o[1]!r} for valid keys and tweaks")
        return
    kc = o[1]
    if tuple(kc.Q) != rctx.Q:
        fail("musig:aggregate-key-differs-from-bip327", f"key_agg_and_tweak gives Q={kc.Q}, BIP327 KeyAgg/ApplyTweak give {rctx.Q}",
             library_Q=kc.Q, reference_Q=rctx.Q)
    if (kc.gacc, kc.tacc) != (rctx.gacc, rctx.tacc):
        ctx.stat("musig:gacc-tacc-differ-from-bip327")

    # ---- round 1
    adaptor = None
    if kind == "adaptor":
        adaptor = rk.cbytes(EC.mul_nored(S["adaptor_t"], G))
    det_j = k - 1 if kind == "det" else None
    secs: list = [None] * k
    pubs: list = [None] * k
    by_ref = [kind == "mixed" and S["ref_signers"][j] for j in range(k)]
    if kind == "mixed" and all(by_ref):
        by_ref[0] = False
    if kind == "mixed" and not any(by_ref):
        by_ref[-1] = True
    for j, key in enumerate(keys):
        if j == det_j:
            continue
        mode = S["nonce_modes"][j]
        if by_ref[j]:
            secs[j], pubs[j] = rk.nonce_gen_internal(S["rands"][j], key.skb, key.pk, aggpk, msg, S["extra"])
            continue
        if mode == "random":
            o = outcome(m2.nonce_gen, key.sk, key.pk, aggpk, msg, S["extra"])
            ctx.classes["musig:nonce:nonce_gen"] += 1
        elif mode == "bare":
            o = outcome(m2.nonce_gen_, S["rands"][j], None, key.pk)
        elif mode == "partial":
            o = outcome(m2.nonce_gen_, S["rands"][j], key.sk, key.pk, None, msg, None)
        else:
            o = outcome(m2.nonce_gen_, S["rands"][j], key.sk, key.pk, aggpk, msg, S["extra"])
        if o[0] == "raise":
            fail(f"musig:honest-nonce-generation-raised:{_exc_tag(o[1])}", f"nonce generation ({mode}) raised {o[1]!r}", signer=j)
            return
        secs[j], pubs[j] = o[1]
    d["pub_nonces"] = [None if x is None else bytes(x).hex() for x in pubs]
    psigs: list = [None] * k
    if det_j is not None:
        o = outcome(m2.nonce_agg, [pubs[j] for j in range(k) if j != det_j])
        if o[0] == "raise":
            fail(f"musig:honest-nonce-aggregation-raised:{_exc_tag(o[1])}", f"nonce_agg raised {o[1]!r}")
            return
        o = outcome(m2.deterministic_sign, keys[det_j].sk, o[1], pks, tweaks, flags, msg, S["det_rand"])
        if o[0] == "raise":
            fail(f"musig:honest-deterministic-sign-raised:{_exc_tag(o[1])}", f"deterministic_sign raised {o[1]!r}")
            return
        pubs[det_j], psigs[det_j] = o[1]
        d["pub_nonces"][det_j] = bytes(pubs[det_j]).hex()
    o = outcome(m2.nonce_agg, pubs)
    if o[0] == "raise":
        fail(f"musig:honest-nonce-aggregation-raised:{_exc_tag(o[1])}", f"nonce_agg raised {o[1]!r}")
        return
    aggnonce = o[1]
    ctx.mon("musig:nonce-agg-vs-bip327")
    ro = outcome(rk.nonce_agg, [bytes(x) for x in pubs])
    if ro[0] == "raise":
        fail("musig:public-nonce-not-a-bip327-nonce", f"a public nonce an honest signer published is refused by BIP327 NonceAgg: {ro[1]!r}")
        return
    if bytes(aggnonce) != ro[1]:
        fail("musig:aggregate-nonce-differs-from-bip327", f"nonce_agg gives {bytes(aggnonce).hex()}, BIP327 NonceAgg {ro[1].hex()}")
        return

    # ---- round 2
    def session():
        return m2.SessionContext(aggnonce, pks, tweaks, flags, msg, adaptor)

    o = outcome(session)
    if o[0] == "raise":
        fail(f"musig:honest-session-context-raised:{_exc_tag(o[1])}", f"SessionContext raised {o[1]!r}")
        return
    sess = o[1]
    rsc = rk.SessionContext(aggnonce, pks, tweaks, flags, msg)
    for j, key in enumerate(keys):
        if j == det_j:
            continue
        if by_ref[j]:
            psigs[j] = rk.sign(secs[j], key.skb, rsc)
            continue
        o = outcome(m2.sign, secs[j], key.sk, sess)
        if o[0] == "raise":
            fail(f"musig:honest-sign-raised:{_exc_tag(o[1])}", f"sign raised {o[1]!r} for signer {j}", signer=j)
            return
        psigs[j] = o[1]
    d["partial_sigs"] = [bytes(x).hex() for x in psigs]

    # ---- every partial signature verifies: by the library on each arm, and by the BIP327 equation
    rvals = None
    if adaptor is None:
        rvals = rk.session_values_with(rctx, bytes(aggnonce), msg)
        combo = f"{'odd' if rctx.Q[1] & 1 else 'even'}-key+{'odd' if rvals[4][1] & 1 else 'even'}-nonce"
        ctx.stat(f"musig:parity:{combo}")
        if combo == "odd-key+odd-nonce" and any(flags):
            ctx.stat("musig:parity:odd-key+odd-nonce+xonly-tweak")
    ref_js = range(k) if k <= 3 else sorted(set([0, k - 1, ctx.rng.randrange(k)]))
    for arm in (_arms() if have_b else [None]):
        if arm is not None:
            set_backend(arm)
        o = outcome(session)
        sess_v = o[1] if o[0] == "ok" else sess
        for j, key in enumerate(keys):
            o = outcome(m2.partial_sig_verify_, psigs[j], pubs[j], key.pk, sess_v)
            ctx.mon("musig:partial-sig:library-verify")
            who = "reference-signed" if by_ref[j] else ("deterministic_sign" if j == det_j else "sign")
            if o[0] == "raise":
                fail(f"musig:partial-sig-verify-raised:{_exc_tag(o[1])}", f"partial_sig_verify_ raised {o[1]!r} on an honest partial signature", signer=j)
            elif o[1] is not True:
                served = "bindings" if (arm and len(msg) == 32 and adaptor is None) else "python"
                fail(f"musig:honest-partial-sig-rejected:{who}:{served}-verifier",
                     f"partial signature of signer {j} ({who}) rejected by partial_sig_verify_ ({served} verifier)", signer=j, arm=_armname(arm))
        if adaptor is None and k <= 4:
            j = ctx.rng.randrange(k)
            o = outcome(m2.partial_sig_verify, psigs[j], pubs, pks, tweaks, flags, msg, j)
            ctx.mon("musig:partial-sig:library-verify")
            if o[0] == "raise" or o[1] is not True:
                fail("musig:honest-partial-sig-rejected:partial_sig_verify", f"partial_sig_verify (list form) -> {o[1]!r} for signer {j}", signer=j)
    if have_b:
        set_backend(S["sign_arm"])
    if rvals is not None:
        for j in ref_js:
            if by_ref[j]:
                continue
            ctx.mon("musig:partial-sig:reference-verify")
            ro = outcome(rk.partial_sig_verify_with, rvals, pks, bytes(psigs[j]), bytes(pubs[j]), pks[j])
            if ro[0] == "raise" or ro[1] is not True:
                who = "deterministic_sign" if j == det_j else "sign"
                fail(f"musig:partial-sig-invalid-by-bip327:{who}", f"partial signature of signer {j} ({who}) fails BIP327 PartialSigVerify", signer=j)

    # ---- aggregate
    if adaptor is None:
        o = outcome(m2.partial_sig_agg, psigs, sess)
        if o[0] == "raise":
            fail(f"musig:honest-aggregation-raised:{_exc_tag(o[1])}", f"partial_sig_agg raised {o[1]!r}")
            return
        sig = o[1]
        sig64 = sig.serialize()
        d["signature"] = sig64.hex()
        ctx.mon("musig:aggregate:bip340-reference")
        good = r340.schnorr_verify(msg, aggpk, sig64)
        if not good:
            fail("musig:aggregate-not-a-bip340-signature", "the aggregate of honest partial signatures fails BIP340 verification under the "
                 f"BIP327 aggregate key {aggpk.hex()}", aggregate_key=aggpk.hex())
        o = outcome(ssa.verify_, msg, aggpk, sig)
        if good and (o[0] == "raise" or o[1] is not True):
            fail("musig:valid-aggregate-refused-by-ssa.verify_", f"BIP340-valid aggregate signature refused by ssa.verify_: {o[1]!r}")
    else:
        o = outcome(m2.partial_sig_agg_adaptor, psigs, sess)
        if o[0] == "raise":
            fail(f"musig:honest-aggregation-raised:{_exc_tag(o[1])}", f"partial_sig_agg_adaptor raised {o[1]!r}")
            return
        pre = o[1]
        t = S["adaptor_t"]
        if r340.verify_ints(msg, rctx.Q[0], pre.r, pre.s):
            ctx.stat("musig:adaptor:pre-signature-already-valid")
        o = outcome(m2.adapt, pre, t, sess)
        ctx.mon("musig:adaptor:completes")
        if o[0] == "raise":
            fail(f"musig:adaptor-adapt-raised:{_exc_tag(o[1])}", f"adapt raised {o[1]!r}")
            return
        sig = o[1]
        sig64 = sig.serialize()
        d["signature"] = sig64.hex()
        if not r340.schnorr_verify(msg, aggpk, sig64):
            fail("musig:adaptor-does-not-complete", "adapt(pre-signature, t) is not a BIP340 signature under the aggregate key",
                 aggregate_key=aggpk.hex(), pre_signature=[pre.r, pre.s])
        o = outcome(m2.extract_adaptor, sig, pre, sess)
        ctx.mon("musig:adaptor:reveals")
        if o[0] == "raise" or bytes(o[1]) != t.to_bytes(32, "big"):
            fail("musig:adaptor-not-revealed", f"extract_adaptor gives {o[1]!r}, the adaptor secret is {t:064x}")
        lv = outcome(m2.session_values, sess)
        if lv[0] == "ok":
            ctx.stat(f"musig:adaptor:final-nonce-{'odd' if lv[1].R[1] & 1 else 'even'}")

    # ---- accounting
    key_of = (tuple(S["idx"]), tuple(tweaks), tuple(flags), msg, kind, tuple(bytes(x) for x in pubs))
    ctx.case("musig:session", key_of, sample={k_: d[k_] for k_ in ("secret_keys", "tweaks", "is_xonly", "msg", "kind")})
    ctx.classes[f"musig:signers:{k if k <= 5 else '6+'}"] += 1
    if kind == "adaptor":
        ctx.classes["musig:session:adaptor"] += 1
    if kind == "mixed":
        ctx.classes["musig:session:mixed-implementations"] += 1
    if kind == "det":
        ctx.classes["musig:session:deterministic-signer"] += 1
    if len(set(S["idx"])) < k:
        ctx.classes["musig:session:duplicate-keys"] += 1
        ctx.classes[f"musig:dup:{S['dup']}"] += 1
    if k == 1:
        ctx.classes["musig:session:single-signer"] += 1
    ctx.classes["musig:msg-len:" + ("0" if not msg else "32" if len(msg) == 32 else "other")] += 1
    if negating:
        ctx.classes["musig:tweak:xonly-negating"] += 1
    if not tweaks:
        ctx.classes["musig:tweak:none"] += 1
    if any(not f for f in flags):
        ctx.classes["musig:tweak:plain"] += 1
    if any(flags):
        ctx.classes["musig:tweak:xonly"] += 1
    if any(t == bytes(32) for t in tweaks):
        ctx.classes["musig:tweak:zero"] += 1
    ctx.classes[f"musig:tweak-count:{len(tweaks)}"] += 1


def _musig_keyset_perms(ctx: Ctx, m2, pool, rk, quick: bool) -> None:
    """Key aggregation over every order of a small key multiset (the order is part of the key)."""
    rng = ctx.rng
    k = rng.choice([2, 3, 3, 4])
    idx = rng.sample(range(len(pool)), k)
    if rng.random() < 0.4:
        idx[-1] = idx[0]
    perms = sorted(set(itertools.permutations(idx)))
    if quick and len(perms) > 8:
        perms = rng.sample(perms, 8)
    t = rng.randrange(1, N).to_bytes(32, "big")
    seen = {}
    for perm in perms:
        pks = [pool[i].pk for i in perm]
        rctx = rk.apply_tweak(rk.key_agg(pks), t, True)
        if backend_available():
            set_backend(rng.random() < 0.5)
        o = outcome(m2.key_agg_and_tweak, pks, [t], [True])
        ctx.mon("musig:aggregate-key-vs-bip327")
        dd = {"secret_keys": [f"{pool[i].sk:064x}" for i in perm], "tweaks": [t.hex()], "is_xonly": [True]}
        if o[0] == "raise":
            ctx.violation(f"musig:honest-key-aggregation-raised:{_exc_tag(o[1])}", f"key_agg_and_tweak raised {o[1]!r}", dd)
        elif tuple(o[1].Q) != rctx.Q:
            ctx.violation("musig:aggregate-key-differs-from-bip327", f"key order {perm}: Q={o[1].Q}, BIP327 gives {rctx.Q}", dd)
        seen.setdefault(rctx.Q, perm)
        ctx.case("musig:keyagg:permutation", ("perm", perm, t))
    if len(seen) < len(perms):
        ctx.stat("musig:orders-sharing-an-aggregate-key", len(perms) - len(seen))


def shard_musig(ctx: Ctx) -> None:
    from btclib.ecc import musig2 as m2
    from btclib.ecc import ssa

    from ..ref import bip340 as r340
    from ..ref import keyagg as rk

    reach = _reach()
    ArmRecorder(ctx).install()
    quick = ctx.tier == "quick"
    pool = _pool(ctx.rng, 20 if quick else 40)
    part = ctx.params["part"]
    try:
        for i in range(ctx.params["keysets"]):
            if ctx.out_of_time():
                break
            _musig_keyset_perms(ctx, m2, pool, rk, quick)
        for it in range(ctx.params["sessions"]):
            if ctx.out_of_time():
                ctx.notes.append(f"{ctx.shard}: budget reached after {it} sessions")
                break
            S = _gen_session(ctx.rng, it + 7 * part, len(pool), quick)
            _musig_session(ctx, m2, ssa, S, pool, rk, r340)
    finally:
        if backend_available():
            set_backend(True)
        reach.stop()
        reach.report(ctx)


# ======================================================= MuSig2 over a PSBT
BIP328_CHAIN_CODE = bytes.fromhex("868087ca02a6f974c4598924c36b57762d32cb45717167e300622c7167e38965")


def shard_musig_psbt(ctx: Ctx) -> None:
    """BIP373 roles end to end: participants -> nonces -> partial signatures -> aggregate -> finalized key-path spend."""
    from btclib.bip32 import BIP32KeyOrigin
    from btclib.psbt import Psbt, combine, extract_tx, finalize
    from btclib.psbt import musig2 as pm
    from btclib.psbt.psbt import prevouts, taproot_sig_hash
    from btclib.script import ScriptPubKey
    from btclib.script.engine import verify_input
    from btclib.tx import OutPoint, Tx, TxIn, TxOut

    from ..ref import bip32 as rb32
    from ..ref import bip340 as r340
    from ..ref import core as cm
    from ..ref import keyagg as rk

    reach = _reach()
    ArmRecorder(ctx).install()
    rng = ctx.rng
    pool = _pool(rng, 16)
    modes = ["output-key", "taproot-tweak", "taproot-tweak-with-tree", "bip328-derivation", "script-path"]
    try:
        for it in range(ctx.params["flows"]):
            if ctx.out_of_time():
                ctx.notes.append(f"{ctx.shard}: budget reached after {it} flows")
                break
            mode = modes[it % 5]
            k = 1 + (it // 5) % 4
            idx = rng.sample(range(len(pool)), k)
            # no duplicate participants here: BIP373 files nonces and partial signatures under the participant key,
            # so two signers sharing one key cannot both be represented (duplicates are exercised in shard_musig)
            keys = [pool[i] for i in idx]
            sort = rng.random() < 0.3
            pks = [x.pk for x in keys]
            # ... but one *signer* may hold several slots of the participant list (BIP327 allows a repeated key): it makes
            # one nonce and one partial signature, and both are counted once per slot it holds
            if it % 7 == 6 and k >= 1:
                for _ in range(rng.choice([1, 1, 2])):
                    pks.insert(rng.randrange(len(pks) + 1), rng.choice(keys).pk)
                ctx.stat("musig-psbt:repeated-participant-key")
            agg_order = sorted(pks) if sort else pks
            kac = rk.key_agg(agg_order)
            agg = rk.cbytes(kac.Q)
            fields: dict = {}
            tweaks_ref, flags_ref = [], []
            path = []
            leaf_hash, leaf_script, control = b"", b"", b""
            if mode == "output-key":
                out_pt = kac.Q
            elif mode == "script-path":
                # BIP373's fourth way: the aggregate key is a key of a leaf script, untweaked; the internal key is somebody else's
                other = rng.choice([x for x in pool if x.pk not in pks] or pool)
                ik = other.pk[1:]
                leaf_script = b"\x20" + rk.xbytes(kac.Q) + b"\xac"
                leaf_hash = r340.tagged_hash("TapLeaf", b"\xc0" + bytes([len(leaf_script)]) + leaf_script)
                sib = rng.randbytes(32) if rng.random() < 0.5 else b""
                mr = r340.tagged_hash("TapBranch", b"".join(sorted([leaf_hash, sib]))) if sib else leaf_hash
                tt = r340.tagged_hash("TapTweak", ik + mr)
                if int.from_bytes(tt, "big") >= N:
                    continue
                out_pt = EC.add(EC.lift_x(int.from_bytes(ik, "big")), EC.mul_nored(int.from_bytes(tt, "big"), G))
                control = bytes([0xC0 | (out_pt[1] & 1)]) + ik + sib
                fields["taproot_internal_key"] = ik
                fields["taproot_merkle_root"] = mr
                fields["taproot_leaf_scripts"] = {control: (leaf_script, 0xC0)}
            else:
                internal = kac.Q
                if mode == "bip328-derivation":
                    path = [rng.randrange(0, 1 << 31) for _ in range(rng.randrange(1, 4))]
                    K, c = kac.Q, BIP328_CHAIN_CODE
                    try:
                        tweaks_ref = rb32.pub_tweaks(K, c, path)
                        for i in path:
                            K, c = rb32.ckd_pub(K, c, i)
                    except Exception:  # noqa: BLE001 - an invalid child (2^-127): not a case
                        continue
                    flags_ref = [False] * len(path)
                    internal = K
                    fields["taproot_hd_key_paths"] = {rk.xbytes(internal): ([], BIP32KeyOrigin(rb32.hash160(agg)[:4], path))}
                mr = rng.randbytes(32) if mode == "taproot-tweak-with-tree" or (mode == "bip328-derivation" and rng.random() < 0.5) else b""
                ik = rk.xbytes(internal)
                tt = r340.tagged_hash("TapTweak", ik + mr)
                if int.from_bytes(tt, "big") >= N:
                    continue
                out_pt = EC.add(EC.lift_x(internal[0]), EC.mul_nored(int.from_bytes(tt, "big"), G))
                fields["taproot_internal_key"] = ik
                fields["taproot_merkle_root"] = mr
                tweaks_ref, flags_ref = tweaks_ref + [tt], flags_ref + [True]
            outkey = rk.xbytes(out_pt)
            # the spent key by BIP327 itself: aggregate, plain tweaks, x-only taproot tweak
            rctx = rk.key_agg_and_tweak(agg_order, tweaks_ref, flags_ref)
            if mode != "script-path" and rk.xbytes(rctx.Q) != outkey:
                ctx.oracle_broken("bip327/bip341/bip328 references disagree on the output key", mode)
                continue
            amount = rng.randrange(1000, 10**8)
            spk = b"\x51\x20" + outkey
            sht = rng.choice([None, None, 1, 0x81, 3])
            d = {"mode": mode, "secret_keys": [f"{x.sk:064x}" for x in keys], "sorted": sort, "bip328_path": path,
                 "merkle_root": fields.get("taproot_merkle_root", b"").hex(), "sig_hash_type": sht, "aggregate_key": agg.hex()}

            def fail(mech, text, **extra):
                ctx.violation(mech, text, {**d, **extra})

            def build():
                tx = Tx(2, rng.randrange(0, 500000), [TxIn(OutPoint(rng.randbytes(32), rng.randrange(0, 4)), b"", 0xFFFFFFFD)],
                        [TxOut(amount - 500, ScriptPubKey(b"\x00\x14" + rng.randbytes(20)))])
                psbt = Psbt.from_tx(tx)
                pi = psbt.inputs[0]
                pi.witness_utxo = TxOut(amount, ScriptPubKey(spk, check_validity=False))
                for name, v in fields.items():
                    setattr(pi, name, v)
                if sht is not None:
                    pi.sig_hash_type = sht
                got = pm.add_participant_pub_keys(pi, pks, sort=sort)
                psbt.assert_valid()
                return psbt, got

            if backend_available():
                arm = rng.random() < 0.6
                set_backend(arm)
                d["arm"] = _armname(arm)
            o = outcome(build)
            if o[0] == "raise":
                fail(f"musig-psbt:setup-raised:{_exc_tag(o[1])}", f"building the PSBT / add_participant_pub_keys raised {o[1]!r}")
                continue
            psbt, got = o[1]
            ctx.mon("musig:aggregate-key-vs-bip327")
            if got != agg:
                fail("musig-psbt:aggregate-key-differs-from-bip327", f"add_participant_pub_keys -> {got.hex()}, BIP327 KeyAgg {agg.hex()}")
                continue
            # each signer works on its own copy; the combiner merges (half of the flows), else one shared psbt
            separate = rng.random() < 0.5 and k > 1
            d["separate_copies"] = separate

            def rounds():
                nonlocal psbt
                if separate:
                    copies = [Psbt.parse(psbt.serialize()) for _ in keys]
                    secs = [pm.nonce_gen(c, 0, x.sk, agg, leaf_hash=leaf_hash, extra_in=rng.choice([None, b"x"])) for c, x in zip(copies, keys)]
                    merged = combine(copies)
                    copies = [Psbt.parse(merged.serialize()) for _ in keys]
                    for c, x, sn in zip(copies, keys, secs):
                        pm.partial_sign(c, 0, sn, x.sk, agg, leaf_hash=leaf_hash)
                    psbt = combine(copies)
                else:
                    secs = [pm.nonce_gen(psbt, 0, x.sk, agg, leaf_hash=leaf_hash) for x in keys]
                    for x, sn in zip(keys, secs):
                        pm.partial_sign(psbt, 0, sn, x.sk, agg, leaf_hash=leaf_hash)
                return True

            o = outcome(rounds)
            if o[0] == "raise":
                fail(f"musig-psbt:honest-rounds-raised:{_exc_tag(o[1])}", f"nonce_gen / partial_sign / combine raised {o[1]!r}")
                continue
            d["psbt"] = psbt.serialize().hex()
            for x in keys:
                o = outcome(pm.partial_sig_verify, psbt, 0, x.pk, agg, leaf_hash=leaf_hash)
                ctx.mon("musig:partial-sig:library-verify")
                if o[0] == "raise" or o[1] is not True:
                    fail("musig-psbt:honest-partial-sig-rejected", f"psbt.musig2.partial_sig_verify -> {o[1]!r} for {x.pk.hex()}")
            msg = outcome(taproot_sig_hash, psbt, 0, leaf_hash=leaf_hash)
            spent = outcome(prevouts, psbt)
            o = outcome(pm.partial_sigs_agg, psbt, 0, agg, leaf_hash=leaf_hash)
            if o[0] == "raise" or msg[0] == "raise" or spent[0] == "raise":
                e = o[1] if o[0] == "raise" else (msg[1] if msg[0] == "raise" else spent[1])
                fail(f"musig-psbt:honest-aggregation-raised:{_exc_tag(e)}", f"partial_sigs_agg / taproot_sig_hash raised {e!r}")
                continue
            sig64 = o[1].serialize()
            ctx.mon("musig-psbt:aggregate:bip340-reference")
            verkey = rk.xbytes(kac.Q) if mode == "script-path" else outkey
            if not r340.schnorr_verify(msg[1], verkey, sig64):
                fail("musig-psbt:aggregate-not-a-bip340-signature", "aggregate signature invalid under the key the spend checks it against (BIP340 reference)",
                     signature=sig64.hex(), msg=msg[1].hex(), key=verkey.hex())
            if mode == "script-path":
                # filed where a script path spend reads it, and accepted by both interpreters in the witness it belongs to
                filed = psbt.inputs[0].taproot_script_spend_signatures.get(verkey + leaf_hash)
                want_filed = sig64 + (bytes([sht]) if sht else b"")
                if filed != want_filed:
                    fail("musig-psbt:script-path-signature-misfiled", f"PSBT_IN_TAP_SCRIPT_SIG holds {filed!r}", signature=sig64.hex())
                    continue
                mtx = cm.parse_tx(psbt.tx.serialize(include_witness=False))
                mtx.vin[0].witness = [want_filed, leaf_script, control]
                res = cm.run(b"", spk, mtx.vin[0].witness, cm.ALL_FLAGS, cm.Checker(mtx, 0, amount, [cm.TxOut(amount, spk)]))
                ctx.mon("musig-psbt:core-model-accepts")
                if res != "OK":
                    fail("musig-psbt:core-model-rejects-the-spend", f"Core model says {res} for the script path spend", witness=[x.hex() for x in mtx.vin[0].witness])
                ltx = Tx.parse(mtx.ser(True))
                o = outcome(verify_input, spent[1], ltx, 0)
                ctx.mon("musig-psbt:engine-accepts")
                if o[0] == "raise":
                    fail("musig-psbt:engine-rejects-the-spend", f"verify_input refuses the MuSig2 script path spend: {o[1]!r}", tx=mtx.ser(True).hex())
                ctx.case("musig-psbt:script-path", (mode, tuple(idx), sort, sig64), sample={k_: d[k_] for k_ in ("mode", "secret_keys", "sorted")})
                ctx.classes[f"musig-psbt:signers:{k}"] += 1
                continue
            o = outcome(lambda: extract_tx(finalize(psbt)))
            if o[0] == "raise":
                fail(f"musig-psbt:finalize-raised:{_exc_tag(o[1])}", f"finalize / extract_tx raised {o[1]!r}")
                continue
            ftx = o[1]
            o = outcome(verify_input, spent[1], ftx, 0)
            ctx.mon("musig-psbt:engine-accepts")
            if o[0] == "raise":
                fail("musig-psbt:engine-rejects-the-spend", f"verify_input refuses the finalized MuSig2 key-path spend: {o[1]!r}",
                     tx=ftx.serialize(include_witness=True).hex())
            mtx = cm.parse_tx(ftx.serialize(include_witness=True))
            res = cm.run(mtx.vin[0].script_sig, spk, mtx.vin[0].witness, cm.ALL_FLAGS, cm.Checker(mtx, 0, amount, [cm.TxOut(amount, spk)]))
            ctx.mon("musig-psbt:core-model-accepts")
            if res != "OK":
                fail("musig-psbt:core-model-rejects-the-spend", f"Core model says {res} for the finalized spend",
                     tx=ftx.serialize(include_witness=True).hex())
            ctx.case("musig-psbt:" + ("taproot-tweak" if mode.startswith("taproot-tweak") else mode), (mode, tuple(idx), sort, tuple(path), sig64),
                     sample={k_: d[k_] for k_ in ("mode", "secret_keys", "bip328_path", "merkle_root", "sorted")})
            ctx.classes[f"musig-psbt:signers:{k}"] += 1
            if rctx.Q[1] & 1:
                ctx.stat("musig-psbt:odd-output-point")
    finally:
        if backend_available():
            set_backend(True)
        reach.stop()
        reach.report(ctx)


# ====================================================================== ECDH
HASHES = ["sha256", "sha1", "sha512", "sha3_256", "sha224"]


def _ecdh_pair(ctx: Ctx, dh, ec, name: str, a: int, QB, b: int, QA, z: bytes, arms, tag: str) -> None:
    rng = ctx.rng
    variants = [(32, None, "sha256")] + [(rng.choice([1, 16, 20, 31, 32, 33, 64, 65, 100, 255]), rng.choice([None, b"", rng.randbytes(rng.randrange(1, 40))]),
                                          rng.choice(HASHES)) for _ in range(2)]
    for size, info, hname in variants:
        hf = getattr(hashlib, hname)
        want = ref_x963(z, size, hname, info)
        got = []
        for who, (d_, Q_) in (("A", (a, QB)), ("B", (b, QA))):
            arm = rng.choice(arms)
            if arm is not None:
                set_backend(arm)
                ctx.stat(f"ecdh:arm:{_armname(arm)}")
            o = outcome(dh, d_, Q_, size, info, ec, hf)
            case = {"curve": name, "dA": hex(a), "dB": hex(b), "QA": QA, "QB": QB, "size": size, "shared_info": info, "hash": hname,
                    "party": who, "arm": None if arm is None else _armname(arm)}
            if o[0] == "raise":
                ctx.violation(f"ecdh:honest-exchange-raised:{_exc_tag(o[1])}", f"diffie_hellman raised {o[1]!r} for a valid key pair on {name}", case)
                got.append(None)
                continue
            got.append(o[1])
            ctx.mon("ecdh:vs-reference")
            if o[1] != want:
                ctx.violation(f"ecdh:secret-differs-from-reference:{tag}", f"{name}: party {who} derives {o[1].hex()}, "
                              f"ANSI-X9.63-KDF over the reference x-coordinate gives {want.hex()}", case)
        ctx.mon("ecdh:sides-equal")
        if got[0] is not None and got[1] is not None and got[0] != got[1]:
            ctx.violation(f"ecdh:sides-differ:{tag}", f"{name}: the two parties derive different secrets", case)
        ctx.case(f"ecdh:{tag}", (name, a, b, size, info, hname), sample={"curve": name, "dA": hex(a), "dB": hex(b), "size": size, "hash": hname})


def shard_ecdh(ctx: Ctx) -> None:
    from btclib import kdf
    from btclib.curves.curve import CURVES
    from btclib.ecc.dh import diffie_hellman

    reach = _reach()
    ArmRecorder(ctx).install()
    rng = ctx.rng
    try:
        names = list(CURVES)
        for rnd in range(ctx.params["pairs"]):
            for name in names:
                if ctx.out_of_time():
                    break
                ec = CURVES[name]
                rc = rec.RefCurve(ec.p, ec._a, ec._b, tuple(ec.G), ec.n, name)
                k1 = name == "secp256k1"
                specials = [1, 2, ec.n - 1, ec.n - 2]
                a = specials[rnd] if rnd < 4 and rng.random() < 0.5 else rng.randrange(1, ec.n)
                b = rng.randrange(1, ec.n)
                QA, QB = rc.mul(a, rc.G), rc.mul(b, rc.G)
                S = rc.mul(a, QB)
                if S is None:
                    continue
                z = S[0].to_bytes(ec.p_size, "big")
                arms = _arms() if k1 and backend_available() else [None]
                for _ in range(4 if k1 else 1):
                    _ecdh_pair(ctx, diffie_hellman, ec, name, a, QB, b, QA, z, arms, "catalogued")
                # the same shared value through HKDF, both parties
                hname = rng.choice(HASHES)
                hl = hashlib.new(hname).digest_size
                size = rng.choice([1, hl - 1, hl, hl + 1, 3 * hl, 255 * hl])
                salt, info = rng.choice([None, b"", rng.randbytes(13)]), rng.choice([None, b"", rng.randbytes(21)])
                want = ref_hkdf(z, size, hname, salt, info)
                o = outcome(kdf.hkdf, z, size, getattr(hashlib, hname), salt, info)
                if o[0] == "raise" or o[1] != want:
                    ctx.violation("ecdh:hkdf-differs-from-rfc5869", f"hkdf({hname}, size={size}) -> {o[1]!r}",
                                  {"ikm": z, "size": size, "hash": hname, "salt": salt, "info": info})
                ctx.case("ecdh:hkdf", (name, z, size, hname, salt, info))
    finally:
        if backend_available():
            set_backend(True)
        reach.stop()
        reach.report(ctx)


def shard_ecdh_toy(ctx: Ctx) -> None:
    """Every pair of private keys of every admitted toy curve: both parties, against the brute-force group."""
    from btclib.curves.curve import Curve
    from btclib.ecc.dh import diffie_hellman

    reach = _reach()
    rng = ctx.rng
    cap = 120 if ctx.tier == "quick" else 600
    try:
        for p in ctx.params["primes"]:
            curves = [t for t in rec.toy_curves(p) if t[2] >= 5]
            rng.shuffle(curves)
            used = 0
            for rc, Gt, n, h, _N in curves:
                if ctx.out_of_time() or used >= cap:
                    break
                o = outcome(Curve, p, rc.a, rc.b, Gt, n, h, False)
                if o[0] == "raise":
                    continue
                ec = o[1]
                used += 1
                S = rc.subgroup(Gt)
                size, hname = rng.choice([(1, "sha256"), (32, "sha256"), (40, "sha1")])
                hf = getattr(hashlib, hname)
                bad = 0
                for a in range(1, n):
                    for b in range(a, n):
                        z = S[a * b % n][0].to_bytes(ec.p_size, "big")
                        want = ref_x963(z, size, hname, None)
                        oa = outcome(diffie_hellman, a, S[b], size, None, ec, hf)
                        ob = outcome(diffie_hellman, b, S[a], size, None, ec, hf)
                        if oa[0] == "raise" or ob[0] == "raise" or oa[1] != want or ob[1] != want:
                            bad += 1
                            e = oa[1] if oa[0] == "raise" else ob[1]
                            tag = f"ecdh:honest-exchange-raised:{_exc_tag(e)}" if "raise" in (oa[0], ob[0]) else \
                                ("ecdh:sides-differ:toy" if oa[1] != ob[1] else "ecdh:secret-differs-from-reference:toy")
                            ctx.violation(tag, f"toy curve p={p} a={rc.a} b={rc.b} n={n}: dA={a}, dB={b}: A gets {oa[1]!r}, B gets {ob[1]!r}, "
                                          f"reference {want.hex()}", {"p": p, "a": rc.a, "b": rc.b, "G": Gt, "n": n, "h": h, "dA": a, "dB": b,
                                                                      "size": size, "hash": hname})
                cnt = n * (n - 1) // 2
                ctx.bulk("ecdh:toy", cnt)
                ctx.mon("ecdh:sides-equal", cnt)
                ctx.mon("ecdh:vs-reference", 2 * cnt)
            if used and used < cap:
                ctx.exhaustive.append(f"ECDH on toy curves over F_{p}: every admitted prime-order subgroup (n >= 5), every unordered pair of private keys")
            ctx.sample("ecdh:toy", {"p": p, "curves": used})
    finally:
        reach.stop()
        reach.report(ctx)


# ============================================================ ElligatorSwift
def shard_ellswift(ctx: Ctx) -> None:
    from btclib.curves.curve import CURVES
    from btclib.ecc import ellswift as ell

    from ..ref import bip340 as r340
    from ..ref import ellswift as rell

    reach = _reach()
    ArmRecorder(ctx).install()
    rng = ctx.rng
    arms = _arms()
    pool = _pool(rng, 24)

    def on(arm):
        if backend_available():
            set_backend(arm)
        ctx.stat(f"ellswift:arm:{_armname(arm)}")

    try:
        for it in range(ctx.params["n"]):
            if ctx.out_of_time():
                ctx.notes.append(f"{ctx.shard}: budget reached after {it} iterations")
                break
            A, B = rng.sample(pool, 2)
            # --- the library's encodings: judged by the BIP324 decoder, and decoded back on each arm
            ells = []
            for key in (A, B):
                arm = rng.choice(arms)
                on(arm)
                how = rng.choice(["create_var", "encode_var", "encode_var:octets"])
                if how == "create_var":
                    o = outcome(ell.create_var, key.sk)
                elif how == "encode_var":
                    o = outcome(ell.encode_var, key.P)
                else:
                    o = outcome(ell.encode_var, key.pk)
                case = {"secret_key": f"{key.sk:064x}", "how": how, "arm": _armname(arm)}
                if o[0] == "raise":
                    ctx.violation(f"ellswift:honest-encoding-raised:{_exc_tag(o[1])}", f"{how} raised {o[1]!r}", case)
                    ells.append(None)
                    continue
                e = bytes(o[1])
                ells.append(e)
                case["ellswift"] = e.hex()
                ctx.mon("ellswift:decode-vs-reference")
                if len(e) != 64 or rell.decode_x(e) != key.P[0]:
                    ctx.violation(f"ellswift:encoding-decodes-to-another-key:{how}", f"{how} on the {_armname(arm)} arm gives an encoding that "
                                  "BIP324 ellswift_decode maps to another x-coordinate", case)
                for arm2 in arms:
                    on(arm2)
                    o = outcome(ell.decode_var, e)
                    if o[0] == "raise" or tuple(o[1]) != key.P:
                        ctx.violation("ellswift:decode-of-own-encoding-differs", f"decode_var({how}(P)) on the {_armname(arm2)} arm -> {o[1]!r}, P = {key.P}",
                                      {**case, "decode_arm": _armname(arm2)})
                ctx.case("ellswift:lib-encoding", ("lib", key.sk, e), sample=case)
            # --- reference encodings (u and case drawn here), plus edge encodings with u, t outside 1..p-1
            for key in (A, B):
                e = rell.encode_x(key.P[0], rng)
                kind = "reference-encoding"
                if it % 5 == 0:
                    u = rng.choice([0, P_, P_ + 1, (1 << 256) - 1, rng.randrange(P_, 1 << 256)])
                    t = rng.choice([0, P_, P_ + 2, (1 << 256) - 1, rng.randrange(1, P_)])
                    e = u.to_bytes(32, "big") + t.to_bytes(32, "big")
                    kind = "edge-encoding"
                want = rell.decode_x(e)
                for arm2 in arms:
                    on(arm2)
                    o = outcome(ell.decode_var, e)
                    ctx.mon("ellswift:decode-vs-reference")
                    if o[0] == "raise" or o[1][0] != want:
                        ctx.violation(f"ellswift:decode-differs-from-bip324:{kind}", f"decode_var({e.hex()}) on the {_armname(arm2)} arm -> {o[1]!r}, "
                                      f"BIP324 gives x = {want:064x}", {"ellswift": e.hex(), "arm": _armname(arm2)})
                ctx.case(f"ellswift:{kind}", (kind, e))
                if kind == "reference-encoding" and rng.random() < 0.5:
                    ells[0 if key is A else 1] = e   # an honest peer running another implementation
            # --- x-only ECDH, the two parties possibly on different arms
            if ells[0] is not None and ells[1] is not None:
                ea, eb = ells
                want = rell.xdh(ea, eb, A.sk, 0)
                got = []
                for party, key in ((0, A), (1, B)):
                    arm = rng.choice(arms)
                    on(arm)
                    o = outcome(ell.xdh, ea, eb, key.sk, party)
                    case = {"ell_a": ea.hex(), "ell_b": eb.hex(), "prv_a": f"{A.sk:064x}", "prv_b": f"{B.sk:064x}", "party": party, "arm": _armname(arm)}
                    ctx.mon("ellswift:xdh-vs-reference")
                    if o[0] == "raise":
                        ctx.violation(f"ellswift:honest-xdh-raised:{_exc_tag(o[1])}", f"xdh raised {o[1]!r}", case)
                        got.append(None)
                    else:
                        got.append(bytes(o[1]))
                        if got[-1] != want:
                            ctx.violation("ellswift:xdh-differs-from-bip324", f"party {party} on the {_armname(arm)} arm derives {got[-1].hex()}, "
                                          f"BIP324 gives {want.hex()}", case)
                ctx.mon("ellswift:sides-equal")
                if None not in got and got[0] != got[1]:
                    ctx.violation("ellswift:xdh-sides-differ", "initiator and responder derive different secrets", case)
                if rell.xdh(ea, eb, B.sk, 1) != want:
                    ctx.oracle_broken("bip324 reference xdh not symmetric", "")
                ctx.case("ellswift:xdh", ("xdh", ea, eb), sample={"ell_a": ea.hex(), "ell_b": eb.hex()})
            # --- the other curves with a == 0 (Python arm only; the group law is the reference)
            if it % 6 == 0:
                name = rng.choice(["secp160k1", "secp192k1", "secp224k1"])
                ec = CURVES[name]
                rc = rec.RefCurve(ec.p, ec._a, ec._b, tuple(ec.G), ec.n, name)
                a, b = rng.randrange(1, ec.n), rng.randrange(1, ec.n)
                Pa, Pb = rc.mul(a, rc.G), rc.mul(b, rc.G)
                oa, ob = outcome(ell.encode_var, Pa, ec), outcome(ell.create_var, b, ec)
                case = {"curve": name, "prv_a": hex(a), "prv_b": hex(b)}
                if oa[0] == "raise" or ob[0] == "raise":
                    e = oa[1] if oa[0] == "raise" else ob[1]
                    if is_lib_exc(e) and "a == 0" in str(e):
                        ctx.stat(f"ellswift:curve-unsupported:{name}")
                    else:
                        ctx.violation(f"ellswift:honest-encoding-raised:{_exc_tag(e)}", f"{name}: encoding raised {e!r}", case)
                else:
                    ea, eb = bytes(oa[1]), bytes(ob[1])
                    case.update(ell_a=ea.hex(), ell_b=eb.hex())
                    for e, Pt in ((ea, Pa), (eb, Pb)):
                        o = outcome(ell.decode_var, e, ec)
                        if o[0] == "raise" or tuple(o[1]) != Pt:
                            ctx.violation("ellswift:decode-of-own-encoding-differs", f"{name}: decode_var(encoding of P) -> {o[1]!r}, P = {Pt}", case)
                    x = rc.mul(a, Pb)[0].to_bytes(ec.p_size, "big")
                    want = r340.tagged_hash("bip324_ellswift_xonly_ecdh", ea + eb + x)
                    sa, sb = outcome(ell.xdh, ea, eb, a, 0, ec), outcome(ell.xdh, ea, eb, b, 1, ec)
                    ctx.mon("ellswift:sides-equal")
                    ctx.mon("ellswift:xdh-vs-reference", 2)
                    if sa[0] == "raise" or sb[0] == "raise":
                        e = sa[1] if sa[0] == "raise" else sb[1]
                        ctx.violation(f"ellswift:honest-xdh-raised:{_exc_tag(e)}", f"{name}: xdh raised {e!r}", case)
                    elif sa[1] != sb[1]:
                        ctx.violation("ellswift:xdh-sides-differ", f"{name}: the two parties derive different secrets", case)
                    elif sa[1] != want:
                        ctx.violation("ellswift:xdh-differs-from-group-law", f"{name}: both parties derive {sa[1].hex()}, the shared x-coordinate hashes to {want.hex()}", case)
                    ctx.case("ellswift:other-curve", (name, a, b, ea, eb), sample=case)
    finally:
        if backend_available():
            set_backend(True)
        reach.stop()
        reach.report(ctx)


# ============================================================== ECIES, DLEQ
def _aes_cbc():
    from cryptography.hazmat.primitives import padding
    from cryptography.hazmat.primitives.ciphers import Cipher, algorithms, modes

    def enc(key: bytes, iv: bytes, msg: bytes) -> bytes:
        padder = padding.PKCS7(128).padder()
        e = Cipher(algorithms.AES(key), modes.CBC(iv)).encryptor()
        return e.update(padder.update(msg) + padder.finalize()) + e.finalize()

    def dec(key: bytes, iv: bytes, ct: bytes) -> bytes:
        d = Cipher(algorithms.AES(key), modes.CBC(iv)).decryptor()
        un = padding.PKCS7(128).unpadder()
        return un.update(d.update(ct) + d.finalize()) + un.finalize()

    return enc, dec


def _ser33(Pt) -> bytes:
    return bytes([2 + (Pt[1] & 1)]) + Pt[0].to_bytes(32, "big")


def _ref_bie1(msg: bytes, eph: int, Pr, enc) -> bytes:
    """The BIE1 envelope (Electrum): sha512 of the compressed ECDH point -> iv | key_e | key_m; AES-128-CBC; HMAC-SHA256."""
    hsh = hashlib.sha512(_ser33(EC.mul_nored(eph, Pr))).digest()
    iv, key_e, key_m = hsh[:16], hsh[16:32], hsh[32:]
    body = b"BIE1" + _ser33(EC.mul_nored(eph, G)) + enc(key_e, iv, msg)
    return body + _hmac.new(key_m, body, hashlib.sha256).digest()


def shard_ecies_dleq(ctx: Ctx) -> None:
    import base64

    from btclib.ecc import dleq, ecies

    from ..ref import dleq as rdleq

    reach = _reach()
    ArmRecorder(ctx).install()
    rng = ctx.rng
    arms = _arms()
    pool = _pool(rng, 24)
    enc, dec = _aes_cbc()

    def on(arm):
        if backend_available():
            set_backend(arm)

    try:
        for it in range(ctx.params["n"]):
            if ctx.out_of_time():
                ctx.notes.append(f"{ctx.shard}: budget reached after {it} iterations")
                break
            # ------------------------------------------------------------ ECIES
            R, O = rng.sample(pool, 2)
            eph = rng.choice([1, N - 1, rng.randrange(1, N), rng.randrange(1, N)])
            msg = rng.randbytes(rng.choice([0, 1, 15, 16, 17, 32, 100, 1000]))
            pub = rng.choice([R.pk, R.P, R.pk.hex()])
            arm = rng.choice(arms)
            on(arm)
            case = {"recipient_prv": f"{R.sk:064x}", "other_prv": f"{O.sk:064x}", "eph_prv": f"{eph:064x}", "msg": msg, "arm": _armname(arm)}
            o = outcome(ecies.encrypt, msg, pub, enc, eph_prv_key=eph)
            if o[0] == "raise":
                ctx.violation(f"ecies:honest-encrypt-raised:{_exc_tag(o[1])}", f"encrypt raised {o[1]!r}", case)
            else:
                armor = o[1]
                case["armor"] = armor
                arm2 = rng.choice(arms)
                on(arm2)
                o = outcome(ecies.decrypt, armor, R.sk, dec)
                ctx.mon("ecies:decrypts-to-itself")
                if o[0] == "raise" or o[1] != msg:
                    ctx.violation("ecies:message-does-not-decrypt-to-itself", f"decrypt(encrypt(m)) on the {_armname(arm2)} arm -> {o[1]!r}", case)
                ctx.case("ecies:roundtrip", ("ecies", R.sk, eph, msg))
                want = _ref_bie1(msg, eph, R.P, enc)
                if base64.b64decode(armor) != want:
                    ctx.stat("ecies:envelope-differs-from-reference-bie1")
                # another key
                o = outcome(ecies.decrypt, armor, O.sk, dec)
                ctx.mon("ecies:other-key-refused")
                if o[0] == "ok":
                    ctx.violation("ecies:decrypts-under-another-key", f"decrypt with another private key returned {o[1]!r}", case)
                elif not is_lib_exc(o[1]):
                    ctx.violation(f"ecies:wrong-key-foreign-exception:{type(o[1]).__name__}", f"decrypt with another key raised {o[1]!r}", case)
                ctx.case("ecies:wrong-key", ("ecies-wrong", R.sk, O.sk, eph, msg))
                # tampered envelopes: one bit anywhere after the magic
                raw = bytearray(base64.b64decode(armor))
                for _ in range(3):
                    pos = rng.choice([4, rng.randrange(5, 37), rng.randrange(37, len(raw) - 32), len(raw) - 32, len(raw) - 1, rng.randrange(4, len(raw))])
                    t = bytearray(raw)
                    t[pos] ^= 1 << rng.randrange(8)
                    o = outcome(ecies.decrypt, base64.b64encode(bytes(t)).decode(), R.sk, dec)
                    ctx.mon("ecies:other-key-refused")
                    if o[0] == "ok":
                        ctx.violation("ecies:tampered-envelope-decrypts", f"bit flipped at byte {pos}: decrypt returned {o[1]!r}", {**case, "tampered_byte": pos})
                    elif not is_lib_exc(o[1]):
                        ctx.violation(f"ecies:tampered-foreign-exception:{type(o[1]).__name__}", f"tampered envelope raised {o[1]!r}", {**case, "tampered_byte": pos})
                    ctx.case("ecies:tampered", ("ecies-t", R.sk, eph, msg, pos))
            # an honest sender running another implementation
            msg2 = rng.randbytes(rng.choice([0, 5, 16, 48, 333]))
            eph2 = rng.randrange(1, N)
            armor2 = base64.b64encode(_ref_bie1(msg2, eph2, R.P, enc)).decode()
            arm = rng.choice(arms)
            on(arm)
            o = outcome(ecies.decrypt, armor2, R.sk, dec)
            ctx.mon("ecies:decrypts-to-itself")
            if o[0] == "raise" or o[1] != msg2:
                ctx.violation("ecies:reference-envelope-not-decrypted", f"a BIE1 envelope built by the reference -> {o[1]!r}",
                              {"recipient_prv": f"{R.sk:064x}", "eph_prv": f"{eph2:064x}", "msg": msg2, "armor": armor2, "arm": _armname(arm)})
            ctx.case("ecies:reference-envelope", ("ecies-ref", R.sk, eph2, msg2))

            # ------------------------------------------------------------- DLEQ
            Ak, Bk = rng.sample(pool, 2)
            a = Ak.sk
            gen = rng.choice([None, None, rng.choice(pool)])
            Gp = G if gen is None else gen.P
            m = rng.choice([None, rng.randbytes(32), rng.randbytes(32)])
            aux = rng.choice([None, rng.randbytes(32), rng.randbytes(32)])
            A = Ak.P if gen is None else EC.mul_nored(a, Gp)
            C = EC.mul_nored(a, Bk.P)
            arm = rng.choice(arms)
            on(arm)
            case = {"a": f"{a:064x}", "B": _ser33(Bk.P), "G": _ser33(Gp), "msg": m, "aux": aux, "arm": _armname(arm)}
            kw = {} if gen is None else {"G": rng.choice([Gp, _ser33(Gp)])}
            o = outcome(dleq.generate_proof, a, rng.choice([Bk.P, Bk.pk]), aux, msg=m, **kw)
            if o[0] == "raise":
                ctx.violation(f"dleq:honest-proof-raised:{_exc_tag(o[1])}", f"generate_proof raised {o[1]!r}", case)
                continue
            proof = bytes(o[1])
            case["proof"] = proof
            if aux is not None and rdleq.generate_proof(a, Bk.P, aux, Gp, m) != proof:
                ctx.stat("dleq:proof-differs-from-bip374-generator")
            ctx.mon("dleq:reference-verifies")
            if not rdleq.verify_proof(A, Bk.P, C, proof, Gp, m):
                ctx.violation("dleq:own-proof-invalid-by-bip374", "generate_proof returned a proof the BIP374 verifier rejects for its own statement", case)
            for arm2 in arms:
                on(arm2)
                o = outcome(dleq.verify_proof, A, Bk.pk, _ser33(C), proof, msg=m, **kw)
                ctx.mon("dleq:verifies")
                if o[0] == "raise" or o[1] is not True:
                    ctx.violation("dleq:own-proof-rejected", f"verify_proof on the {_armname(arm2)} arm -> {o[1]!r} for the statement the proof was made for",
                                  {**case, "verify_arm": _armname(arm2)})
            ctx.case("dleq:own-proof", ("dleq", a, Bk.sk, Gp, m, proof), sample=case)
            # altered statements: refused (demanded when the BIP374 verifier refuses them too)
            X = rng.choice(pool).P
            flip = bytearray(proof)
            flip[rng.randrange(64)] ^= 1 << rng.randrange(8)
            m_alt = (bytes([m[0] ^ 1]) + m[1:]) if m is not None else rng.randbytes(32)
            alts = [
                ("A-other-point", (X, Bk.P, C, proof, Gp, m)), ("A-negated", (EC.neg(A), Bk.P, C, proof, Gp, m)),
                ("B-other-point", (A, X, C, proof, Gp, m)), ("B-and-C-swapped", (A, C, Bk.P, proof, Gp, m)),
                ("C-negated", (A, Bk.P, EC.neg(C), proof, Gp, m)), ("C-other-point", (A, Bk.P, X, proof, Gp, m)),
                ("A-and-C-negated", (EC.neg(A), Bk.P, EC.neg(C), proof, Gp, m)),
                ("G-other-point", (A, Bk.P, C, proof, EC.add(Gp, Gp), m)), ("message-bit", (A, Bk.P, C, proof, Gp, m_alt)),
                ("message-dropped" if m is not None else "message-added", (A, Bk.P, C, proof, Gp, None if m is not None else bytes(32))),
                ("proof-bit", (A, Bk.P, C, bytes(flip), Gp, m)),
                ("proof-s-plus-n", (A, Bk.P, C, proof[:32] + ((int.from_bytes(proof[32:], "big") + N) % (1 << 256)).to_bytes(32, "big"), Gp, m)),
            ]
            on(rng.choice(arms))
            for tag, (A_, B_, C_, pr_, G_, m_) in alts:
                if (A_, B_, C_, pr_, G_, m_) == (A, Bk.P, C, proof, Gp, m):
                    continue
                o = outcome(dleq.verify_proof, A_, B_, C_, pr_, G_, m_)
                ctx.mon("dleq:altered-refused")
                if o[0] == "raise":
                    if not is_lib_exc(o[1]):
                        ctx.violation(f"dleq:altered-foreign-exception:{type(o[1]).__name__}", f"altered statement ({tag}) raised {o[1]!r}", {**case, "altered": tag})
                elif o[1] is not False:
                    # accepted: a refutation unless the BIP374 verifier accepts the altered statement too
                    if rdleq.verify_proof(A_, B_, C_, pr_, G_, m_):
                        ctx.stat(f"dleq:alteration-still-valid:{tag}")
                    else:
                        ctx.violation(f"dleq:altered-statement-accepted:{tag}", f"the proof verifies for an altered statement ({tag})", {**case, "altered": tag})
                ctx.case("dleq:altered", ("dleq-alt", tag, a, Bk.sk, proof))
                ctx.classes[f"dleq:altered:{tag}"] += 1
    finally:
        if backend_available():
            set_backend(True)
        reach.stop()
        reach.report(ctx)


# =============================== Pedersen, Borromean, sign-to-contract nonce
def shard_commit_ring(ctx: Ctx) -> None:
    from btclib.curves.curve import CURVES
    from btclib.ecc import borromean, commit_nonce, pedersen

    reach = _reach()
    ArmRecorder(ctx).install()
    rng = ctx.rng
    arms = _arms()
    curve_names = ["secp256k1", "secp256k1", "secp256r1", "secp192k1", "secp160r1", "secp224k1", "bpp256r1", "secp384r1"]
    Hs: dict = {}

    def on(arm):
        if backend_available():
            set_backend(arm)

    try:
        for it in range(ctx.params["n"]):
            if ctx.out_of_time():
                ctx.notes.append(f"{ctx.shard}: budget reached after {it} iterations")
                break
            name = curve_names[it % len(curve_names)]
            ec = CURVES[name]
            rc = rec.RefCurve(ec.p, ec._a, ec._b, tuple(ec.G), ec.n, name)
            hname = rng.choice(["sha256", "sha256", "sha1", "sha512"])
            hf = getattr(hashlib, hname)
            on(rng.choice(arms))
            # ---------------------------------------------------------- Pedersen
            r_, v_ = rng.choice([0, 1, ec.n - 1, rng.randrange(ec.n), rng.randrange(ec.n)]), rng.choice([0, 1, 2**32, rng.randrange(ec.n)])
            case = {"curve": name, "hash": hname, "r": hex(r_), "v": hex(v_)}
            if (name, hname) not in Hs:
                o = outcome(pedersen.second_generator, ec, hf)
                Hs[(name, hname)] = tuple(o[1]) if o[0] == "ok" and rc.on_curve(tuple(o[1])) and o[1][1] else None
                if Hs[(name, hname)] is None:
                    ctx.violation("pedersen:second-generator-invalid", f"second_generator({name}, {hname}) -> {o[1]!r}", case)
            H = Hs[(name, hname)]
            o = outcome(pedersen.commit, r_, v_, ec, hf)
            want = rc.add(rc.mul(r_, rc.G), rc.mul(v_, H)) if H else None
            if o[0] == "raise":
                if want is None and is_lib_exc(o[1]):
                    ctx.stat("pedersen:commitment-at-infinity-refused")
                else:
                    ctx.violation(f"pedersen:honest-commit-raised:{_exc_tag(o[1])}", f"commit raised {o[1]!r}", case)
            elif H:
                Cm = tuple(o[1])
                ctx.mon("pedersen:opens")
                if Cm != want:
                    ctx.violation("pedersen:commitment-is-not-rG+vH", f"commit -> {Cm}, the group law gives {want}", case)
                o = outcome(pedersen.verify, r_, v_, Cm, ec, hf)
                if o[0] == "raise" or o[1] is not True:
                    ctx.violation("pedersen:own-commitment-does-not-open", f"verify(r, v, commit(r, v)) -> {o[1]!r}", case)
                o = outcome(pedersen.verify, r_ + ec.n, v_ - ec.n, Cm, ec, hf)
                if o[0] == "raise" or o[1] is not True:
                    ctx.stat("pedersen:congruent-opening-refused")
                for tag, args in (("r+1", (r_ + 1, v_, Cm)), ("v+1", (r_, v_ + 1, Cm)), ("r-v-swapped", (v_, r_, Cm)),
                                  ("commitment-negated", (r_, v_, rc.neg(Cm))), ("commitment-plus-G", (r_, v_, rc.add(Cm, rc.G)))):
                    wc = rc.add(rc.mul(args[0], rc.G), rc.mul(args[1], H))
                    if wc == args[2] or args[2] is None:
                        continue
                    o = outcome(pedersen.verify, *args, ec, hf)
                    ctx.mon("pedersen:tamper-refused")
                    if o[0] == "ok" and o[1] is not False:
                        ctx.violation(f"pedersen:wrong-opening-accepted:{tag}", f"verify accepts a wrong opening ({tag})", {**case, "tamper": tag})
                    elif o[0] == "raise" and not is_lib_exc(o[1]):
                        ctx.violation(f"pedersen:tamper-foreign-exception:{type(o[1]).__name__}", f"{tag}: raised {o[1]!r}", {**case, "tamper": tag})
                ctx.case("pedersen:commit", ("ped", name, hname, r_, v_), sample=case)
            # --------------------------------------------------------- Borromean
            nrings = rng.randrange(1, 4)
            sizes = [rng.randrange(1, 5) for _ in range(nrings)]
            prvs = [[rng.randrange(1, ec.n) for _ in range(s)] for s in sizes]
            rings = [[rc.mul(q, rc.G) for q in ring] for ring in prvs]
            if rng.random() < 0.2 and sizes[0] > 1:
                rings[0][1] = rings[0][0]
                prvs[0][1] = prvs[0][0]
            where = [rng.choice([0, s - 1, rng.randrange(s)]) for s in sizes]
            ks = [rng.randrange(1, ec.n) for _ in sizes]
            bmsg = rng.randbytes(rng.choice([0, 1, 32, 77]))
            bcase = {"curve": name, "hash": hname, "ring_sizes": sizes, "sign_key_idx": where, "msg": bmsg,
                     "prv_keys": [[hex(q) for q in ring] for ring in prvs], "nonces": [hex(x) for x in ks]}
            o = outcome(borromean.sign, bmsg, ks, where, [prvs[i][j] for i, j in enumerate(where)], rings, ec, hf)
            if o[0] == "raise":
                ctx.violation(f"borromean:honest-sign-raised:{_exc_tag(o[1])}", f"sign raised {o[1]!r}", bcase)
            else:
                sig = o[1]
                bcase["e0"] = sig.e0
                bcase["s"] = [[hex(x) for x in ring] for ring in sig.s]
                on(rng.choice(arms))
                o = outcome(borromean.verify, bmsg, sig, rings, ec, hf)
                ctx.mon("borromean:verifies")
                if o[0] == "raise" or o[1] is not True:
                    ctx.violation("borromean:own-signature-rejected", f"verify(sign(...)) -> {o[1]!r}", bcase)
                if name == "secp256k1" and hname == "sha256":
                    o = outcome(borromean.verify, bmsg, sig.serialize(), rings)
                    if o[0] == "raise" or o[1] is not True:
                        ctx.violation("borromean:own-serialized-signature-rejected", f"verify(sign(...).serialize()) -> {o[1]!r}", bcase)
                i = rng.randrange(nrings)
                j = rng.randrange(sizes[i])
                s_t = [list(ring) for ring in sig.s]
                s_t[i][j] = (s_t[i][j] + 1) % ec.n
                rings_t = [list(ring) for ring in rings]
                rings_t[i][j] = rc.add(rings[i][j], rc.G) or rc.G
                tampers = [("message", (bmsg + b"\x00", sig, rings)), ("s-value", (bmsg, borromean.BorromeanSig(sig.e0, s_t, ec), rings)),
                           ("e0-bit", (bmsg, borromean.BorromeanSig(bytes([sig.e0[0] ^ 1]) + sig.e0[1:], sig.s, ec), rings)),
                           ("ring-key", (bmsg, sig, rings_t))]
                if nrings > 1 and rings[0] != rings[1]:
                    tampers.append(("rings-reordered", (bmsg, sig, [rings[1], rings[0]] + rings[2:])))
                for tag, args in tampers:
                    o = outcome(borromean.verify, *args, ec, hf)
                    ctx.mon("borromean:tamper-refused")
                    if o[0] == "ok" and o[1] is not False:
                        ctx.violation(f"borromean:tampered-signature-accepted:{tag}", f"verify accepts a signature after tampering with {tag}", {**bcase, "tamper": tag})
                    elif o[0] == "raise" and not is_lib_exc(o[1]):
                        ctx.violation(f"borromean:tamper-foreign-exception:{type(o[1]).__name__}", f"{tag}: raised {o[1]!r}", {**bcase, "tamper": tag})
                ctx.case("borromean:sign", ("bor", name, hname, tuple(sizes), tuple(where), sig.e0), sample={k_: bcase[k_] for k_ in ("curve", "hash", "ring_sizes", "sign_key_idx")})
                ctx.classes["borromean:signer-" + ("first" if where[0] == 0 else "last" if where[0] == sizes[0] - 1 else "middle")] += 1
            # ---------------------------------------- sign-to-contract nonce
            nonce = rng.choice([1, ec.n - 1, rng.randrange(1, ec.n)])
            ch = rng.randbytes(32)
            tag_b = rng.choice([b"btclib/s2c", b"x", b"BIP0340/s2c"])
            arm = rng.choice(arms)
            on(arm)
            o = outcome(commit_nonce.commit_nonce_, ch, nonce, tag_b, ec, hf)
            scase = {"curve": name, "hash": hname, "nonce": hex(nonce), "commit_hash": ch, "tag": tag_b, "arm": _armname(arm)}
            if o[0] == "raise":
                if is_lib_exc(o[1]) and "zero tweaked nonce" in str(o[1]):
                    ctx.stat("s2c:zero-tweaked-nonce")
                else:
                    ctx.violation(f"s2c:honest-commit-raised:{_exc_tag(o[1])}", f"commit_nonce_ raised {o[1]!r}", scase)
            else:
                kk, receipt = o[1]
                on(rng.choice(arms))
                o = outcome(commit_nonce.commit_point_, ch, receipt, tag_b, ec, hf)
                ctx.mon("s2c:point-matches")
                if tuple(receipt) != rc.mul(nonce, rc.G):
                    ctx.violation("s2c:receipt-is-not-the-nonce-point", f"receipt {receipt} != nonce*G", scase)
                if o[0] == "raise" or tuple(o[1]) != rc.mul(kk, rc.G):
                    ctx.violation("s2c:verifier-point-differs-from-signer-nonce", f"commit_point_ -> {o[1]!r}, the signer's tweaked nonce gives {rc.mul(kk, rc.G)}", scase)
                ctx.case("s2c:commit", ("s2c", name, hname, nonce, ch, tag_b), sample=scase)
    finally:
        if backend_available():
            set_backend(True)
        reach.stop()
        reach.report(ctx)


# ============================================================ silent payments
class Wallet:
    def __init__(self, rng, r352, nlabels: int):
        self.scan = Key(rng.randrange(1, N))
        self.spend = Key(rng.randrange(1, N))
        ms = [0, 1, 2, 3, 7, (1 << 32) - 1, rng.randrange(1 << 32), rng.randrange(1 << 16)]
        rng.shuffle(ms)
        self.ms = ms[:nlabels]
        self.label_pts = {m: r352.labeled_spend_key(self.scan.sk, self.spend.P, m) for m in self.ms}
        self.addr = r352.encode_address(self.scan.P, self.spend.P)
        self.opened: dict = {}

    def opens(self, d: int, x: bytes) -> bool:
        """Does the private key d generate the x-only output key?  (reference group law, cached)"""
        if d not in self.opened:
            Pt = EC.mul_nored(d % N, G)
            self.opened[d] = None if Pt is None else Pt[0].to_bytes(32, "big")
        return self.opened[d] == x


def _spk(kind: str, key: Key, r352) -> bytes:
    if kind == "p2tr":
        return b"\x51\x20" + key.P[0].to_bytes(32, "big")
    if kind == "p2wpkh":
        return b"\x00\x14" + r352.hash160(key.pk)
    if kind == "p2pkh":
        return b"\x76\xa9\x14" + r352.hash160(key.pk) + b"\x88\xac"
    return b"\xa9\x14" + r352.hash160(b"\x00\x14" + r352.hash160(key.pk)) + b"\x87"


def _gen_outpoints(rng, n_in: int):
    """[(txid display bytes, vout)], with the orders BIP352's 'smallest outpoint' is sensitive to."""
    style = rng.choice(["random", "random", "same-txid", "same-txid-byte-order", "near-txids"])
    if style == "random" or n_in == 1:
        return "random", [(rng.randbytes(32), rng.choice([0, 1, rng.randrange(1 << 32)])) for _ in range(n_in)]
    if style == "same-txid":
        t = rng.randbytes(32)
        return style, [(t, v) for v in rng.sample(range(0, 12), n_in)]
    if style == "same-txid-byte-order":
        t = rng.randbytes(32)   # little-endian vout: 256 serializes below 1
        return "same-txid", [(t, v) for v in rng.sample([1, 256, 2, 65536, 255, 1 << 24], n_in)]
    base = bytearray(rng.randbytes(32))
    out = []
    for i in range(n_in):
        b = bytearray(base)
        b[rng.choice([0, 31])] = i * 37 % 256   # differ in the first or last displayed byte only
        out.append((bytes(b), rng.randrange(3)))
    return style, out


def _sp_tx(ctx: Ctx, sp, OutPoint, r352, pool, wallets) -> None:
    rng = ctx.rng
    have_b = backend_available()
    # ---- inputs
    n_in = rng.choice([1, 1, 2, 2, 3, 4])
    kinds = [rng.choice(["p2tr", "p2tr", "p2wpkh", "p2pkh", "p2sh-p2wpkh"]) for _ in range(n_in)]
    keys = rng.sample(pool, n_in)
    if n_in > 1 and rng.random() < 0.15:
        keys[1] = keys[0]
    spks = [_spk(kd, ky, r352) for kd, ky in zip(kinds, keys)]
    ref_keys = [(ky.sk, kd == "p2tr") for kd, ky in zip(kinds, keys)]
    a_sum = r352.prv_key_sum(ref_keys)
    if a_sum == 0:
        return
    A_sum = EC.mul_nored(a_sum, G)
    style, ops = _gen_outpoints(rng, n_in)
    ops36 = [t[::-1] + v.to_bytes(4, "little") for t, v in ops]
    ih = r352.input_hash(ops36, A_sum)
    if not 0 < ih < N:
        return
    # ---- recipients
    ws = rng.sample(wallets, rng.choice([1, 1, 2, 3]))
    pattern = rng.choice(["single", "repeated", "labels", "labels-repeated", "interleaved", "many"])
    recips = []   # (wallet, label or None)

    def lab(w):
        return rng.choice(w.ms) if w.ms else None

    for w in ws:
        if pattern == "single":
            recips.append((w, None))
        elif pattern == "repeated":
            recips += [(w, None)] * rng.randrange(2, 5)
        elif pattern == "labels":
            recips += [(w, None), (w, lab(w))] if rng.random() < 0.6 else [(w, lab(w))]
        elif pattern == "labels-repeated":
            m = lab(w)
            recips += [(w, m), (w, None), (w, m), (w, lab(w))][: rng.randrange(2, 5)]
        elif pattern == "interleaved":
            recips += [(w, rng.choice([None] + w.ms)) for _ in range(rng.randrange(1, 4))]
        else:
            recips += [(w, rng.choice([None, None] + w.ms)) for _ in range(rng.randrange(3, 7))]
    if pattern in ("interleaved", "many"):
        rng.shuffle(recips)
    d: dict = {"inputs": [{"prv": f"{ky.sk:064x}", "kind": kd} for kd, ky in zip(kinds, keys)],
               "outpoints": [[t.hex(), v] for t, v in ops], "pattern": pattern,
               "wallets": [{"b_scan": f"{w.scan.sk:064x}", "b_spend": f"{w.spend.sk:064x}", "labels": w.ms} for w in ws],
               "recipients": [[ws.index(w), m] for w, m in recips]}

    def fail(mech, text, **extra):
        ctx.violation(mech, text, {**d, **extra})

    addresses, ref_recips = [], []
    for w, m in recips:
        if m is None:
            addresses.append(w.addr if rng.random() < 0.8 else r352.encode_address(w.scan.P, w.spend.P, "tsp"))
            ref_recips.append((w.scan.P, w.spend.P))
        else:
            want = r352.encode_address(w.scan.P, w.label_pts[m])
            o = outcome(sp.labeled_address_from_keys, w.scan.sk, rng.choice([w.spend.P, w.spend.pk]), m)
            if o[0] == "raise":
                fail(f"sp:honest-labelled-address-raised:{_exc_tag(o[1])}", f"labeled_address_from_keys raised {o[1]!r}", label=m)
                return
            if o[1] != want:
                fail("sp:labelled-address-differs-from-bip352", f"label {m}: {o[1]} instead of {want}", label=m)
            addresses.append(o[1])
            ref_recips.append((w.scan.P, w.label_pts[m]))
    d["addresses"] = addresses
    want_outs = r352.create_outputs(ref_keys, ops36, ref_recips)

    # ---- sender, on each arm
    lib_ops = [OutPoint(t, v) for t, v in ops]
    if [o_.serialize() for o_ in lib_ops] != ops36:
        ctx.inconclusive_("OutPoint.serialize differs from the harness's 36-byte outpoint: silent-payment cases not comparable")
        return
    outs_by_arm = {}
    for arm in (_arms() if have_b else [False]):
        if have_b:
            set_backend(arm)
        ctx.stat(f"sp:arm:{_armname(arm)}")
        prv_in = [(rng.choice([ky.sk, ky.skb]), spk) for ky, spk in zip(keys, spks)]
        o = outcome(sp.output_keys, prv_in, lib_ops, addresses)
        ctx.mon("sp:sender-vs-bip352")
        if o[0] == "raise":
            fail(f"sp:honest-sender-raised:{_armname(arm)}:{_exc_tag(o[1])}", f"output_keys raised {o[1]!r} on the {_armname(arm)} arm", arm=_armname(arm))
            continue
        outs = [bytes(x) for x in o[1]]
        if sorted(outs) != sorted(want_outs):
            if len(outs) == len(ref_recips) and r352.is_valid_output_set(outs, ref_keys, ops36, ref_recips):
                ctx.stat("sp:sender-uses-another-k-order")
            else:
                n_tap_odd = sum(1 for kd, ky in zip(kinds, keys) if kd == "p2tr" and ky.P[1] & 1)
                why = ("wrong-count" if len(outs) != len(ref_recips) else
                       "repeated-output" if len(set(outs)) < len(outs) else
                       "with-odd-y-taproot-input" if n_tap_odd else "other")
                fail(f"sp:sender-outputs-not-bip352:{why}:{_armname(arm)}", f"output_keys on the {_armname(arm)} arm gives {[x.hex() for x in outs]}, "
                     f"BIP352 gives {[x.hex() for x in want_outs]} (in any k order within a group)", arm=_armname(arm), outputs=[x.hex() for x in outs])
                continue
        outs_by_arm[arm] = outs
    if not outs_by_arm:
        return
    outs = outs_by_arm[rng.choice(list(outs_by_arm))]
    d["outputs"] = [x.hex() for x in outs]

    # ---- decoys
    decoys = []
    for _ in range(rng.choice([0, 1, 2, 4])):
        c = rng.random()
        if c < 0.6:
            decoys.append(rng.choice(pool).P[0].to_bytes(32, "big"))
        elif c < 0.8:
            x = rng.randrange(P_)
            while EC.lift_x(x) is not None:
                x = rng.randrange(P_)
            decoys.append(x.to_bytes(32, "big"))          # not an x-coordinate at all
        else:
            w = rng.choice(wallets)                           # a payment to one of the wallets from *another* transaction
            decoys.append(r352.create_outputs([(rng.choice(pool).sk, False)], [rng.randbytes(36)], [(w.scan.P, w.spend.P)])[0])
    decoys = [x for x in decoys if x not in outs]
    all_outs = outs + decoys
    rng.shuffle(all_outs)
    d["decoys"] = [x.hex() for x in decoys]
    d["scanned_outputs"] = [x.hex() for x in all_outs]

    # ---- light-client tweak
    want_tweak = EC.mul_nored(ih, A_sum)
    o = outcome(sp.tweak_data, lib_ops, rng.choice([A_sum, _ser33(A_sum)]))
    tweak = None
    if o[0] == "raise":
        fail(f"sp:honest-tweak-data-raised:{_exc_tag(o[1])}", f"tweak_data raised {o[1]!r}")
    elif tuple(o[1]) != want_tweak:
        fail("sp:tweak-data-differs-from-bip352", f"tweak_data -> {o[1]}, input_hash*A_sum = {want_tweak}")
    else:
        tweak = want_tweak

    # ---- every recipient wallet scans
    for w in ws:
        mine = [m for ww, m in recips if ww is w]
        ref_found = r352.scanning(w.scan.sk, w.spend.P, A_sum, ih, all_outs, w.ms)
        if len(ref_found) != len(mine):
            ctx.oracle_broken("bip352 reference scanner does not find what the reference sender created", f"{len(ref_found)} of {len(mine)}")
            continue
        for x, tw in ref_found:
            if not w.opens((w.spend.sk + tw) % N, x):
                ctx.oracle_broken("bip352 reference scanner tweak does not open the output", "")
        want_set = {x for x, _tw in ref_found}
        for arm in (_arms() if have_b else [False]):
            if have_b:
                set_backend(arm)
            lo = outcome(sp.label_lookup, w.scan.sk, w.ms)
            if lo[0] == "raise":
                fail(f"sp:honest-label-lookup-raised:{_exc_tag(lo[1])}", f"label_lookup raised {lo[1]!r}")
                continue
            labels = lo[1] if w.ms else rng.choice([None, {}])
            pub_in = []
            for kd, ky, spk in zip(kinds, keys, spks):
                if kd == "p2tr":
                    even = EC.lift_x(ky.P[0])
                    pub_in.append((rng.choice([ky.P, even, _ser33(even)]), spk))
                else:
                    pub_in.append((rng.choice([ky.P, ky.pk]), spk))
            scans = [("scan_transaction_outputs", lambda: sp.scan_transaction_outputs(w.scan.sk, w.spend.P, lib_ops, pub_in, all_outs, labels))]
            if tweak is not None:
                scans.append(("scan_outputs", lambda: sp.scan_outputs(w.scan.sk, rng.choice([w.spend.P, w.spend.pk]), tweak, all_outs, labels)))
            for sname, call in scans:
                o = outcome(call)
                ctx.mon(f"sp:found:{sname}")
                tagarm = f"{sname}:{_armname(arm)}"
                if o[0] == "raise":
                    fail(f"sp:honest-scan-raised:{tagarm}:{_exc_tag(o[1])}", f"{sname} raised {o[1]!r} on the {_armname(arm)} arm", wallet=ws.index(w))
                    continue
                found = list(o[1])
                got_set = {bytes(f.pub_key) for f in found}
                missing = want_set - got_set
                if missing:
                    n_lab = sum(1 for m in mine if m is not None)
                    why = "labelled-recipient" if n_lab else ("repeated-recipient" if len(mine) > 1 else "single-recipient")
                    n_tap_odd = sum(1 for kd, ky in zip(kinds, keys) if kd == "p2tr" and ky.P[1] & 1)
                    if n_tap_odd:
                        why += "+odd-y-taproot-input"
                    fail(f"sp:created-output-not-found:{tagarm}:{why}", f"{sname} on the {_armname(arm)} arm finds {len(got_set & want_set)} of the "
                         f"{len(want_set)} outputs created for the wallet; missing {[x.hex() for x in missing]}", wallet=ws.index(w), arm=_armname(arm))
                for f in found:
                    x = bytes(f.pub_key)
                    ctx.mon("sp:spend-key-opens")
                    if x not in all_outs:
                        fail(f"sp:found-output-not-in-the-transaction:{tagarm}", f"{sname} reports {x.hex()}, which is not an output it was given", wallet=ws.index(w))
                        continue
                    po = outcome(sp.prv_key_from_tweak, rng.choice([w.spend.sk, w.spend.skb]), f.prv_key_tweak)
                    if po[0] == "raise":
                        fail(f"sp:spend-key-raised:{_exc_tag(po[1])}", f"prv_key_from_tweak raised {po[1]!r}", wallet=ws.index(w))
                    elif not w.opens(po[1], x):
                        fail(f"sp:found-output-not-opened-by-its-key:{tagarm}", f"{sname}: b_spend + tweak does not generate the found output {x.hex()}",
                             wallet=ws.index(w), tweak=hex(f.prv_key_tweak), arm=_armname(arm))
                if got_set - want_set:
                    ctx.stat("sp:found-beyond-the-created-outputs", len(got_set - want_set))
                if any(m is not None for m in mine) and not missing:
                    ctx.stat("sp:labelled-output-found")
    # wallets that were not paid must be able to scan too (nothing demanded of the result but its keys)
    others = [w for w in wallets if w not in ws]
    if others and rng.random() < 0.3:
        w = rng.choice(others)
        if have_b:
            set_backend(rng.random() < 0.5)
        o = outcome(sp.scan_transaction_outputs, w.scan.sk, w.spend.P, lib_ops, [(ky.P, spk) for ky, spk in zip(keys, spks)], all_outs, None)
        if o[0] == "raise":
            fail(f"sp:honest-scan-raised:unpaid-wallet:{_exc_tag(o[1])}", f"scan by an unpaid wallet raised {o[1]!r}")
        elif o[1]:
            for f in o[1]:
                po = outcome(sp.prv_key_from_tweak, w.spend.sk, f.prv_key_tweak)
                if po[0] == "raise" or not w.opens(po[1], bytes(f.pub_key)):
                    fail("sp:found-output-not-opened-by-its-key:unpaid-wallet", "an unpaid wallet 'found' an output its key does not open")
            ctx.stat("sp:unpaid-wallet-found-something")

    # ---- accounting
    ctx.case("sp:tx", (tuple(ky.sk for ky in keys), tuple(kinds), tuple(ops), tuple(addresses), tuple(all_outs)),
             sample={k_: d[k_] for k_ in ("inputs", "outpoints", "pattern", "recipients", "outputs")})
    tap = [ky.P[1] & 1 for kd, ky in zip(kinds, keys) if kd == "p2tr"]
    if any(tap):
        ctx.classes["sp:input:taproot-odd-y"] += 1
    if tap and not all(tap):
        ctx.classes["sp:input:taproot-even-y"] += 1
    if len(tap) < n_in:
        ctx.classes["sp:input:non-taproot"] += 1
    if tap and len(tap) < n_in:
        ctx.classes["sp:input:mixed"] += 1
    for kd in set(kinds):
        ctx.classes[f"sp:input-kind:{kd}"] += 1
    if any(m is not None for _w, m in recips):
        ctx.classes["sp:recipient:labelled"] += 1
    if len(set(addresses)) < len(addresses):
        ctx.classes["sp:recipient:repeated"] += 1
    if decoys:
        ctx.classes["sp:decoys"] += 1
    if style != "random":
        ctx.classes[f"sp:outpoints:{style}"] += 1
    biggest = max(sum(1 for ww, _m in recips if ww is w) for w in ws)
    ctx.classes[f"sp:group-size:{min(biggest, 5)}{'+' if biggest >= 5 else ''}"] += 1
    if biggest >= 3:
        ctx.stat("sp:group-reached-k>=2")
    if len(ws) > 1:
        ctx.classes["sp:several-wallets"] += 1


def shard_sp(ctx: Ctx) -> None:
    from btclib import silent_payments as sp
    from btclib.tx import OutPoint

    from ..ref import bip352 as r352

    reach = _reach()
    ArmRecorder(ctx).install()
    rng = ctx.rng
    pool = _pool(rng, 40)
    # make sure both parities are in the pool
    if not any(k.P[1] & 1 for k in pool) or all(k.P[1] & 1 for k in pool):
        ctx.inconclusive_("key pool has a single y parity")
    wallets = [Wallet(rng, r352, n) for n in (0, 1, 2, 3, 3)]
    try:
        for it in range(ctx.params["txs"]):
            if ctx.out_of_time():
                ctx.notes.append(f"{ctx.shard}: budget reached after {it} transactions")
                break
            _sp_tx(ctx, sp, OutPoint, r352, pool, wallets)
    finally:
        if backend_available():
            set_backend(True)
        reach.stop()
        reach.report(ctx)


def shard_sp_psbt(ctx: Ctx) -> None:
    """BIP375: shares and proofs per input or one global share, derived scripts, then the recipient's scanner."""
    from btclib import silent_payments as sp
    from btclib.bip32 import BIP32KeyOrigin
    from btclib.psbt import Psbt
    from btclib.psbt import silent_payments as psp
    from btclib.psbt.psbt_in import PsbtIn
    from btclib.psbt.psbt_out import PsbtOut
    from btclib.script import ScriptPubKey
    from btclib.tx import TxOut

    from ..ref import bip352 as r352

    reach = _reach()
    ArmRecorder(ctx).install()
    rng = ctx.rng
    pool = _pool(rng, 32)
    wallets = [Wallet(rng, r352, n) for n in (0, 2, 3)]
    have_b = backend_available()
    try:
        for it in range(ctx.params["flows"]):
            if ctx.out_of_time():
                ctx.notes.append(f"{ctx.shard}: budget reached after {it} flows")
                break
            n_in = rng.choice([1, 2, 2, 3])
            kinds = [rng.choice(["p2tr", "p2tr", "p2wpkh", "p2sh-p2wpkh"]) for _ in range(n_in)]
            keys = rng.sample(pool, n_in)
            if n_in >= 2 and it % 4 == 3:
                # address reuse: two or three eligible inputs spend one key (each still has its own share a*B_scan, equal bytes)
                for _ in range(rng.choice([1, 1, 2])):
                    i, j = rng.sample(range(n_in), 2)
                    keys[j] = keys[i]
                ctx.stat("sp-psbt:inputs-sharing-a-key")
            ops = [(rng.randbytes(32), rng.randrange(0, 5)) for _ in range(n_in)]
            ineligible = rng.random() < 0.25
            use_global = it % 2 == 1
            ws = rng.sample(wallets, rng.choice([1, 1, 2]))
            recips = []
            for w in ws:
                recips += [(w, rng.choice([None] + w.ms)) for _ in range(rng.randrange(1, 4))]
            ref_recips = [(w.scan.P, w.spend.P if m is None else w.label_pts[m]) for w, m in recips]
            ref_keys = [(ky.sk, kd == "p2tr") for kd, ky in zip(kinds, keys)]
            if r352.prv_key_sum(ref_keys) == 0:
                continue
            d = {"inputs": [{"prv": f"{ky.sk:064x}", "kind": kd} for kd, ky in zip(kinds, keys)], "outpoints": [[t.hex(), v] for t, v in ops],
                 "global_share": use_global, "ineligible_input": ineligible,
                 "wallets": [{"b_scan": f"{w.scan.sk:064x}", "b_spend": f"{w.spend.sk:064x}", "labels": w.ms} for w in ws],
                 "recipients": [[ws.index(w), m] for w, m in recips]}

            def fail(mech, text, **extra):
                ctx.violation(mech, text, {**d, **extra})

            def build():
                ins = []
                for kd, ky, (t, v) in zip(kinds, keys, ops):
                    spk = _spk(kd, ky, r352)
                    kw = {"witness_utxo": TxOut(rng.randrange(10000, 10**7), ScriptPubKey(spk, check_validity=False)), "previous_tx_id": t, "output_index": v}
                    if kd == "p2tr":
                        kw["taproot_internal_key"] = rng.randbytes(32) if rng.random() < 0.5 else ky.P[0].to_bytes(32, "big")
                        if EC.lift_x(int.from_bytes(kw["taproot_internal_key"], "big")) is None:
                            kw["taproot_internal_key"] = ky.P[0].to_bytes(32, "big")
                    else:
                        kw["hd_key_paths"] = {ky.pk: BIP32KeyOrigin(rng.randbytes(4), [rng.randrange(1 << 31), rng.randrange(1 << 31)])}
                        if kd == "p2sh-p2wpkh":
                            kw["redeem_script"] = b"\x00\x14" + r352.hash160(ky.pk)
                    ins.append(PsbtIn(**kw))
                if ineligible:
                    t, v = rng.randbytes(32), rng.randrange(3)
                    ops_all.append((t, v))
                    ins.append(PsbtIn(witness_utxo=TxOut(5000, ScriptPubKey(b"\x00\x20" + rng.randbytes(32), check_validity=False)),
                                      previous_tx_id=t, output_index=v, witness_script=b"\x51"))
                outs = [PsbtOut(amount=rng.randrange(600, 10**6), sp_v0_info=_ser33(s_) + _ser33(m_)) for s_, m_ in ref_recips]
                outs.insert(rng.randrange(len(outs) + 1), PsbtOut(amount=700, script_pub_key=b"\x00\x14" + rng.randbytes(20)))
                psbt = Psbt(2, ins, outs, 2, {}, tx_modifiable=rng.choice([0, 3, None]))
                psbt.assert_valid()
                return psbt

            ops_all = list(ops)
            if have_b:
                arm = rng.random() < 0.5
                set_backend(arm)
                d["arm"] = _armname(arm)
            o = outcome(build)
            if o[0] == "raise":
                fail(f"sp-psbt:setup-raised:{_exc_tag(o[1])}", f"building the BIP375 PSBT raised {o[1]!r}")
                continue
            psbt = o[1]
            # the signer's scalar for a taproot input is the one of the even-y output key (BIP375)
            eff = [(N - ky.sk) if kd == "p2tr" and ky.P[1] & 1 else ky.sk for kd, ky in zip(kinds, keys)]
            if any(kd == "p2tr" and ky.P[1] & 1 for kd, ky in zip(kinds, keys)) and rng.random() < 0.3:
                j = next(i for i, (kd, ky) in enumerate(zip(kinds, keys)) if kd == "p2tr" and ky.P[1] & 1)
                o = outcome(psp.set_input_share, Psbt.parse(psbt.serialize()), j, keys[j].sk)
                ctx.stat("sp-psbt:odd-y-taproot-key-as-is:" + ("accepted" if o[0] == "ok" else "refused"))

            def roles():
                nonlocal psbt
                aux = rng.choice([None, rng.randbytes(32)])
                if use_global:
                    psp.set_global_share(psbt, eff, aux)
                else:
                    order = list(range(n_in))
                    rng.shuffle(order)
                    for i in order:
                        psp.set_input_share(psbt, i, eff[i], aux)
                if rng.random() < 0.5:
                    psbt = Psbt.parse(psbt.serialize())
                psp.set_output_scripts(psbt)
                psp.assert_as_valid(psbt)
                psbt = Psbt.parse(psbt.serialize())
                psp.assert_as_valid(psbt)
                return True

            o = outcome(roles)
            if o[0] == "raise":
                fail(f"sp-psbt:honest-roles-raised:{'global' if use_global else 'per-input'}:{_exc_tag(o[1])}",
                     f"set_*_share / set_output_scripts / assert_as_valid raised {o[1]!r}")
                continue
            d["psbt"] = psbt.serialize().hex()
            got = [bytes(o_.script_pub_key) for o_ in psbt.outputs if o_.sp_v0_info]
            ctx.mon("sp-psbt:scripts-vs-bip352")
            if any(len(x) != 34 or x[:2] != b"\x51\x20" for x in got):
                fail("sp-psbt:derived-script-is-not-p2tr", f"derived scripts {[x.hex() for x in got]}")
                continue
            got = [x[2:] for x in got]
            ops36 = [t[::-1] + v.to_bytes(4, "little") for t, v in ops_all]
            want = r352.create_outputs(ref_keys, ops36, ref_recips)
            if got != want:
                if sorted(got) != sorted(want) and not r352.is_valid_output_set(got, ref_keys, ops36, ref_recips):
                    fail(f"sp-psbt:derived-scripts-not-bip352:{'global' if use_global else 'per-input'}-share",
                         f"derived output keys {[x.hex() for x in got]}, BIP352 gives {[x.hex() for x in want]}")
                    continue
                ctx.stat("sp-psbt:another-k-order")
            # the recipients scan the transaction
            lib_ops = [pi.prev_out for pi in psbt.inputs]
            pub_in = [(ky.P, _spk(kd, ky, r352)) for kd, ky in zip(kinds, keys)]
            all_outs = list(got) + [rng.choice(pool).P[0].to_bytes(32, "big")]
            rng.shuffle(all_outs)
            for w in ws:
                n_mine = sum(1 for ww, _m in recips if ww is w)
                if have_b:
                    set_backend(rng.random() < 0.5)
                lo = outcome(lambda: sp.scan_transaction_outputs(w.scan.sk, w.spend.P, lib_ops, pub_in, all_outs, sp.label_lookup(w.scan.sk, w.ms)))
                ctx.mon("sp-psbt:found")
                if lo[0] == "raise":
                    fail(f"sp-psbt:honest-scan-raised:{_exc_tag(lo[1])}", f"scan_transaction_outputs raised {lo[1]!r}")
                    continue
                found = list(lo[1])
                good = 0
                for f in found:
                    po = outcome(sp.prv_key_from_tweak, w.spend.sk, f.prv_key_tweak)
                    if po[0] == "ok" and bytes(f.pub_key) in got and w.opens(po[1], bytes(f.pub_key)):
                        good += 1
                    else:
                        fail("sp-psbt:found-output-not-opened-by-its-key", f"found {bytes(f.pub_key).hex()} without a key that opens it", wallet=ws.index(w))
                if good < n_mine:
                    fail("sp-psbt:created-output-not-found", f"the wallet was paid {n_mine} outputs through the PSBT and finds {good}", wallet=ws.index(w))
            ctx.case("sp-psbt:global-share" if use_global else "sp-psbt:per-input-shares",
                     (tuple(ky.sk for ky in keys), tuple(kinds), tuple(ops_all), tuple(got), use_global),
                     sample={k_: d[k_] for k_ in ("inputs", "outpoints", "global_share", "recipients")})
            if ineligible:
                ctx.classes["sp-psbt:with-ineligible-input"] += 1
            if any(kd == "p2tr" and ky.P[1] & 1 for kd, ky in zip(kinds, keys)):
                ctx.classes["sp-psbt:taproot-odd-y"] += 1
    finally:
        if backend_available():
            set_backend(True)
        reach.stop()
        reach.report(ctx)
