"""C07 - BIP32 derivation obeys the BIP's equations and its algebraic laws.

Reference-model monitor: every extended key the library returns (from a seed, along a
path in one call or in any split of it, from a private or a public parent, neutered
before or after) is compared field by field with ``rv.ref.bip32`` (HMAC-SHA512 +
``rv.ref.ec``).  Fault injection replaces ``hmac`` inside ``btclib.bip32.bip32`` for
one targeted call to drive the 2^-127 branches (I_L >= n, child key zero, child point
at infinity): the refusal is demanded, and an answer is classified (was it the key of
index+1?).  The applications on top (account-level derivation, path spellings, SLIP132,
BIP44-family addresses, BIP85) are compared with formulas computed from the same
reference and ``hashlib``.
"""

from __future__ import annotations

import functools
import json
import os
import types

from ..ctx import Ctx, is_lib_exc, outcome
from ..hooks import ArmRecorder, NthCall, Reach, backend_available, patched, rebind, set_backend
from ..ref import bip32 as rb

PROPERTY = "C07"
RULE = (
    "seeds of 16..64 bytes (length classes 16,20,24,32,33,48,63,64 then uniform) x every private version prefix "
    "(BIP32 + SLIP132, main and test) x paths of depth 0..12 (quick) / 0..20 (thorough) plus total depths up to 255, "
    "indexes class-stratified over {0, 1, small, 2^31-2, 2^31-1, 2^31, 2^31+1, 2^32-1, uniform unhardened, uniform "
    "hardened}, path shapes {all unhardened, all hardened, hardened prefix + unhardened tail, mixed}; for every path "
    "every prefix node, every split point (private and public parent), neutering at every node, public derivation "
    "from every node of the unhardened tail, parent-key recovery at every unhardened step; every case on both "
    "arithmetic arms. A case is non-trivial when the reference result was computed independently and compared; "
    "distinct = distinct (function, key material, path, arm). Fault injection: one hmac call of a derivation "
    "replaced by a crafted digest (I_L in {0, 1, n-1, n, n+d, 2^256-1, n-k_par, n-k_par+1}) at the first, a middle "
    "or the last step."
)
ASSUMPTIONS = [
    "rv.ref.bip32 (CKDpriv/CKDpub written out from BIP32 over rv.ref.ec, serialization and fingerprints included) "
    "is the specification; it is self-tested on BIP32's vectors, BIP32's invalid keys, BIP85's vectors and the "
    "SLIP132/BIP49/BIP84/BIP86 address vectors",
    "hashlib (SHA-256, SHA-512, RIPEMD-160, SHAKE256) and hmac of the standard library are correct",
    "SLIP-0132's table of version bytes is transcribed correctly into rv.ref.bip32.VERSIONS",
    "BIP85 mnemonics in languages other than English are compared through btclib's own BIP39 decoder "
    "(English through the reference encoder and the published word list)",
    "BIP32 defines depth as one byte: derivations whose total depth exceeds 255 are not judged (recorded as stat)",
]

H = rb.HARDENED
VEC = os.path.join(os.path.dirname(os.path.dirname(os.path.dirname(os.path.abspath(__file__)))), "vectors")

SEED_LENS = [16, 32, 64, 20, 24, 33, 48, 63, 0, 0]  # 0 = uniform 16..64
INDEX_CLASSES = ["0", "1", "small", "2^31-2", "2^31-1", "2^31", "2^31+1", "2^32-1", "uniform-u", "uniform-h",
                 "small-h"]
SHAPES = ["tail", "unhardened", "mixed", "hardened"]

MECH_FUNCS = [
    "btclib.bip32.bip32:_rootxprv_from_seed",
    "btclib.bip32.bip32:__prv_key_derivation",
    "btclib.bip32.bip32:__pub_key_derivation",
    "btclib.bip32.bip32:_pub_key_offset",
    "btclib.bip32.bip32:_invalid_child",
    "btclib.bip32.bip32:_PythonPubKeyTweakChain.tweak_add",
    "btclib.bip32.bip32:pub_key_derivation_tweaks",
    "btclib.bip32.bip32:__prv_key_path_derivation",
    "btclib.bip32.bip32:__pub_key_path_derivation",
    "btclib.bip32.bip32:_derive",
    "btclib.bip32.bip32:_xpub_from_xprv",
    "btclib.bip32.bip32:_force_version",
    "btclib.bip32.bip32:derive_from_account_",
    "btclib.bip32.bip32:derive_from_account_range_",
    "btclib.bip32.bip32:crack_prv_key_var",
    "btclib.bip32.bip32:fingerprint",
    "btclib.network:xpubversion_from_xprvversion",
    "btclib.bip32.der_path:indexes_from_der_path",
    "btclib.bip32.der_path:str_from_der_path",
    "btclib.bip32.der_path:bytes_from_der_path",
    "btclib.bip44:address_from_der_path",
    "btclib.bip85:entropy_from_der_path",
    "btclib.slip132:address_from_xpub",
    "btclib.slip132:p2wpkh_xkey",
]


# ------------------------------------------------------------------- plan
def plan(tier: str, seed: int) -> list[dict]:
    q = tier == "quick"
    tmo = 500 if q else 2700
    # the short shard first and bip85 last: with 16 workers the 17th/18th shard of the thorough tier starts when
    # derpath has finished, not after a full-budget shard
    specs = [{"name": "derpath", "fn": "shard_derpath", "n": 1500 if q else 40000,
              "_budget_s": 40 if q else 500, "_timeout_s": tmo}]
    for i in range(7 if q else 8):
        specs.append({"name": f"derive-{i}", "fn": "shard_derive", "part": i, "max_depth": 12 if q else 20,
                      "n": 10**9, "_budget_s": 62 if q else 780, "_timeout_s": tmo})
    for i in range(2):
        specs.append({"name": f"deep-{i}", "fn": "shard_deep", "part": i,
                      "_budget_s": 50 if q else 780, "_timeout_s": tmo})
    for i in range(2):
        specs.append({"name": f"inject-{i}", "fn": "shard_inject", "part": i,
                      "_budget_s": 55 if q else 780, "_timeout_s": tmo})
    specs.append({"name": "versions", "fn": "shard_versions", "_budget_s": 55 if q else 700, "_timeout_s": tmo})
    specs.append({"name": "bip44", "fn": "shard_bip44", "_budget_s": 50 if q else 600, "_timeout_s": tmo})
    specs.append({"name": "account", "fn": "shard_account", "_budget_s": 45 if q else 600, "_timeout_s": tmo})
    specs.append({"name": "bip85", "fn": "shard_bip85", "_budget_s": 45 if q else 450, "_timeout_s": tmo})
    return specs


def finalize(m: dict, tier: str) -> list[str]:
    out = []
    c, r, a, mon = m["classes"], m["reached"], m["arms"], m["monitors"]
    have_bind = backend_available()
    arms = ["bindings", "python"] if have_bind else ["python"]
    if not have_bind:
        out.append("btclib_secp256k1 bindings not installed: bindings arm unobserved")
    for arm in arms:
        for k in ("derive:prv:depth>=2", "derive:pub:depth>=2", "split:prv", "split:pub", "neuter", "commute",
                  "hardened-from-public", "crack", "deep:prv", "deep:pub"):
            if not c.get(f"{k}:{arm}"):
                out.append(f"input class {k} never evaluated on the {arm} arm")
        if not a.get(arm):
            out.append(f"{arm} arm never served a call")
        for side in ("prv", "pub"):
            for kind in ("IL=n", "IL>n", "IL=max", "zero-key" if side == "prv" else "infinity",
                         "IL=0", "IL=n-1", "near-invalid"):
                if not mon.get(f"inject:reached:{kind}:{side}:{arm}"):
                    out.append(f"injected fault {kind} never reached its target call ({side}, {arm} arm)")
        for kind in ("master:IL=0", "master:IL=n"):
            if not mon.get(f"inject:reached:{kind}:prv:{arm}"):
                out.append(f"injected fault {kind} never reached its target call ({arm} arm)")
    for k in ("root-from-seed", "fingerprint", "pub-tweaks", "account:single", "account:range", "derpath:spelling",
              "derpath:roundtrip", "derpath:derive-equal", "key-origin", "version:neuter-pairing",
              "version:forced", "slip132:xkey", "slip132:address", "bip44:address:p2pkh", "bip44:address:p2wpkh-p2sh",
              "bip44:address:p2wpkh", "bip44:address:p2tr", "bip44:public-account", "bip85:entropy",
              "bip85:mnemonic", "bip85:wif", "bip85:xprv", "bip85:hex", "bip85:pwd64", "bip85:pwd85", "bip85:dice",
              "bip85:drng", "index:2^31-1", "index:2^31", "index:2^32-1", "index:0"):
        if not c.get(k):
            out.append(f"input class {k} never evaluated")
    need = ["_rootxprv_from_seed", "__prv_key_derivation", "__pub_key_derivation", "_pub_key_offset", "_invalid_child",
            "_PythonPubKeyTweakChain.tweak_add", "__prv_key_path_derivation", "__pub_key_path_derivation",
            "_xpub_from_xprv", "derive_from_account_range_", "crack_prv_key_var", "xpubversion_from_xprvversion",
            "indexes_from_der_path", "address_from_der_path", "entropy_from_der_path", "pub_key_derivation_tweaks"]
    for f in need:
        if not r.get(f):
            out.append(f"mechanism {f} never entered")
    if not mon.get("M1:mult"):
        out.append("M1 (curve.mult postcondition) never evaluated")
    return out


# ---------------------------------------------------------------- helpers
def _arms():
    return [(True, "bindings"), (False, "python")] if backend_available() else [(False, "python")]


def _reach(ctx: Ctx) -> Reach:
    reach = Reach()
    for d in MECH_FUNCS:
        if not reach.watch_path(d):
            ctx.notes.append(f"mechanism function not found: {d}")
    reach.start()
    return reach


def _install_m1(ctx: Ctx, one_in: int = 24) -> None:
    """M1: postcondition on curve.mult where the library itself calls it (sampled)."""
    from btclib.curves import curve as C

    orig = C.mult
    state = {"n": 0}

    @functools.wraps(orig)
    def w(m, Q=None, ec=C.secp256k1):
        r = orig(m, Q, ec)
        state["n"] += 1
        if state["n"] % one_in == 0 and ec is C.secp256k1 and isinstance(m, int):
            base = rb.EC.G if Q is None else (None if Q[1] == 0 else (Q[0], Q[1]))
            want = rb.EC.mul(m, base)
            got = None if r[1] == 0 else (r[0], r[1])
            ctx.mon("M1:mult")
            if got != want:
                ctx.violation("M1:mult-wrong-point", f"curve.mult({hex(m)}, {Q}) inside a BIP32 flow gave {r}",
                              {"m": m, "Q": Q, "got": r, "want": want})
        return r

    w.__wrapped_original__ = orig  # type: ignore[attr-defined]
    ctx.stat("M1:bindings-rebound", rebind(orig, w))


def _t(k) -> tuple:
    return (k.version, k.depth, k.parent_fingerprint, k.index, k.chain_code, k.key)


CMP_ORDER = ("depth", "index", "parent_fingerprint", "version", "chain_code", "key")


def _cmp(ctx: Ctx, mech: str, got, want: rb.XKey, case: dict) -> bool:
    """Field-by-field comparison of a library BIP32KeyData with the reference XKey."""
    for f in CMP_ORDER:
        g, w = getattr(got, f), getattr(want, f)
        if g != w:
            ctx.violation(f"{mech}:{f}", f"{mech}: field {f} is {g.hex() if isinstance(g, bytes) else g}, BIP32 gives "
                                         f"{w.hex() if isinstance(w, bytes) else w}",
                          {**case, "got": _t(got), "want": tuple(want)})
            return False
    return True


def _expect_key(ctx: Ctx, mech: str, o, want: rb.XKey, case: dict) -> bool:
    if o[0] == "raise":
        tag = "refused-valid" if is_lib_exc(o[1]) else "foreign-exception"
        ctx.violation(f"{mech}:{tag}", f"{mech}: {o[1]!r} where BIP32 defines a key", {**case, "want": tuple(want)})
        return False
    return _cmp(ctx, mech, o[1], want, case)


def _expect_str(ctx: Ctx, mech: str, o, want: str, case: dict) -> bool:
    if o[0] == "raise":
        tag = "refused-valid" if is_lib_exc(o[1]) else "foreign-exception"
        ctx.violation(f"{mech}:{tag}", f"{mech}: {o[1]!r} where the specification defines {want}", {**case, "want": want})
        return False
    if o[1] != want:
        ctx.violation(f"{mech}:wrong", f"{mech}: got {o[1]!r}, specification gives {want!r}",
                      {**case, "got": o[1], "want": want})
        return False
    return True


def _expect_refusal(ctx: Ctx, mech: str, o, case: dict, answered_tag: str = "answered") -> bool:
    """The call must end in a BTClibValueError."""
    from btclib.exceptions import BTClibValueError

    if o[0] == "ok":
        got = _t(o[1]) if hasattr(o[1], "chain_code") else o[1]
        ctx.violation(f"{mech}:{answered_tag}", f"{mech}: answered {str(got)[:200]} where a refusal is required",
                      {**case, "got": got})
        return False
    if not isinstance(o[1], BTClibValueError):
        ctx.violation(f"{mech}:foreign-exception", f"{mech}: raised {o[1]!r} instead of BTClibValueError", case)
        return False
    return True


def _gen_index(rng, cls: str) -> int:
    return {
        "0": 0, "1": 1, "small": rng.randrange(2, 1000), "2^31-2": H - 2, "2^31-1": H - 1, "2^31": H, "2^31+1": H + 1,
        "2^32-1": 2 * H - 1, "uniform-u": rng.randrange(H), "uniform-h": rng.randrange(H, 2 * H),
        "small-h": H + rng.randrange(0, 1000),
    }[cls]


U_CLASSES = ["0", "1", "small", "2^31-2", "2^31-1", "uniform-u"]
H_CLASSES = ["2^31", "2^31+1", "2^32-1", "uniform-h", "small-h"]


def _gen_path(rng, depth: int, shape: str, it: int = 0) -> list[int]:
    if shape == "unhardened":
        cl = [U_CLASSES[(it + j) % len(U_CLASSES)] if rng.random() < 0.6 else rng.choice(U_CLASSES) for j in range(depth)]
    elif shape == "hardened":
        cl = [H_CLASSES[(it + j) % len(H_CLASSES)] if rng.random() < 0.6 else rng.choice(H_CLASSES) for j in range(depth)]
    elif shape == "tail":
        k = rng.randrange(0, depth + 1)
        cl = [rng.choice(H_CLASSES) for _ in range(k)] + [rng.choice(U_CLASSES) for _ in range(depth - k)]
    else:
        cl = [INDEX_CLASSES[(it + j) % len(INDEX_CLASSES)] if rng.random() < 0.5 else rng.choice(INDEX_CLASSES)
              for j in range(depth)]
    return [_gen_index(rng, c) for c in cl]


def _index_class(i: int) -> str:
    return {0: "0", 1: "1", H - 2: "2^31-2", H - 1: "2^31-1", H: "2^31", H + 1: "2^31+1", 2 * H - 1: "2^32-1"}.get(
        i, "other-hardened" if i >= H else "other-unhardened")


def _spell(rng, idxs, how: str | None = None):
    """One of the DerPath spellings of a list of indexes."""
    how = how or rng.choice(["list", "str-h", "str-mixed", "bytes", "tuple", "str-nom", "int"])
    if how == "int" and len(idxs) == 1:
        return idxs[0]
    if how == "bytes":
        return b"".join(i.to_bytes(4, "little") for i in idxs)
    if how == "tuple":
        return tuple(idxs)
    if how.startswith("str"):
        syms = {"str-h": "h", "str-'": "'", "str-H": "H"}.get(how)
        steps = [(f"{i - H}{syms or rng.choice('hH' + chr(39))}" if i >= H else str(i)) for i in idxs]
        lead = [] if how == "str-nom" else [rng.choice("mM") if how == "str-mixed" else "m"]
        return "/".join(lead + steps)
    return list(idxs)


def _unhardened_tail_start(path) -> int:
    u = len(path)
    while u > 0 and path[u - 1] < H:
        u -= 1
    return u


def _load(name: str):
    with open(os.path.join(VEC, name)) as f:
        return json.load(f)


def _vec_path(s: str) -> list[int]:
    return [int(p[:-1]) + H if p[-1] in "Hh'" else int(p) for p in s.split("/")[1:]]


def _selftest(ctx: Ctx, full: bool = True) -> bool:
    """The reference against published vectors; never consults the library."""
    try:
        n = 0
        for seed, rows in _load("bip32_test_vectors.json").items():
            r = rb.root(bytes.fromhex(seed))
            for path, xpub, xprv in rows:
                x = rb.derive(r, _vec_path(path))
                if x.b58() != xprv or rb.neuter(x).b58() != xpub or rb.decode(xprv) != x or rb.decode(xpub) != rb.neuter(x):
                    ctx.oracle_broken("ref.bip32 vs BIP32 vector", f"{seed[:8]} {path}")
                    return False
                # public derivation of the reference on the unhardened steps of the vectors
                p = _vec_path(path)
                if p and p[-1] < H:
                    par = rb.derive(r, p[:-1])
                    if rb.child(rb.neuter(par), p[-1]).b58() != xpub:
                        ctx.oracle_broken("ref.bip32 CKDpub vs BIP32 vector", path)
                        return False
                    if rb.parent_prv_from_child(rb.neuter(par), x) != par:
                        ctx.oracle_broken("ref.bip32 parent recovery", path)
                        return False
                n += 1
        ctx.oracle_ok("bip32_test_vectors", n)
        n = 0
        for s, why in _load("bip32_invalid_keys.json"):
            try:
                rb.decode(s)
            except rb.Malformed:
                n += 1
                continue
            ctx.oracle_broken("ref.bip32.decode accepted an invalid key", why)
            return False
        ctx.oracle_ok("bip32_invalid_keys", n)
        if not full:
            return True
        b = _load("bip85_test_vectors.json")
        rk = rb.decode(b["master_bip32_root_key"])
        wl = open(os.path.join(VEC, "bip39_english.txt"), encoding="utf8").read().split()
        ok = len(wl) == 2048
        for e in b["entropy"]:
            ok &= rb.bip85_key(rk, _vec_path(e["path"])).hex() == e["derived_key"]
            ok &= rb.bip85_entropy(rk, _vec_path(e["path"])).hex() == e["derived_entropy"]
        for e in b["bip39"]:
            ent = rb.bip85_mnemonic_entropy(rk, e["words"], 0, 0)
            ok &= ent.hex() == e["derived_entropy"] and rb.bip39_mnemonic(ent, wl) == e["derived_bip39_mnemonic"]
        ok &= rb.bip85_wif(rk, 0) == b["hd_seed_wif"][0]["derived_wif"]
        ok &= rb.bip85_xprv(rk, 0) == b["xprv"][0]["derived_xprv"]
        ok &= rb.bip85_hex(rk, 64, 0).hex() == b["hex"][0]["derived_entropy"]
        e = b["drng"][0]
        ok &= rb.bip85_drng(bytes.fromhex(e["derived_entropy"]), e["num_bytes"]).hex() == e["drng"]
        ok &= rb.bip85_pwd64(rk, 21, 0) == b["pwd_base64"][0]["derived_pwd"]
        ok &= rb.bip85_pwd85(rk, 12, 0) == b["pwd_base85"][0]["derived_pwd"]
        e = b["dice"][0]
        ok &= ",".join(map(str, rb.bip85_rolls(rk, e["sides"], e["rolls"], 0))) == e["derived_rolls"]
        if not ok:
            ctx.oracle_broken("ref.bip32 BIP85 vs BIP85 vectors")
            return False
        ctx.oracle_ok("bip85_test_vectors", 12)
        n = 0
        for v in _load("bip44_family_vectors.json")["vectors"]:
            mk, p = rb.decode(v["master"]), _vec_path(v["path"])
            st, net = rb.PURPOSE_SCRIPT_TYPE[p[0] - H], rb.NET_OF_VERSION[mk.version]
            acc = rb.neuter(rb.derive(mk, p[:3]))
            pub = rb.decode(v["account_xpub"])
            if (pub._replace(version=acc.version) != acc or rb.address(rb.derive(pub, p[3:]).key, st, net) != v["address"]
                    or rb.address(rb.xkey_pubkey(rb.derive(mk, p)), st, net) != v["address"]):
                ctx.oracle_broken("ref.bip32 addresses vs SLIP132/BIP49/BIP84/BIP86 vector", v["path"])
                return False
            n += 1
        ctx.oracle_ok("bip44_family_vectors", n)
        n = 0
        for addr, spk, meta in _load("key_io_valid.json"):
            net = "main" if meta["chain"] == "main" else "test"
            if meta.get("isPrivkey"):
                if meta.get("isCompressed") and rb.wif(bytes.fromhex(spk), net) != addr:
                    ctx.oracle_broken("ref WIF vs key_io_valid", addr)
                    return False
                n += 1
                continue
            s = bytes.fromhex(spk)
            hrp = {"main": "bc", "regtest": "bcrt"}.get(meta["chain"], "tb")
            if len(s) == 25 and s[:3] == b"\x76\xa9\x14":
                want = rb.b58check_encode(rb.NETS[net]["p2pkh"] + s[3:23])
            elif len(s) == 23 and s[:2] == b"\xa9\x14":
                want = rb.b58check_encode(rb.NETS[net]["p2sh"] + s[2:22])
            elif s[0] == 0 or 0x51 <= s[0] <= 0x60:
                want = rb.segwit_address(hrp, 0 if s[0] == 0 else s[0] - 0x50, s[2:])
                addr = addr.lower()
            else:
                continue
            if want != addr:
                ctx.oracle_broken("ref address encoders vs key_io_valid", addr)
                return False
            n += 1
        ctx.oracle_ok("key_io_valid", n)
        return True
    except Exception as e:  # noqa: BLE001 - a crashing oracle is a broken oracle
        ctx.oracle_broken("ref.bip32 self-test crashed", repr(e))
        return False


# ----------------------------------------------------------------- derive
def shard_derive(ctx: Ctx) -> None:
    from btclib.bip32 import bip32 as B

    if not _selftest(ctx, full=False):
        return
    reach = _reach(ctx)
    ArmRecorder(ctx).install()
    _install_m1(ctx)
    rng = ctx.rng
    part = ctx.params["part"]
    maxd = ctx.params["max_depth"]
    versions = list(rb.PRV_TO_PUB)
    it = part * 7919
    done = 0
    while not ctx.out_of_time() and done < ctx.params["n"]:
        it += 1
        sl = SEED_LENS[it % len(SEED_LENS)] or rng.randrange(16, 65)
        seed = rng.randbytes(sl)
        version = versions[(it // 3) % len(versions)] if it % 3 == 0 else versions[0]
        depth = [0, 1, 2, 3, 5, maxd, 4, 2, 8, 6, 3, maxd - 1, 1, 7][it % 14] if it % 5 else rng.randrange(0, maxd + 1)
        shape = SHAPES[(it // 2) % len(SHAPES)]
        path = _gen_path(rng, depth, shape, it)
        try:
            R = rb.nodes(rb.root(seed, version), path)
            u = _unhardened_tail_start(path)
            NP = [rb.neuter(x) for x in R]
            RP = rb.nodes(NP[u], path[u:])
        except rb.InvalidChild:
            ctx.stat("ref:natural-invalid-child")
            continue
        if RP != NP[u:]:
            ctx.oracle_broken("ref.bip32: CKDpub(N(x)) != N(CKDpriv(x))", f"seed {seed.hex()} path {path}")
            return
        tweaks = rb.pub_tweaks(rb.parse_p(NP[u].key), NP[u].chain_code, path[u:])
        for arm, armtag in _arms():
            set_backend(arm)
            try:
                _check_path(ctx, B, seed, version, path, R, NP, u, tweaks, armtag)
            finally:
                set_backend(True)
        done += 1
    ctx.stat("derive:paths", done)
    reach.stop()
    reach.report(ctx)


def _check_path(ctx: Ctx, B, seed, version, path, R, NP, u, tweaks, arm) -> None:
    rng = ctx.rng
    d = len(path)
    case = {"seed": seed, "version": version, "path": path, "arm": arm}
    ctx.classes[f"seedlen:{len(seed)}"] += 1
    for i in path:
        ctx.classes[f"index:{_index_class(i)}"] += 1

    # --- master key from seed
    o = outcome(B.rootxprv_from_seed_, seed, version)
    ctx.case("root-from-seed", ("root", seed, version, arm), sample={"seed": seed, "version": version})
    if not _expect_key(ctx, "root-from-seed", o, R[0], case):
        return
    root = o[1]
    _expect_str(ctx, "root-from-seed:b58", outcome(B.rootxprv_from_seed, seed.hex() if rng.random() < 0.3 else seed,
                                                    version), R[0].b58(), case)

    # --- every prefix node, derived in one call from the root
    libn = [root]
    for s in range(1, d + 1):
        o = outcome(B.derive_, root, _spell(rng, path[:s]))
        ok = _expect_key(ctx, "derive:prv", o, R[s], {**case, "upto": s})
        libn.append(o[1] if ok else None)
        ctx.case(f"derive:prv:depth{'>=2' if s >= 2 else s}:{arm}", ("prv", seed, version, tuple(path[:s]), arm),
                 sample={"seed": seed, "path": path[:s], "arm": arm})
        ctx.mon("eq:derive:prv")
    if any(x is None for x in libn):
        return
    if d:
        _expect_str(ctx, "derive:prv:b58", outcome(B.derive, R[0].b58(), _spell(rng, path)), R[d].b58(), case)

    # --- every split point, private parent
    for s in range(0, d + 1):
        o = outcome(B.derive_, libn[s], _spell(rng, path[s:]))
        _expect_key(ctx, "split:prv", o, R[d], {**case, "split": s})
        ctx.case(f"split:prv:{arm}", ("split", seed, version, tuple(path), s, arm))
    if d >= 3:  # three pieces, through the text spelling
        s1 = rng.randrange(0, d)
        s2 = rng.randrange(s1, d + 1)
        o = outcome(lambda: B.derive(B.derive(B.derive(R[0].b58(), path[:s1]), path[s1:s2]), path[s2:]))
        _expect_str(ctx, "split:prv:b58", o, R[d].b58(), {**case, "split": [s1, s2]})
        ctx.case(f"split:prv:{arm}", ("split3", seed, version, tuple(path), s1, s2, arm))

    # --- neutering at every node (version pairing included), fingerprints
    libp = []
    for s in range(0, d + 1):
        o = outcome(B.xpub_from_xprv_, libn[s] if rng.random() < 0.7 else R[s].b58())
        ok = _expect_key(ctx, "neuter", o, NP[s], {**case, "node": s})
        libp.append(o[1] if ok else None)
        ctx.case(f"neuter:{arm}", ("neuter", seed, version, tuple(path[:s]), arm))
        want_fp = rb.fingerprint(R[s])
        for spelled, k in (("prv", libn[s]), ("pub", libp[-1])):
            if k is None:
                continue
            o = outcome(B.fingerprint, k)
            if o[0] == "raise" or o[1] != want_fp:
                ctx.violation("fingerprint:wrong", f"fingerprint of the {spelled} key at node {s}: {o[1]!r}, "
                                                   f"HASH160(serP(K))[:4] is {want_fp.hex()}", {**case, "node": s})
            ctx.case("fingerprint", ("fp", seed, version, tuple(path[:s]), spelled, arm))
    if any(x is None for x in libp):
        return
    _expect_str(ctx, "neuter:b58", outcome(B.xpub_from_xprv, R[d].b58()), NP[d].b58(), case)

    # --- public parents: every node of the unhardened tail, then every split of it
    for s in range(u, d + 1):
        o = outcome(B.derive_, libp[s], _spell(rng, path[s:]))
        ok = _expect_key(ctx, "derive:pub", o, NP[d], {**case, "from_node": s})
        n_steps = d - s
        ctx.case(f"derive:pub:depth{'>=2' if n_steps >= 2 else n_steps}:{arm}", ("pub", seed, version, tuple(path), s, arm),
                 sample={"xpub": NP[s].b58(), "path": path[s:], "arm": arm})
        ctx.mon("eq:derive:pub")
        # the law itself, library against library: derive then neuter == neuter then derive
        if ok and _t(o[1]) != _t(libp[d]):
            ctx.violation("neuter-commute-differs", "xpub_from_xprv_(derive_(k, p)) != derive_(xpub_from_xprv_(k), p)",
                          {**case, "from_node": s})
        ctx.case(f"commute:{arm}", ("commute", seed, version, tuple(path), s, arm))
    for t in range(u, d + 1):
        o = outcome(B.derive_, libp[u], _spell(rng, path[u:t]))
        if _expect_key(ctx, "derive:pub", o, NP[t], {**case, "from_node": u, "upto": t}):
            o2 = outcome(B.derive_, o[1] if rng.random() < 0.7 else o[1].b58encode(), _spell(rng, path[t:]))
            _expect_key(ctx, "split:pub", o2, NP[d], {**case, "from_node": u, "split": t})
        ctx.case(f"split:pub:{arm}", ("splitpub", seed, version, tuple(path), t, arm))
    if d > u:
        _expect_str(ctx, "derive:pub:b58", outcome(B.derive, NP[u].b58(), _spell(rng, path[u:])), NP[d].b58(), case)
        o = outcome(B.pub_key_derivation_tweaks, NP[u].key, NP[u].chain_code, _spell(rng, path[u:]))
        if o[0] == "raise" or list(o[1]) != tweaks:
            ctx.violation("pub-tweaks:wrong", f"pub_key_derivation_tweaks gave {o[1]!r}", {**case, "want": tweaks})
        ctx.case("pub-tweaks", ("tweaks", seed, version, tuple(path), arm))

    # --- a hardened step from a public key is refused
    cand = {s for s in (0, u - 1, rng.randrange(0, max(u, 1))) if 0 <= s < u}
    for s in cand:
        o = outcome(B.derive_, libp[s], _spell(rng, path[s:]))
        _expect_refusal(ctx, "hardened-from-public", o, {**case, "from_node": s})
        ctx.case(f"hardened-from-public:{arm}", ("hfp", seed, version, tuple(path), s, arm))
    for extra in ([H], [2 * H - 1], [0, H], [H - 1, H + 1, 0], [_gen_index(rng, "uniform-h")]):
        o = outcome(B.derive_, libp[d], extra)
        _expect_refusal(ctx, "hardened-from-public", o, {**case, "from_node": d, "extra": extra})
        ctx.case(f"hardened-from-public:{arm}", ("hfpx", seed, version, tuple(path), tuple(extra), arm))
        o = outcome(B.pub_key_derivation_tweaks, NP[d].key, NP[d].chain_code, extra)
        _expect_refusal(ctx, "hardened-from-public:tweaks", o, {**case, "extra": extra})

    # --- the parent private key from the parent public key and an unhardened child private key
    for s in range(1, d + 1):
        if path[s - 1] >= H:
            o = outcome(B.crack_prv_key_var, libp[s - 1], libn[s])
            if o[0] == "raise":
                ctx.stat("crack:hardened-child-refused")
            elif o[1] == R[s - 1].b58():
                ctx.stat("crack:hardened-child-answered-with-parent")
            else:
                ctx.stat("crack:hardened-child-answered")
            continue
        a1 = libp[s - 1] if rng.random() < 0.5 else NP[s - 1].b58()
        a2 = libn[s] if rng.random() < 0.5 else R[s].b58()
        o = outcome(B.crack_prv_key_var, a1, a2)
        _expect_str(ctx, "crack", o, R[s - 1].b58(), {**case, "child_node": s})
        ctx.case(f"crack:{arm}", ("crack", seed, version, tuple(path[:s]), arm))


# ------------------------------------------------------------------- deep
def shard_deep(ctx: Ctx) -> None:
    from btclib.bip32 import bip32 as B

    if not _selftest(ctx, full=False):
        return
    reach = _reach(ctx)
    ArmRecorder(ctx).install()
    _install_m1(ctx, 97)
    rng = ctx.rng
    it = ctx.params["part"]
    done = 0
    while not ctx.out_of_time():
        seed = rng.randbytes(rng.choice([16, 32, 64]))
        start_depth = [0, 0, 3, 100, 254, 200][it % 6]
        total = [255, 255, 255, 255, 255, 250][it % 6]
        public_too = it % 2 == 0
        it += 1
        try:
            r0 = rb.root(seed)
            pre = _gen_path(rng, start_depth, "mixed", it)
            start = rb.derive(r0, pre)
            path = _gen_path(rng, total - start_depth, "unhardened" if public_too else "mixed", it)
            R = rb.nodes(start, path)
            NPd = rb.neuter(R[-1])
            if public_too:
                RP = rb.derive(rb.neuter(start), path)
                if RP != NPd:
                    ctx.oracle_broken("ref.bip32: deep CKDpub != N(CKDpriv)", seed.hex())
                    return
        except rb.InvalidChild:
            continue
        d = len(path)
        for arm, armtag in _arms():
            set_backend(arm)
            try:
                case = {"seed": seed, "prefix": pre, "path": path, "arm": armtag}
                o = outcome(B.derive_, B.rootxprv_from_seed_(seed), pre)
                if not _expect_key(ctx, "derive:prv", o, start, case):
                    continue
                ls = o[1]
                o = outcome(B.derive_, ls, _spell(rng, path))
                _expect_key(ctx, "derive:prv", o, R[d], case)
                ctx.case(f"deep:prv:{armtag}", ("deep", seed, tuple(path), armtag),
                         sample={"seed": seed, "start_depth": start_depth, "steps": d, "final_depth": R[d].depth})
                ctx.classes[f"deep:final-depth-{R[d].depth}"] += 1
                for s in sorted({1, d // 2, d - 1, d, rng.randrange(0, d + 1)}):
                    o1 = outcome(B.derive_, ls, path[:s])
                    if _expect_key(ctx, "derive:prv", o1, R[s], {**case, "upto": s}):
                        _expect_key(ctx, "split:prv", outcome(B.derive_, o1[1], path[s:]), R[d], {**case, "split": s})
                    ctx.case(f"split:prv:{armtag}", ("deepsplit", seed, tuple(path), s, armtag))
                # beyond 255: BIP32 has one byte for depth; recorded, not judged
                o = outcome(B.derive_, ls, path + [0] * (256 - R[d].depth))
                ctx.stat("depth>255:refused" if o[0] == "raise" and is_lib_exc(o[1]) else "depth>255:not-refused")
                if public_too:
                    lp = B.xpub_from_xprv_(ls)
                    o = outcome(B.derive_, lp, _spell(rng, path))
                    _expect_key(ctx, "derive:pub", o, NPd, case)
                    ctx.case(f"deep:pub:{armtag}", ("deeppub", seed, tuple(path), armtag))
                    for s in sorted({1, d // 2, d - 1}):
                        o1 = outcome(B.derive_, lp, path[:s])
                        if _expect_key(ctx, "derive:pub", o1, rb.neuter(R[s]), {**case, "upto": s}):
                            _expect_key(ctx, "split:pub", outcome(B.derive_, o1[1], path[s:]), NPd, {**case, "split": s})
                        ctx.case(f"split:pub:{armtag}", ("deepsplitpub", seed, tuple(path), s, armtag))
            finally:
                set_backend(True)
        done += 1
    ctx.stat("deep:paths", done)
    reach.stop()
    reach.report(ctx)


# ---------------------------------------------------------------- inject
class _FakeHmac:
    def __init__(self, d: bytes):
        self._d = d

    def digest(self) -> bytes:
        return self._d


def _shim(real, n: int, digest: bytes, seen: list):
    def crafted(key, msg=None, digestmod=""):
        seen.append((bytes(key), bytes(msg or b"")))
        return _FakeHmac(digest)

    nc = NthCall(real.new, n, crafted)
    return types.SimpleNamespace(new=nc, compare_digest=real.compare_digest, digest=real.digest), nc


def _step_input(x: rb.XKey, i: int) -> tuple[bytes, bytes]:
    """(key, message) of the HMAC that derives child i of the reference node x."""
    if x.is_private:
        data = x.key if i >= H else rb.ser_p(rb.point(rb.parse256(x.key[1:])))
    else:
        data = x.key
    return x.chain_code, data + rb.ser32(i)


INVALID_KINDS = ("IL=n", "IL>n", "IL=max", "zero")
VALID_KINDS = ("IL=0", "IL=1", "IL=n-1", "near-invalid", "IL=random")


def shard_inject(ctx: Ctx) -> None:
    import hmac as real_hmac

    from btclib import bip44, bip85, slip132
    from btclib.bip32 import bip32 as B

    if not _selftest(ctx, full=False):
        return
    reach = _reach(ctx)
    ArmRecorder(ctx).install()
    _install_m1(ctx, 7)
    rng = ctx.rng
    it = ctx.params["part"] * 104729
    kinds = INVALID_KINDS + VALID_KINDS
    while not ctx.out_of_time():
        it += 1
        kind = kinds[it % len(kinds)]
        side = "pub" if (it // len(kinds)) % 2 else "prv"
        seed = rng.randbytes(rng.choice([16, 32, 64]))
        d = 1 + (it // 3) % 5
        where = ("first", "middle", "last")[(it // 7) % 3]
        t = 0 if where == "first" or d == 1 else (d - 1 if where == "last" else rng.randrange(0, d))
        if side == "pub":
            pre = _gen_path(rng, rng.randrange(0, 3), "hardened", it)
            path = _gen_path(rng, d, "unhardened", it)
        else:
            pre = []
            path = _gen_path(rng, d, ["mixed", "hardened", "tail", "unhardened"][(it // 5) % 4], it)
            if t + 1 < d and (it // 11) % 2:
                path[t + 1] = _gen_index(rng, rng.choice(H_CLASSES))  # a hardened step right after the fault
        try:
            rstart = rb.derive(rb.root(seed), pre)
            R = rb.nodes(rstart, path)
        except rb.InvalidChild:
            continue
        kpar = rb.parse256(R[t].key[1:])
        il = {"IL=n": rb.N, "IL>n": rb.N + rng.choice([1, 2, rng.randrange(1, 2**256 - rb.N)]), "IL=max": 2**256 - 1,
              "zero": (rb.N - kpar) % rb.N, "IL=0": 0, "IL=1": 1, "IL=n-1": rb.N - 1,
              "near-invalid": (rb.N - kpar + rng.choice([1, -1, 2])) % rb.N, "IL=random": rng.randrange(1, rb.N)}[kind]
        tag = {"zero": "zero-key" if side == "prv" else "infinity"}.get(kind, kind)
        digest = rb.ser256(il) + rng.randbytes(32)
        ref_start = rb.neuter(rstart) if side == "pub" else rstart
        target = _step_input(rb.neuter(R[t]) if side == "pub" else R[t], path[t])

        def hm(key, msg, _t=target, _d=digest):
            return _d if (key, msg) == _t else rb.hmac_sha512(key, msg)

        want = outcome(rb.derive, ref_start, path, hm)
        if want[0] == "raise" and not isinstance(want[1], rb.InvalidChild):
            raise want[1]
        # what "proceed with the next value for i" would have produced, for classifying an answer
        alt = None
        if want[0] == "raise" and path[t] not in (H - 1, 2 * H - 1):
            o = outcome(rb.derive, ref_start, path[:t] + [path[t] + 1] + path[t + 1:])
            alt = o[1] if o[0] == "ok" else None
        for arm, armtag in _arms():
            set_backend(arm)
            try:
                lstart = B.derive_(B.rootxprv_from_seed_(seed), pre)
                if side == "pub":
                    lstart = B.xpub_from_xprv_(lstart)
                case = {"seed": seed, "prefix": pre, "path": path, "step": t, "kind": tag, "side": side, "arm": armtag,
                        "IL": il}
                api = ("derive_", "derive")[(it // 13) % 2]
                seen: list = []
                shim, nc = _shim(real_hmac, t, digest, seen)
                with patched(B, "hmac", shim):
                    if api == "derive_":
                        o = outcome(B.derive_, lstart, path)
                    else:
                        o = outcome(B.derive, lstart, path)
                        if o[0] == "ok":
                            o = ("ok", B.BIP32KeyData.b58decode(o[1]))
                if nc.fired != 1 or seen[0] != target:
                    ctx.stat(f"inject:missed-target:{tag}:{side}:{armtag}")
                    continue
                ctx.mon(f"inject:reached:{tag}:{side}:{armtag}")
                ctx.case(f"inject:{tag}:{side}", ("inject", seed, tuple(pre), tuple(path), t, il, armtag, api),
                         sample={"seed": seed, "path": path, "step": t, "kind": tag, "side": side})
                if want[0] == "ok":
                    _expect_key(ctx, f"inject-valid:{side}", o, want[1], case)
                else:
                    ctx.classes[f"inject:invalid:{where}-step"] += 1
                    if o[0] == "ok" and alt is not None and o[1].key == alt.key and o[1].chain_code == alt.chain_code:
                        ctx.violation(f"invalid-child:replaced-by-next-index:{side}",
                                      f"invalid child ({tag}) at step {t} index {path[t]}: the key of index {path[t] + 1} "
                                      f"was returned instead of a refusal", {**case, "got": _t(o[1])})
                    else:
                        _expect_refusal(ctx, f"invalid-child:{tag}:{side}", o, case)
                # the same fault through the entry points layered on top: refusal demanded, answers not compared
                if want[0] == "raise" and it % 2:
                    _inject_on_top(ctx, B, bip44, bip85, slip132, real_hmac, rng, seed, tag, side, il, armtag)
            finally:
                set_backend(True)
        # --- the master key: parse256(IL) == 0 or >= n makes the seed invalid
        for mk, mil in (("master:IL=0", 0), ("master:IL=n", rb.N), ("master:IL=max", 2**256 - 1), ("master:IL=1", 1),
                        ("master:IL=n-1", rb.N - 1)):
            if it % 4:
                continue
            dg = rb.ser256(mil) + rng.randbytes(32)
            for arm, armtag in _arms():
                set_backend(arm)
                try:
                    seen = []
                    shim, nc = _shim(real_hmac, 0, dg, seen)
                    with patched(B, "hmac", shim):
                        o = outcome(B.rootxprv_from_seed_, seed)
                    if nc.fired != 1 or seen[0] != (b"Bitcoin seed", seed):
                        ctx.stat(f"inject:missed-target:{mk}")
                        continue
                    ctx.mon(f"inject:reached:{mk}:prv:{armtag}")
                    ctx.case("inject:master", ("master", seed, mil, armtag))
                    case = {"seed": seed, "kind": mk, "arm": armtag}
                    if 0 < mil < rb.N:
                        _expect_key(ctx, "inject-valid:master", o,
                                    rb.root(seed, hm=lambda k, m, _d=dg: _d), case)
                    else:
                        _expect_refusal(ctx, f"invalid-master:{mk[7:]}", o, case)
                finally:
                    set_backend(True)
    reach.stop()
    reach.report(ctx)


def _inject_on_top(ctx, B, bip44, bip85, slip132, real_hmac, rng, seed, tag, side, il, armtag) -> None:
    """An invalid child inside derive_from_account(_range)_, slip132, bip44 and bip85: all must refuse."""
    root = B.rootxprv_from_seed_(seed)
    rroot = rb.root(seed)
    acct_path = [H + 84, H, H + rng.randrange(3)]
    racct = rb.derive(rroot, acct_path)
    acct = B.derive_(root, acct_path)
    if side == "pub":
        acct, racct_s = B.xpub_from_xprv_(acct), rb.neuter(racct)
    else:
        racct_s = racct
    branch, idxs = rng.randrange(2), [rng.randrange(0, 0xFFFF) for _ in range(3)]
    rbranch = rb.derive(racct, [branch])
    rbranch_s = rb.neuter(rbranch) if side == "pub" else rbranch

    def il_for(node: rb.XKey) -> bytes:
        k = rb.parse256(node.key[1:])
        v = (rb.N - k) % rb.N if tag in ("zero-key", "infinity") else il
        return rb.ser256(v) + b"\x5a" * 32

    calls = [
        ("account:branch", 0, il_for(racct), _step_input(racct_s, branch),
         lambda: B.derive_from_account_(acct, branch, idxs[0])),
        ("account:index", 1, il_for(rbranch), _step_input(rbranch_s, idxs[0]),
         lambda: B.derive_from_account_(acct, branch, idxs[0])),
        ("account-range:index", 2, il_for(rbranch), _step_input(rbranch_s, idxs[1]),
         lambda: B.derive_from_account_range_(acct, branch, idxs)),
    ]
    if side == "prv":
        p44 = [H + 84, H, H, 0, rng.randrange(100)]
        r3 = rb.derive(rroot, p44[:3])
        calls.append(("bip44", 3, il_for(r3), _step_input(r3, p44[3]), lambda: bip44.address_from_der_path(root, p44)))
        r2 = rb.derive(rroot, [H + 84, H])
        calls.append(("slip132", 2, il_for(r2), _step_input(r2, H),
                      lambda: slip132.p2wpkh_xkey(root, "m/84h/0h/0h")))
        p85 = [H + rb.BIP85, H + 2, H + rng.randrange(10)]
        r1 = rb.derive(rroot, p85[:1])
        calls.append(("bip85", 1, il_for(r1), _step_input(r1, p85[1]), lambda: bip85.entropy_from_der_path(root, p85)))
    for name, n, dg, target, call in calls:
        seen: list = []
        shim, nc = _shim(real_hmac, n, dg, seen)
        with patched(B, "hmac", shim):
            o = outcome(call)
        if nc.fired != 1 or seen[0] != target:
            ctx.stat(f"inject:missed-target:{name}")
            continue
        ctx.mon(f"inject:reached-on-top:{name}:{side}")
        ctx.case(f"inject:on-top:{name}", ("top", name, seed, tag, side, armtag))
        _expect_refusal(ctx, f"invalid-child:{name}:{side}", o, {"seed": seed, "entry": name, "kind": tag, "side": side,
                                                                "arm": armtag})


# -------------------------------------------------------------- versions
def shard_versions(ctx: Ctx) -> None:
    from btclib import slip132
    from btclib.bip32 import bip32 as B
    from btclib.network import NETWORKS

    if not _selftest(ctx):
        return
    reach = _reach(ctx)
    ArmRecorder(ctx).install()
    _install_m1(ctx)
    rng = ctx.rng
    # every version of every network the library knows is one the SLIP132 table has, with the same meaning
    for name, nw in NETWORKS.items():
        net = "main" if name == "mainnet" else "test"
        for kind, attr in (("p2pkh", "bip32"), ("p2wpkh", "slip132_p2wpkh"), ("p2wpkh-p2sh", "slip132_p2wpkh_p2sh"),
                           ("p2wsh", "slip132_p2wsh"), ("p2wsh-p2sh", "slip132_p2wsh_p2sh")):
            got = (getattr(nw, attr + "_prv"), getattr(nw, attr + "_pub"))
            ctx.case("version:table", ("table", name, kind))
            if got != rb.VERSIONS[(net, kind)]:
                ctx.violation("version:table-wrong", f"network {name} {kind} versions {got[0].hex()}/{got[1].hex()} "
                                                     f"differ from SLIP-0132", {"network": name, "kind": kind})
    prvs = list(rb.PRV_TO_PUB)
    pubs = sorted(rb.PUB_VERSIONS)
    it = 0
    while not ctx.out_of_time():
        it += 1
        seed = rng.randbytes(rng.choice([16, 32, 64]))
        version = prvs[it % len(prvs)]
        net, kind = rb.NET_OF_VERSION[version], rb.KIND_OF_VERSION[version]
        path = _gen_path(rng, rng.randrange(0, 5), "tail", it)
        u = _unhardened_tail_start(path)
        try:
            r0 = rb.root(seed, version)
            R = rb.nodes(r0, path)
            NP = [rb.neuter(x) for x in R]
        except rb.InvalidChild:
            continue
        for arm, armtag in _arms():
            set_backend(arm)
            try:
                case = {"seed": seed, "version": version, "path": path, "arm": armtag}
                root = B.rootxprv_from_seed_(seed, version)
                node = B.derive_(root, path)
                # neutering pairs the version
                o = outcome(B.xpub_from_xprv_, node)
                _expect_key(ctx, "neuter", o, NP[-1], case)
                ctx.case("version:neuter-pairing", ("pair", seed, version, tuple(path), armtag),
                         sample={"prv_version": version, "pub_version": rb.PRV_TO_PUB[version]})
                ctx.classes[f"version:{version.hex()}"] += 1
                # a forced version of the key's own kind re-labels and changes nothing else
                for fv in prvs:
                    o = outcome(B.derive_, root, _spell(rng, path), fv)
                    _expect_key(ctx, "forced-version:prv", o, R[-1]._replace(version=fv), {**case, "forced": fv})
                    ctx.case("version:forced", ("forced", seed, version, tuple(path), fv, armtag))
                for fv in pubs:
                    o = outcome(B.derive_, B.xpub_from_xprv_(B.derive_(root, path[:u])), path[u:], fv)
                    _expect_key(ctx, "forced-version:pub", o, NP[-1]._replace(version=fv), {**case, "forced": fv})
                    ctx.case("version:forced", ("forcedpub", seed, version, tuple(path), fv, armtag))
                    o = outcome(B.derive_, root, path, fv)  # a public version on a private key: not in the property
                    ctx.stat("forced-version:cross-kind-refused" if o[0] == "raise" else "forced-version:cross-kind-answered")
                # SLIP132: the key at a path, labelled with the network's version of the script type
                for fn, k2 in ((slip132.p2pkh_xkey, "p2pkh"), (slip132.p2wpkh_p2sh_xkey, "p2wpkh-p2sh"),
                               (slip132.p2wpkh_xkey, "p2wpkh")):
                    vp, vq = rb.VERSIONS[(net, k2)]
                    o = outcome(fn, root if rng.random() < 0.5 else r0.b58(), _spell(rng, path))
                    _expect_str(ctx, f"slip132:xkey:{k2}", o, R[-1]._replace(version=vp).b58(), {**case, "fn": fn.__name__})
                    ctx.case("slip132:xkey", ("s132", fn.__name__, seed, version, tuple(path), armtag))
                    # from a public root-level key along the unhardened tail (check_root_xkey off: not a root)
                    o = outcome(fn, NP[u].b58(), _spell(rng, path[u:]), False)
                    _expect_str(ctx, f"slip132:xkey:{k2}", o, NP[-1]._replace(version=vq).b58(),
                                {**case, "fn": fn.__name__, "public": True})
                    ctx.case("slip132:xkey", ("s132pub", fn.__name__, seed, version, tuple(path), armtag))
                    # default path of the helper
                    dflt = {"p2pkh": [H + 44, H, H], "p2wpkh-p2sh": [H + 49, H, H], "p2wpkh": [H + 84, H, H]}[k2]
                    o = outcome(fn, root)
                    _expect_str(ctx, f"slip132:xkey:{k2}", o, rb.derive(r0, dflt)._replace(version=vp).b58(),
                                {**case, "fn": fn.__name__, "default_path": True})
                    ctx.case("slip132:xkey", ("s132dflt", fn.__name__, seed, version, armtag))
                # SLIP132 address of a key: the script type its version names
                for x, rx in ((node, R[-1]), (B.xpub_from_xprv_(node), NP[-1])):
                    fns = (slip132.address_from_xkey,) if rx.is_private else (slip132.address_from_xkey, slip132.address_from_xpub)
                    for fn in fns:
                        o = outcome(fn, x if rng.random() < 0.5 else rx.b58())
                        if kind in rb.SLIP132_ADDRESS_TYPE:
                            _expect_str(ctx, f"slip132:address:{kind}", o, rb.address(NP[-1].key, kind, net),
                                        {**case, "fn": fn.__name__, "private": rx.is_private})
                            ctx.case("slip132:address", ("s132addr", fn.__name__, seed, version, tuple(path),
                                                         rx.is_private, armtag), sample={"xkey": rx.b58()})
                        else:  # p2wsh versions: no address is a function of the key alone
                            ctx.stat("slip132:address:p2wsh-version-refused" if o[0] == "raise"
                                     else "slip132:address:p2wsh-version-answered")
            finally:
                set_backend(True)
    reach.stop()
    reach.report(ctx)


# ----------------------------------------------------------------- bip44
def shard_bip44(ctx: Ctx) -> None:
    from btclib import bip44
    from btclib.bip32 import bip32 as B

    if not _selftest(ctx):
        return
    reach = _reach(ctx)
    ArmRecorder(ctx).install()
    rng = ctx.rng
    purposes = [44, 49, 84, 86]
    it = 0
    while not ctx.out_of_time():
        it += 1
        seed = rng.randbytes(rng.choice([16, 32, 64]))
        purpose = purposes[it % 4]
        net = ("main", "test")[(it // 4) % 2]
        kind = sorted({k for (n_, k) in rb.VERSIONS})[(it // 8) % 5] if it % 3 == 0 else "p2pkh"
        version = rb.VERSIONS[(net, kind)][0]
        st = rb.PURPOSE_SCRIPT_TYPE[purpose]
        acct = _gen_index(rng, rng.choice(["0", "1", "small", "2^31-1", "uniform-u"]))
        change = rng.choice([0, 1, 0, 1, rng.randrange(H)])
        aidx = _gen_index(rng, rng.choice(U_CLASSES))
        path = [H + purpose, H + (0 if net == "main" else 1), H + acct, change, aidx]
        try:
            r0 = rb.root(seed, version)
            R = rb.nodes(r0, path)
            pub = rb.xkey_pubkey(R[-1])
            want = rb.address(pub, st, net)
        except rb.InvalidChild:
            continue
        for arm, armtag in _arms():
            set_backend(arm)
            try:
                case = {"seed": seed, "version": version, "path": path, "arm": armtag, "script_type": st}
                root = B.rootxprv_from_seed_(seed, version)
                for s in range(0, 6):
                    xk = R[s].b58() if rng.random() < 0.5 else B.derive_(root, path[:s])
                    o = outcome(bip44.address_from_der_path, xk, _spell(rng, path, rng.choice(["list", "str-h", "str-'", "bytes"])))
                    _expect_str(ctx, f"bip44:address:{st}", o, want, {**case, "key_depth": s})
                    ctx.case(f"bip44:address:{st}", ("bip44", seed, version, tuple(path), s, armtag),
                             sample={"xkey": R[s].b58(), "path": path, "address": want})
                    if s >= 3:
                        o = outcome(bip44.address_from_der_path, rb.neuter(R[s]).b58(), path)
                        _expect_str(ctx, f"bip44:address:{st}", o, want, {**case, "key_depth": s, "public": True})
                        ctx.case("bip44:public-account", ("bip44pub", seed, version, tuple(path), s, armtag))
                # the script type named by the caller overrides the purpose
                st2 = rng.choice(["p2pkh", "p2wpkh-p2sh", "p2wpkh", "p2tr"])
                o = outcome(bip44.address_from_der_path, root, path, st2)
                _expect_str(ctx, f"bip44:address:{st2}", o, rb.address(pub, st2, net), {**case, "override": st2})
                ctx.case(f"bip44:address:{st2}", ("bip44o", seed, version, tuple(path), st2, armtag))
                # what the module refuses is outside the property: recorded only
                bad = list(path)
                bad[1] = H + (1 if net == "main" else 0)
                o = outcome(bip44.address_from_der_path, root, bad)
                ctx.stat("bip44:coin-mismatch-refused" if o[0] == "raise" else "bip44:coin-mismatch-answered")
            finally:
                set_backend(True)
    reach.stop()
    reach.report(ctx)


# --------------------------------------------------------------- account
def shard_account(ctx: Ctx) -> None:
    from btclib.bip32 import bip32 as B

    if not _selftest(ctx, full=False):
        return
    reach = _reach(ctx)
    ArmRecorder(ctx).install()
    _install_m1(ctx)
    rng = ctx.rng
    it = 0
    while not ctx.out_of_time():
        it += 1
        seed = rng.randbytes(rng.choice([16, 32, 64]))
        ap = _gen_path(rng, rng.randrange(1, 4), "hardened", it)
        only01 = it % 3 != 0
        max_index = 0xFFFF if it % 4 else rng.choice([0, 1, 0xFFFF + 1, H - 1, 1000])
        branch = min(max_index, rng.randrange(2) if only01 else _gen_index(rng, rng.choice(U_CLASSES)))
        n_idx = [1, 2, 5, 0, 12, 3][it % 6]
        pool = [i for i in (0, 1, max_index, max_index - 1) if 0 <= i <= max_index]
        pool += [rng.randrange(0, max_index + 1) for _ in range(4)]
        idxs = [rng.choice(pool) for _ in range(n_idx)]  # unsorted, with repeats
        try:
            racct = rb.derive(rb.root(seed), ap)
            rbranch = rb.child(racct, branch)
            want_prv = [rb.child(rbranch, i) for i in idxs]
            want_pub = [rb.neuter(x) for x in want_prv]
            if idxs and rb.derive(rb.neuter(racct), [branch, idxs[0]]) != want_pub[0]:
                ctx.oracle_broken("ref.bip32: account CKDpub != N(CKDpriv)", seed.hex())
                return
        except rb.InvalidChild:
            continue
        for arm, armtag in _arms():
            set_backend(arm)
            try:
                acct = B.derive_(B.rootxprv_from_seed_(seed), ap)
                for side, key, want, rkey in (("prv", acct, want_prv, racct),
                                              ("pub", B.xpub_from_xprv_(acct), want_pub, rb.neuter(racct))):
                    case = {"seed": seed, "account_path": ap, "branch": branch, "indexes": idxs, "side": side,
                            "arm": armtag, "max_index": max_index, "branches_0_1_only": only01}
                    for j, i in enumerate(idxs[:3]):
                        o = outcome(B.derive_from_account_, key if j % 2 else rkey.b58(), branch, i, only01, max_index)
                        _expect_key(ctx, f"account:single:{side}", o, want[j], {**case, "index": i})
                        # ... and against the library's own single derivation
                        o2 = outcome(B.derive_, key, [branch, i])
                        if o[0] == "ok" and o2[0] == "ok" and _t(o[1]) != _t(o2[1]):
                            ctx.violation("account:single-differs-from-derive", "derive_from_account_ != derive_ m/b/i",
                                          {**case, "index": i})
                        _expect_str(ctx, f"account:single:{side}:b58",
                                    outcome(B.derive_from_account, key, branch, i, only01, max_index), want[j].b58(),
                                    {**case, "index": i})
                        ctx.case("account:single", ("acct", seed, tuple(ap), branch, i, side, armtag),
                                 sample={"account": rkey.b58(), "branch": branch, "index": i})
                    o = outcome(B.derive_from_account_range_, key, branch, idxs if it % 2 else tuple(idxs), only01, max_index)
                    if o[0] == "raise":
                        tag = "refused-valid" if is_lib_exc(o[1]) else "foreign-exception"
                        ctx.violation(f"account:range:{side}:{tag}", f"derive_from_account_range_ raised {o[1]!r}", case)
                    elif len(o[1]) != len(want):
                        ctx.violation(f"account:range:{side}:length", f"{len(o[1])} keys for {len(want)} indexes", case)
                    else:
                        for j, (g, w) in enumerate(zip(o[1], want)):
                            if not _cmp(ctx, f"account:range:{side}", g, w, {**case, "position": j}):
                                break
                    ctx.case("account:range", ("acctr", seed, tuple(ap), branch, tuple(idxs), side, armtag))
                    o = outcome(B.derive_from_account_range, key, branch, idxs, only01, max_index)
                    if o[0] == "raise" or list(o[1]) != [w.b58() for w in want]:
                        ctx.violation(f"account:range:{side}:b58", f"derive_from_account_range gave {str(o[1])[:200]}", case)
                    # refusals of the account-level rules are outside the property: recorded
                    for nm, call in (("hardened-branch", lambda: B.derive_from_account_(key, H, 0, False, 2 * H)),
                                     ("hardened-index", lambda: B.derive_from_account_(key, 0, H, True, 2 * H)),
                                     ("above-max", lambda: B.derive_from_account_(key, 0, max_index + 1, True, max_index)),
                                     ("branch-2", lambda: B.derive_from_account_(key, 2, 0))):
                        ctx.stat(f"account:{nm}:{'refused' if outcome(call)[0] == 'raise' else 'answered'}")
            finally:
                set_backend(True)
    reach.stop()
    reach.report(ctx)


# --------------------------------------------------------------- derpath
def shard_derpath(ctx: Ctx) -> None:
    from btclib.bip32 import bip32 as B
    from btclib.bip32 import der_path as D
    from btclib.bip32.key_origin import BIP32KeyOrigin

    if not _selftest(ctx, full=False):
        return
    reach = _reach(ctx)
    rng = ctx.rng
    root = B.rootxprv_from_seed_(bytes(range(32)))
    xpub = B.xpub_from_xprv_(root)

    def one(idxs: list[int], derive_too: bool) -> None:
        canon = "m" + "".join(f"/{i - H}h" if i >= H else f"/{i}" for i in idxs)
        le = b"".join(i.to_bytes(4, "little") for i in idxs)
        spellings = [("list", list(idxs)), ("tuple", tuple(idxs)), ("bytes", le)]
        for sym in "h'H":
            s = "/".join((f"{i - H}{sym}" if i >= H else str(i)) for i in idxs)
            spellings += [(f"str-m-{sym}", "m/" + s if s else "m"), (f"str-nom-{sym}", s), (f"str-M-{sym}", "M/" + s if s else "M")]
        spellings.append(("str-mixed", _spell(rng, idxs, "str-mixed")))
        if len(idxs) == 1:
            spellings.append(("int", idxs[0]))
        for name, sp in spellings:
            o = outcome(D.indexes_from_der_path, sp)
            if o[0] == "raise" or list(o[1]) != idxs:
                ctx.violation(f"derpath:spelling-wrong:{name.split('-')[0]}", f"indexes_from_der_path({sp!r}) -> {o[1]!r}, "
                                                                            f"the path is {idxs}", {"spelling": sp, "want": idxs})
            ctx.case("derpath:spelling", ("sp", name, tuple(idxs)), sample={"spelling": sp, "indexes": idxs})
            ctx.classes[f"derpath:{name}"] += 1
            o = outcome(D.bytes_from_der_path, sp)
            if o[0] == "raise" or o[1] != le:
                ctx.violation("derpath:bytes-wrong", f"bytes_from_der_path({sp!r}) -> {o[1]!r}", {"spelling": sp, "want": le})
            for hsym in "h'":
                o = outcome(D.str_from_der_path, sp, None, hsym)
                want = canon.replace("h", hsym)
                if o[0] == "raise" or o[1] != want:
                    ctx.violation("derpath:str-wrong", f"str_from_der_path({sp!r}) -> {o[1]!r}, want {want}", {"spelling": sp})
                elif list(D.indexes_from_der_path(o[1])) != idxs:
                    ctx.violation("derpath:roundtrip", f"{sp!r} -> {o[1]!r} -> {D.indexes_from_der_path(o[1])}", {"spelling": sp})
            ctx.case("derpath:roundtrip", ("rt", name, tuple(idxs)))
        # the key origin: fingerprint + little-endian indexes, text with the fingerprint in front
        fp = rng.randbytes(4)
        o = outcome(lambda: BIP32KeyOrigin(fp, rng.choice(spellings)[1]))
        if o[0] == "raise":
            ctx.violation("key-origin:refused", f"BIP32KeyOrigin raised {o[1]!r}", {"indexes": idxs})
        else:
            ko = o[1]
            ok = (list(ko.der_path) == idxs and ko.serialize() == fp + le and BIP32KeyOrigin.parse(fp + le) == ko
                  and ko.description == fp.hex() + canon[1:] and BIP32KeyOrigin.from_description(ko.description) == ko)
            if not ok:
                ctx.violation("key-origin:wrong", f"key origin of {idxs}: {ko!r} serialize {ko.serialize().hex()} "
                                                  f"description {ko.description}", {"indexes": idxs, "fp": fp})
        ctx.case("key-origin", ("ko", fp, tuple(idxs)))
        if derive_too:
            k = xpub if idxs and all(i < H for i in idxs) and rng.random() < 0.5 else root
            outs = set()
            for name, sp in spellings:
                o = outcome(B.derive_, k, sp)
                outs.add(_t(o[1]) if o[0] == "ok" else repr(o[1])[:80])
            if len(outs) != 1 or any(isinstance(x, str) for x in outs):
                ctx.violation("derpath:derive-differs-by-spelling", f"{len(outs)} different results for the spellings of {idxs}",
                              {"indexes": idxs, "results": sorted(map(str, outs))[:4]})
            ctx.case("derpath:derive-equal", ("deq", tuple(idxs)))

    # every index class at every position of short paths, every hardening symbol
    for a in INDEX_CLASSES:
        one([_gen_index(rng, a)], True)
        for b in INDEX_CLASSES:
            one([_gen_index(rng, a), _gen_index(rng, b)], False)
    one([], True)
    ctx.exhaustive.append("path spellings: every index class x every index class (depth 1-2) x {h,',H} x {m/, M/, none} "
                          "x {list, tuple, bytes, int}")
    n = 0
    while n < ctx.params["n"] and not ctx.out_of_time():
        n += 1
        depth = [1, 3, 5, 12, 40, 255, 2, 7][n % 8] if n % 3 else rng.randrange(0, 256)
        one(_gen_path(rng, depth, SHAPES[n % 4], n), depth <= 12 and n % 4 == 0)
    # what is no path: answered would be a wrong index list; recorded only when refused
    for bad in ("m/2147483648", "m/-1", "m/0x10", "m/1h'", [2**32], [-1], b"\x00" * 5, "m/" + "/".join(["0"] * 256)):
        o = outcome(D.indexes_from_der_path, bad)
        ctx.stat("derpath:malformed-refused" if o[0] == "raise" else "derpath:malformed-answered")
    reach.stop()
    reach.report(ctx)


# ----------------------------------------------------------------- bip85
def shard_bip85(ctx: Ctx) -> None:
    from btclib import bip85
    from btclib.bip32 import bip32 as B
    from btclib.mnemonic import bip39

    if not _selftest(ctx):
        return
    reach = _reach(ctx)
    ArmRecorder(ctx).install()
    rng = ctx.rng
    wl = open(os.path.join(VEC, "bip39_english.txt"), encoding="utf8").read().split()
    langs = list(rb.BIP85_LANG)
    it = 0
    hx = rb.h
    while not ctx.out_of_time():
        it += 1
        seed = rng.randbytes(rng.choice([16, 32, 64]))
        net = ("main", "test")[it % 2]
        kind = ["p2pkh", "p2wpkh", "p2wpkh-p2sh", "p2wsh", "p2wsh-p2sh"][(it // 2) % 5] if it % 3 == 0 else "p2pkh"
        version = rb.VERSIONS[(net, kind)][0]
        try:
            rk = rb.derive(rb.root(seed, version), _gen_path(rng, [0, 0, 1, 3][it % 4], "mixed", it))
        except rb.InvalidChild:
            continue
        idx = _gen_index(rng, rng.choice(["0", "1", "small", "2^31-1", "uniform-u"]))
        for arm, armtag in _arms():
            set_backend(arm)
            try:
                key = rk.b58() if it % 2 else B.BIP32KeyData.b58decode(rk.b58())
                case = {"root_key": rk.b58(), "index": idx, "arm": armtag}

                def chk(name: str, o, want, extra=None) -> None:
                    if o[0] == "raise":
                        tag = "refused-valid" if is_lib_exc(o[1]) else "foreign-exception"
                        ctx.violation(f"bip85:{name}:{tag}", f"bip85 {name}: {o[1]!r}", {**case, **(extra or {})})
                    elif o[1] != want:
                        ctx.violation(f"bip85:{name}:wrong", f"bip85 {name}: {str(o[1])[:120]!r}, the BIP's formula gives "
                                                             f"{str(want)[:120]!r}", {**case, **(extra or {})})
                    ctx.case(f"bip85:{name}", ("bip85", name, rk.b58(), idx, str(extra), armtag),
                             sample={"root_key": rk.b58(), "app": name, **(extra or {})})

                # the derivation itself, any application number
                path = [hx(rb.BIP85)] + [_gen_index(rng, rng.choice(H_CLASSES)) for _ in range(rng.randrange(2, 7))]
                try:
                    want = rb.bip85_entropy(rk, path)
                except rb.InvalidChild:
                    continue
                chk("entropy", outcome(bip85.entropy_from_der_path, key, _spell(rng, path)), want, {"path": path})
                o = outcome(lambda: bip85.drng_from_der_path(key, path))
                if o[0] == "ok":
                    cuts = sorted(rng.randrange(0, 300) for _ in range(3))
                    got = b"".join(o[1].read(b - a) for a, b in zip([0] + cuts, cuts))
                    chk("drng", ("ok", got), rb.bip85_drng(want, cuts[-1]), {"reads": cuts})
                else:
                    chk("drng", o, None)
                # applications
                words = [12, 15, 18, 21, 24][it % 5]
                lang = langs[(it // 5) % len(langs)] if it % 2 else "en"
                ent = rb.bip85_mnemonic_entropy(rk, words, rb.BIP85_LANG[lang], idx)
                o = outcome(bip85.mnemonic_from_root_key, key, words, lang, idx)
                if lang == "en":
                    chk("mnemonic", o, rb.bip39_mnemonic(ent, wl), {"words": words, "lang": lang})
                else:
                    if o[0] == "ok":
                        bits = bip39.entropy_from_mnemonic(o[1], lang)
                        o = ("ok", (len(o[1].split()), int(bits, 2).to_bytes(len(bits) // 8, "big")))
                    chk("mnemonic", o, (words, ent), {"words": words, "lang": lang})
                chk("wif", outcome(bip85.wif_from_root_key, key, idx), rb.bip85_wif(rk, idx))
                chk("xprv", outcome(bip85.xprv_from_root_key, key, idx), rb.bip85_xprv(rk, idx))
                nb = 16 + (it % 49)
                chk("hex", outcome(bip85.bytes_entropy_from_root_key, key, nb, idx), rb.bip85_hex(rk, nb, idx), {"num_bytes": nb})
                n64 = 20 + (it % 67)
                chk("pwd64", outcome(bip85.base64_password_from_root_key, key, n64, idx), rb.bip85_pwd64(rk, n64, idx), {"pwd_len": n64})
                n85 = 10 + (it % 71)
                chk("pwd85", outcome(bip85.base85_password_from_root_key, key, n85, idx), rb.bip85_pwd85(rk, n85, idx), {"pwd_len": n85})
                sides = [2, 3, 6, 10, 20, 100, 255, 256, 257, 1000, 65536, 65537, 2**20 + 7][it % 13]
                rolls = [1, 10, 100, 37, 600][it % 5]
                chk("dice", outcome(bip85.rolls_from_root_key, key, rolls, sides, idx), rb.bip85_rolls(rk, sides, rolls, idx),
                    {"sides": sides, "rolls": rolls})
                kb, sub = rng.choice([1024, 2048, 4096]), rng.choice([None, 0, 1, 2])
                o = outcome(lambda: bip85.rsa_drng_from_root_key(key, kb, idx, sub).read(100))
                p = [hx(rb.BIP85), hx(828365), hx(kb), hx(idx)] + ([] if sub is None else [hx(sub)])
                chk("drng", o, rb.bip85_drng(rb.bip85_entropy(rk, p), 100), {"rsa": kb, "sub_key": sub})
                # outside the property (BIP85 mandates hardened paths): recorded
                o = outcome(bip85.entropy_from_der_path, key, [hx(rb.BIP85), 0, hx(0)])
                ctx.stat("bip85:unhardened-path-refused" if o[0] == "raise" else "bip85:unhardened-path-answered")
            finally:
                set_backend(True)
    reach.stop()
    reach.report(ctx)
