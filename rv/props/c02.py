"""C02 - ECDSA: signatures verify, verification is the SEC 1 equation, DER is canonical.

Reference-model monitor.  ``rv.ref.ecdsa`` (SEC 1 4.1.3/4.1.4/4.1.6 over the affine
reference arithmetic), ``rv.ref.rfc6979`` (HMAC_DRBG transcription with the additional
input and Core's low-R counter convention), ``rv.ref.der`` (BIP 66) and ``rv.ref.bms``
decide; OpenSSL verifies every reference signature on the curves it knows, as a second
oracle for the reference itself.
"""

from __future__ import annotations

import base64
import hashlib
import json
import os

from ..ctx import Ctx, is_lib_exc, outcome
from ..hooks import LineReach, Reach, backend_available, set_backend
from ..ref import bms as rbms
from ..ref import der as rder
from ..ref import ec as rec
from ..ref import ecdsa as recdsa
from ..ref import rfc6979 as r69

PROPERTY = "C02"
RULE = (
    "toy curves (every (a,b) over small F_p, every prime-order subgroup Curve() admits, cofactor > 1 included): "
    "every (key, challenge, nonce) triple signed with lower_s on and off and compared with the reference "
    "(r, s), refusal exactly on r == 0 / s == 0, key recovered from the returned key id, every (r, s) in "
    "-1..n+1 squared verified against the SEC 1 equation for keys x challenges; digests from sha256, sha1, "
    "sha512 and a 1-byte blake2b. Catalogued curves x 7 hash functions: class-sampled keys/messages, RFC 6979 "
    "(grind on/off, lower_s on/off) byte for byte, imposed nonces, both arms on secp256k1, mutants of every "
    "valid signature answered as the reference answers. DER: structure-aware mutations of canonical encodings "
    "of boundary (r, s) plus Wycheproof. bms: four address types x five networks. A case is non-trivial when "
    "the reference computed the expected answer independently; distinct = distinct (curve, hash, inputs)."
)
ASSUMPTIONS = [
    "rv.ref.ecdsa / rv.ref.ec (affine law, SEC 1 step by step) is the specification of ECDSA",
    "rv.ref.rfc6979 transcribes RFC 6979 3.2/3.6; low-R grinding follows Bitcoin Core's CKey::Sign counter convention, "
    "generalised to other curves as 'r needs no DER pad byte at the octet length of n'",
    "rv.ref.der is BIP 66 IsValidSignatureEncoding applied to the DER string plus one hash-type byte",
    "OpenSSL (cryptography) is a second oracle for verification on nine curves; hashlib/hmac are trusted",
    "public keys handed to verification are points of the prime-order subgroup (SEC 1 4.1.4 presupposes a valid key)",
    "RFC 6979 nonce whose r or s is 0: the library refusing to sign instead of drawing the next candidate is "
    "recorded, not judged (the property speaks of signatures the library produces)",
    "bms: a compressed-P2PKH header (31..34) opening to the segwit addresses of the same key is the documented "
    "Electrum convention and is recorded, not judged",
]

VEC = os.path.join(os.path.dirname(os.path.dirname(os.path.dirname(os.path.abspath(__file__)))), "vectors")

HASHES = ["sha1", "sha224", "sha256", "sha384", "sha512", "sha3_256", "blake2b"]
TOY_HASHES = ["sha256", "sha1", "sha512", "blake2b1"]


def _blake2b1():
    return hashlib.blake2b(digest_size=1)


def hf_of(name: str):
    return _blake2b1 if name == "blake2b1" else getattr(hashlib, name)


CURVE_NAMES = ["secp256k1", "secp112r1", "secp112r2", "secp128r1", "secp128r2", "secp160k1", "secp160r1",
               "secp160r2", "secp192k1", "secp192r1", "secp224k1", "secp224r1", "secp256r1", "secp384r1",
               "secp521r1", "bpp160r1", "bpp192r1", "bpp224r1", "bpp256r1", "bpp320r1", "bpp384r1", "bpp512r1"]

MECH_FUNCS = [
    "btclib.ecc.dsa:_sign_recoverable_", "btclib.ecc.dsa:_grind_low_r", "btclib.ecc.dsa:_grind_entropy",
    "btclib.ecc.dsa:_assert_as_valid_", "btclib.ecc.dsa:_recover_pub_key_", "btclib.ecc.dsa:_recover_pub_keys_",
    "btclib.ecc.dsa:_libsecp256k1_sign_", "btclib.ecc.dsa:_libsecp256k1_recover_sec_", "btclib.ecc.dsa:_delegated_sign_",
    "btclib.ecc.dsa:Sig.parse", "btclib.ecc.dsa:Sig.serialize", "btclib.ecc.dsa:Sig.assert_valid",
    "btclib.ecc.dsa:_deserialize_scalar", "btclib.ecc.dsa:_serialize_scalar", "btclib.ecc.dsa:crack_prv_key_var_",
    "btclib.ecc.rfc6979_nonce:_rfc6979_nonce_", "btclib.ecc.rfc6979_nonce:challenge_", "btclib.utils:int_from_bits",
    "btclib.ecc.bms:sign", "btclib.ecc.bms:assert_as_valid",
]

TOY_Q = [[7, 61], [11, 59], [13, 53], [17, 47], [19, 43], [23, 41], [29, 37], [5, 31]]
TOY_T = [[7, 127], [11, 113], [13, 109], [17, 107], [19, 103], [23, 101], [29, 97], [5, 31, 89], [37, 83], [41, 79],
         [43, 73], [47, 71], [53, 67], [59, 61]]


def plan(tier: str, seed: int) -> list[dict]:
    q = tier == "quick"
    B = 52 if q else 540            # soft budget of the long shards (two waves on 16 cores)
    T = 400 if q else 2700
    specs = []
    for i, ps in enumerate(TOY_Q if q else TOY_T):
        specs.append({"name": f"toy-{i}", "fn": "shard_toy", "primes": ps, "nmax": 61 if q else 127,
                      "_budget_s": B, "_timeout_s": T})
    groups = 6 if q else 11
    order = sorted((c for c in CURVE_NAMES if c != "secp256k1"), key=lambda c: -int("".join(ch for ch in c[4:] if ch.isdigit())[:3]))
    for i in range(groups):
        specs.append({"name": f"big-{i}", "fn": "shard_big", "curves": order[i::groups], "_budget_s": B, "_timeout_s": T})
    for arm in ("bindings", "python"):
        specs.append({"name": f"k1-{arm}", "fn": "shard_big", "curves": ["secp256k1"], "arm": arm,
                      "_budget_s": B, "_timeout_s": T})
    specs.append({"name": "selftest", "fn": "shard_selftest", "_budget_s": B, "_timeout_s": T})
    specs.append({"name": "toy-wide", "fn": "shard_toy_wide", "_budget_s": 40 if q else 400, "_timeout_s": T})
    for i in range(1 if q else 8):
        specs.append({"name": f"der-{i}", "fn": "shard_der", "n": 60000 if q else 125000, "part": i,
                      "_budget_s": 45 if q else 500, "_timeout_s": T})
    specs.append({"name": "wycheproof", "fn": "shard_wycheproof", "_budget_s": B, "_timeout_s": T})
    specs.append({"name": "bms", "fn": "shard_bms", "n": 6 if q else 60, "_budget_s": 45 if q else 500, "_timeout_s": T})
    specs.append({"name": "repro", "fn": "shard_repro", "n": 24 if q else 200, "_budget_s": 45 if q else 600, "_timeout_s": T})
    return specs


def finalize(m: dict, tier: str) -> list[str]:
    out = []
    c, r, a, mon, st = m["classes"], m["reached"], m["arms"], m["monitors"], m["selftest"]
    need_classes = [
        "toy:sign", "toy:sign:low-s-flip", "toy:sign:x_K>=n", "toy:sign:refused:r==0", "toy:sign:refused:s==0",
        "toy:sign:cofactor>1", "toy:recover", "toy:recover-all", "toy:verify", "toy:verify:valid", "toy:verify:r-or-s-out-of-range",
        "toy:rfc6979", "toy:rfc6979:candidate-out-of-range", "toy:crack", "toy:e>=n",
        "wide:sign", "wide:digest-shorter-than-n",
        "big:sign:rfc6979", "big:sign:grind", "big:sign:imposed-nonce", "big:sign:recoverable", "big:signer",
        "big:grind:counter>=1", "big:grind:counter>=1:python-arm", "big:low-s-flip", "big:x_K>=n:constructed", "big:x_K>=n:signed",
        "big:recover", "big:recover-all", "big:crack", "big:verify:valid", "big:digest-longer-than-n", "big:digest-shorter-than-n",
        "der:strict-accepted", "der:strict-refused", "der:canonical-valid-roundtrip", "der:wycheproof", "der:lax-only",
        "bms:sign", "bms:verify:own-address", "bms:other-key", "bms:other-type", "bms:roundtrip", "repro:two-processes",
    ]
    need_classes += [f"toy:hash:{h}" for h in TOY_HASHES] + [f"big:hash:{h}" for h in HASHES]
    need_classes += [f"big:mutant:{t}" for t in ("r+1", "r-1", "s+1", "s-1", "n-s", "r+n", "r=0", "s=0", "r=n", "s=n",
                                                 "other-message", "other-key", "-Q", "negative")]
    need_classes += [f"bms:{k}:{n}" for k in ("p2pkh-uncompressed", "p2pkh-compressed", "p2sh-p2wpkh", "p2wpkh")
                     for n in rbms.NETWORKS]
    for k in need_classes:
        if not c.get(k):
            out.append(f"input class {k} never evaluated")
    for f in ("_sign_recoverable_", "_grind_low_r", "_assert_as_valid_", "_recover_pub_key_", "_recover_pub_keys_",
              "Sig.parse", "Sig.serialize", "_deserialize_scalar", "crack_prv_key_var_", "_rfc6979_nonce_",
              "challenge_", "int_from_bits", "sign", "assert_as_valid", "grind-loop-iterated", "low-s-flip-line",
              "key-id-flip-line"):
        if not r.get(f):
            out.append(f"mechanism {f} never entered")
    if backend_available():
        for k in ("bindings:dsa.sign", "bindings:dsa.verify", "bindings:recovery.sign", "bindings:recovery.recover"):
            if not a.get(k):
                out.append(f"arm {k} never served a call")
        for f in ("_libsecp256k1_sign_", "_libsecp256k1_recover_sec_"):
            if not r.get(f):
                out.append(f"mechanism {f} never entered")
    else:
        out.append("btclib_secp256k1 bindings not installed: bindings arm of assert_as_valid_ unobserved")
    if not a.get("python:_assert_as_valid_:secp256k1"):
        out.append("Python arm of assert_as_valid_ never observed on secp256k1")
    for k in ("sign-vs-reference", "verify-vs-reference", "recover-vs-signer-key", "der-strict-vs-bip66", "openssl-oracle"):
        if not mon.get(k):
            out.append(f"monitor {k} evaluated nothing")
    for k in ("rfc6979-vectors", "wycheproof-sha256", "wycheproof-bitcoin", "wycheproof-sha512", "libsecp256k1-py-sig",
              "libsecp256k1-py-custom-nonce", "bms-signmessage"):
        if not st.get(k):
            out.append(f"oracle self-test {k} did not run")
    return out


# ------------------------------------------------------------------ observation
class _Obs:
    """Function-entry counters, line reach for the branches the design names, and
    call counters on the bindings' entry points (the arm that actually served)."""

    def __init__(self, ctx: Ctx):
        self.ctx = ctx
        self.reach = Reach()
        for d in MECH_FUNCS:
            self.reach.watch_path(d)
        self.reach.start()
        self.lines = LineReach(("btclib/ecc/dsa.py",))
        self.lines.start()
        self._restore = []
        if backend_available():
            import btclib_secp256k1 as b

            for modname, fn in (("dsa", "sign"), ("dsa", "verify"), ("recovery", "sign"), ("recovery", "recover")):
                mod = getattr(b, modname)
                orig = getattr(mod, fn)

                def make(orig=orig, tag=f"bindings:{modname}.{fn}"):
                    def w(*a, **kw):
                        ctx.arms[tag] += 1
                        return orig(*a, **kw)
                    return w

                setattr(mod, fn, make())
                self._restore.append((mod, fn, orig))

    def finish(self):
        ctx = self.ctx
        self.reach.stop()
        self.reach.report(ctx)
        self.lines.stop()
        for name, needle in (("grind-loop-iterated", "        counter += 1"), ("low-s-flip-line", "        s = ec.n - s"),
                             ("key-id-flip-line", "        key_id ^= 1")):
            if self.lines.hit_text("btclib/ecc/dsa.py", needle):
                ctx.reach(name)
        for mod, fn, orig in self._restore:
            setattr(mod, fn, orig)


def _exc_tag(e: BaseException) -> str:
    return type(e).__name__


# -------------------------------------------------------------------- self-tests
def _selftest_mini(ctx: Ctx) -> None:
    """A few published vectors, in every shard that relies on the reference models."""
    try:
        with open(os.path.join(VEC, "rfc6979.json")) as f:
            d = json.load(f)
        for cname in ("nistp192", "nistp256"):
            rc = recdsa.NIST[cname]
            for x, ux, uy, hn, msg, k, r, s in d[cname][:3]:
                hf = getattr(hashlib, hn)
                h = hf(msg.encode()).digest()
                kk = r69.nonce(int(x, 16), rc.n, h, hf)
                rr, ss, _ = recdsa.sign(rc, int(x, 16), recdsa.challenge(h, rc.n), kk)
                Q = (int(ux, 16), int(uy, 16))
                if (kk, rr, ss) != (int(k, 16), int(r, 16), int(s, 16)) or not recdsa.verify(rc, Q, recdsa.challenge(h, rc.n), rr, ss):
                    ctx.oracle_broken("rfc6979-mini", f"{cname} {hn} {msg}")
                    return
                ctx.oracle_ok("rfc6979-mini")
    except Exception as e:  # noqa: BLE001
        ctx.oracle_broken("rfc6979-mini", repr(e))


def shard_selftest(ctx: Ctx) -> None:
    K1 = rec.SECP256K1
    try:
        with open(os.path.join(VEC, "rfc6979.json")) as f:
            d = json.load(f)
        for cname, rows in d.items():
            rc = recdsa.NIST[cname]
            if not rc.on_curve(rc.G) or rc.mul_nored(rc.n, rc.G) is not None:
                ctx.oracle_broken("rfc6979-vectors", f"{cname} parameters")
                continue
            for x, ux, uy, hn, msg, k, r, s in rows:
                x = int(x, 16)
                hf = getattr(hashlib, hn)
                h = hf(msg.encode()).digest()
                e = recdsa.challenge(h, rc.n)
                Q = (int(ux, 16), int(uy, 16))
                kk = r69.nonce(x, rc.n, h, hf)
                rr, ss, _ = recdsa.sign(rc, x, e, kk)
                ok = (rc.mul_nored(x, rc.G) == Q and kk == int(k, 16) and (rr, ss) == (int(r, 16), int(s, 16))
                      and recdsa.verify(rc, Q, e, rr, ss) and not recdsa.verify(rc, Q, e + 1, rr, ss))
                if ok and rc.p.bit_length() <= 256:
                    ok = any(c[2] == Q for c in recdsa.recover(rc, e, rr, ss, 1))
                if not ok:
                    ctx.oracle_broken("rfc6979-vectors", f"{cname} {hn} {msg}")
                else:
                    ctx.oracle_ok("rfc6979-vectors")
        for fname, tag, hf, bitcoin in (("ecdsa_secp256k1_sha256_test.json", "wycheproof-sha256", hashlib.sha256, False),
                                        ("ecdsa_secp256k1_sha256_bitcoin_test.json", "wycheproof-bitcoin", hashlib.sha256, True),
                                        ("ecdsa_secp256k1_sha512_test.json", "wycheproof-sha512", hashlib.sha512, False)):
            with open(os.path.join(VEC, fname)) as f:
                w = json.load(f)
            for g in w["testGroups"]:
                pk = g["publicKey"]
                Q = (int(pk["wx"], 16), int(pk["wy"], 16))
                for tc in g["tests"]:
                    sig, msg = bytes.fromhex(tc["sig"]), bytes.fromhex(tc["msg"])
                    ok = rder.is_canonical(sig)
                    if ok:
                        r, s = rder.decode(sig)
                        if rder.encode(r, s) != sig:
                            ctx.oracle_broken(tag, f"tcId {tc['tcId']}: encode(decode) differs")
                        ok = recdsa.verify(K1, Q, recdsa.challenge(hf(msg).digest(), K1.n), r, s)
                        if bitcoin and ok:
                            ok = s <= K1.n // 2
                    if ok != (tc["result"] == "valid"):
                        ctx.oracle_broken(tag, f"tcId {tc['tcId']} {tc['comment']}: reference says {ok}")
                    else:
                        ctx.oracle_ok(tag)
        with open(os.path.join(VEC, "ecdsa_sig.json")) as f:
            for v in json.load(f)["vectors"][:120]:
                h, q = bytes.fromhex(v["msg"]), int(v["privkey"], 16)
                k = r69.nonce(q, K1.n, h, hashlib.sha256)
                r, s, _ = recdsa.sign(K1, q, recdsa.challenge(h, K1.n), k)
                s = min(s, K1.n - s)
                if rder.encode(r, s) + b"\x01" != bytes.fromhex(v["sig"]):
                    ctx.oracle_broken("libsecp256k1-py-sig", v["msg"])
                else:
                    ctx.oracle_ok("libsecp256k1-py-sig")
        with open(os.path.join(VEC, "ecdsa_custom_nonce_sig.json")) as f:
            for v in json.load(f)["vectors"][:120]:
                h, q, k = bytes.fromhex(v["msg"]), int(v["privkey"], 16), int(v["nonce"], 16)
                r, s, _ = recdsa.sign(K1, q, recdsa.challenge(h, K1.n), k)
                s = min(s, K1.n - s)
                if rder.encode(r, s) != bytes.fromhex(v["sig"]):
                    ctx.oracle_broken("libsecp256k1-py-custom-nonce", v["msg"])
                else:
                    ctx.oracle_ok("libsecp256k1-py-custom-nonce")
        with open(os.path.join(VEC, "signmessage.json")) as f:
            for v in json.load(f)[:60]:
                q, prefix, comp = rbms.wif_decode(v["wif"])
                Q = K1.mul_nored(q, K1.G)
                raw = base64.b64decode(v["signature"])
                rf, r, s = raw[0], int.from_bytes(raw[1:33], "big"), int.from_bytes(raw[33:], "big")
                e = recdsa.challenge(rbms.message_hash(v["address"].encode()), K1.n)
                cands = {(j, par): P for j, par, P in recdsa.recover(K1, e, r, s, 1)}
                recid = (rf - 27) & 3
                ok = (prefix == 0x80 and rbms.p2pkh(Q, "mainnet", comp) == v["address"]
                      and rbms.wif(q, "mainnet", comp) == v["wif"]
                      and cands.get((recid >> 1, recid & 1)) == Q and rf == rbms.header(
                          "p2pkh-compressed" if comp else "p2pkh-uncompressed", recid))
                if not ok:
                    ctx.oracle_broken("bms-signmessage", v["address"])
                else:
                    ctx.oracle_ok("bms-signmessage")
        # BIP 173 P2WPKH example and the BIP 66 size bounds
        G = K1.G
        if rbms.p2wpkh(G, "mainnet") != "bc1qw508d6qejxtdg4y5r3zarvary0c5xw7kv8f3t4" or \
                rbms.p2wpkh(G, "testnet") != "tb1qw508d6qejxtdg4y5r3zarvary0c5xw7kxpjzsx":
            ctx.oracle_broken("bip173-p2wpkh", "example address of BIP 173")
        else:
            ctx.oracle_ok("bip173-p2wpkh", 2)
    except Exception as e:  # noqa: BLE001
        ctx.oracle_broken("selftest", repr(e))
    ctx.case("selftest", "selftest", sample={"vectors": dict(ctx.selftest)})


# ------------------------------------------------------------------- toy curves
def _digest_table(hf, nlen: int, salt: bytes):
    """e -> digest for every e in 0..2^nlen-1 (e is the reference's bits2int of the digest)."""
    want = 1 << nlen
    table: dict[int, bytes] = {}
    i = 0
    while len(table) < want and i < 200000:
        h = hf()
        h.update(salt + i.to_bytes(4, "big"))
        d = h.digest()
        table.setdefault(recdsa.bits2int(d, nlen), d)
        i += 1
    return table


def _judge_sign(ctx: Ctx, o, ref, n: int, lower_s: bool, case: dict, where: str):
    """Compare one signing outcome with the reference outcome.

    ref is ('ok', r, s) with s as SEC 1 computes it, or ('fail', reason).  Returns the
    library's Sig when it is the expected one."""
    ctx.mon("sign-vs-reference")
    if ref[0] == "fail":
        if o[0] == "ok":
            ctx.violation(f"sign-answered-where-sec1-fails:{ref[1]}", f"{where}: a signature came back although {ref[1]}: {o[1]!r}", case)
        elif type(o[1]).__name__ != "BTClibRuntimeError":
            ctx.violation(f"sign-refusal-wrong-exception:{_exc_tag(o[1])}", f"{where}: {ref[1]} refused with {o[1]!r}", case)
        return None
    _, r, s = ref
    want_s = n - s if (lower_s and s > n // 2) else s
    if o[0] == "raise":
        ctx.violation(f"sign-refused-valid:{_exc_tag(o[1])}", f"{where}: raised {o[1]!r}, reference signature is ({r}, {want_s})", case)
        return None
    sig = o[1][0] if isinstance(o[1], tuple) else o[1]
    if lower_s and sig.s > n // 2:
        ctx.violation("sign-high-s-when-low-s-asked", f"{where}: s = {sig.s} > n/2 with lower_s=True", {**case, "got": (sig.r, sig.s)})
        return None
    if (sig.r, sig.s) != (r, want_s):
        if sig.r == r and sig.s == n - want_s:
            tag = "sign-s-negated-unasked"
        elif sig.r != r:
            tag = "sign-differs-from-reference:r"
        else:
            tag = "sign-differs-from-reference:s"
        ctx.violation(tag, f"{where}: got ({sig.r}, {sig.s}), reference ({r}, {want_s})", {**case, "got": (sig.r, sig.s), "want": (r, want_s)})
        return None
    return sig


def _judge_verify(ctx: Ctx, o, exp: bool, n: int, r, s, case: dict, where: str):
    ctx.mon("verify-vs-reference")
    if o[0] == "raise":
        ctx.violation(f"verify-raised:{_exc_tag(o[1])}", f"{where}: verification raised {o[1]!r} instead of answering", case)
    elif o[1] is not exp:
        if exp:
            ctx.violation("verify-rejects-valid", f"{where}: answered {o[1]!r}, the SEC 1 equation holds", case)
        else:
            how = ("r==0" if r == 0 else "s==0" if s == 0 else "r-out-of-range" if not 0 < r < n
                   else "s-out-of-range" if not 0 < s < n else "equation-fails")
            ctx.violation(f"verify-accepts-invalid:{how}", f"{where}: answered {o[1]!r} for (r, s) = ({r}, {s})", case)


def _toy_candidates(ctx: Ctx, primes, nmax: int):
    from btclib.curves.curve import Curve

    cands = []
    for p in primes:
        for rc, G, n, h, N in rec.toy_curves(p):
            if 3 <= n <= nmax:
                cands.append((rc, G, n, h))
    ctx.rng.shuffle(cands)
    # one representative per (p, n, cofactor class, a class) first, smallest groups first
    seen, first, rest = set(), [], []
    for t in cands:
        rc, G, n, h = t
        key = (rc.p, n, min(h, 3), 0 if rc.a == 0 else 1 if rc.a == rc.p - 3 else 2)
        (rest if key in seen else first).append(t)
        seen.add(key)
    first.sort(key=lambda t: (t[2], t[0].p))
    for rc, G, n, h in first + rest:
        o = outcome(Curve, rc.p, rc.a, rc.b, G, n, h, False)
        if o[0] == "ok":
            yield o[1], rc, G, n, h
        else:
            ctx.stat("toy:curve-refused-by-constructor")


def shard_toy(ctx: Ctx) -> None:
    from btclib.ecc import dsa

    _selftest_mini(ctx)
    obs = _Obs(ctx)
    rng = ctx.rng
    done = 0
    for idx, (ec, rc, G, n, h) in enumerate(_toy_candidates(ctx, ctx.params["primes"], ctx.params["nmax"])):
        if ctx.out_of_time():
            ctx.notes.append(f"{ctx.shard}: budget reached after {done} curves")
            break
        _toy_curve(ctx, dsa, ec, rc, G, n, h, TOY_HASHES[idx % len(TOY_HASHES)])
        done += 1
    ctx.stat("toy:curves", done)
    obs.finish()


def _toy_curve(ctx: Ctx, dsa, ec, rc, G, n: int, h: int, main_hash: str) -> None:
    from btclib.exceptions import BTClibRuntimeError

    rng = ctx.rng
    p = rc.p
    nlen = n.bit_length()
    desc = {"p": p, "a": rc.a, "b": rc.b, "G": G, "n": n, "h": h}
    S = rc.subgroup(G)
    assert len(S) == n
    tables = {hn: _digest_table(hf_of(hn), nlen, bytes([rc.a % 256, rc.b % 256])) for hn in TOY_HASHES}
    if any(len(t) != 1 << nlen for t in tables.values()):
        ctx.inconclusive_(f"toy digest table incomplete for n={n}")
        return
    hf = hf_of(main_hash)
    tab = tables[main_hash]
    complete = True
    n_sign = n_flip = n_xk = n_r0 = n_s0 = n_rec = n_recall = n_ver = 0

    def one(hname, hfx, d, e, q, k, Q, check_all: bool):
        nonlocal n_sign, n_flip, n_xk, n_r0, n_s0, n_rec, n_recall, n_ver
        try:
            r, s, R = recdsa.sign(rc, q, e, k)
            ref = ("ok", r, s)
            if not recdsa.verify(rc, Q, e, r, s) or not recdsa.verify(rc, Q, e, r, n - s):
                ctx.oracle_broken("ref.ecdsa sign/verify disagree", str(desc))
                return
        except recdsa.SignFailure as f:
            ref = ("fail", f.reason)
            R = None
        for low in (False, True):
            case = {**desc, "hash": hname, "digest": d, "e": e, "q": q, "k": k, "lower_s": low}
            o = outcome(dsa.sign_recoverable_, d, q, k, low, ec, hfx)
            sig = _judge_sign(ctx, o, ref, n, low, case, "sign_recoverable_")
            n_sign += 1
            if ref[0] == "fail":
                if ref[1] == "r == 0":
                    n_r0 += 1
                else:
                    n_s0 += 1
                continue
            if low and ref[2] > n // 2:
                n_flip += 1
            if R[0] >= n:
                n_xk += 1
            if sig is None:
                continue
            key_id = o[1][1]
            # the key id must lead back to the signer's key
            ctx.mon("recover-vs-signer-key")
            o2 = outcome(dsa.recover_pub_key_, key_id, d, sig, hfx)
            n_rec += 1
            if o2[0] == "raise":
                ctx.violation(f"recover-refused-own-key-id:{_exc_tag(o2[1])}", f"recover_pub_key_({key_id}) raised {o2[1]!r}",
                              {**case, "key_id": key_id, "sig": (sig.r, sig.s)})
            elif tuple(o2[1]) != Q:
                flipped = low and ref[2] > n // 2
                ctx.violation("recover-wrong-key:after-low-s-flip" if flipped else
                              "recover-wrong-key:x_K>=n" if R[0] >= n else "recover-wrong-key",
                              f"key id {key_id} recovers {o2[1]!r}, signer's key is {Q}",
                              {**case, "key_id": key_id, "sig": (sig.r, sig.s), "K": R})
            want_id = (2 * (R[0] // n) + (R[1] & 1)) ^ (1 if (low and ref[2] > n // 2) else 0)
            if key_id != want_id:
                ctx.stat("toy:key-id-not-the-conventional-numbering")
            # the produced signature verifies
            o3 = outcome(dsa.verify_, d, Q, sig, hfx)
            n_ver += 1
            _judge_verify(ctx, o3, True, n, sig.r, sig.s, {**case, "sig": (sig.r, sig.s)}, "verify_ of a produced signature")
            if check_all:
                o4 = outcome(dsa.sign_, d, q, k, low, ec, hfx, grind=False)
                _judge_sign(ctx, o4, ref, n, low, case, "sign_")
                o5 = outcome(dsa.recover_pub_keys_, d, sig, hfx)
                n_recall += 1
                if o5[0] == "raise":
                    ctx.violation(f"recover-all-raised:{_exc_tag(o5[1])}", f"recover_pub_keys_ raised {o5[1]!r}", case)
                else:
                    got = [tuple(P) for P in o5[1]]
                    if Q not in got:
                        ctx.violation("recover-all-misses-signer-key", f"recover_pub_keys_ = {got}, signer's key {Q}",
                                      {**case, "sig": (sig.r, sig.s)})
                    refk = {c[2] for c in recdsa.recover(rc, e, sig.r, sig.s, h)}
                    if set(got) != refk:
                        ctx.stat("toy:recover-all-differs-from-sec1-candidate-set")

    # --- every (q, e < n, k) under the main hash
    import time as _time

    cube_deadline = _time.time() + max(4.0, 0.45 * ctx.time_left())
    for q in range(1, n):
        if _time.time() > cube_deadline:
            complete = False
            break
        Q = S[q]
        for e in range(n):
            d = tab[e]
            for k in range(1, n):
                one(main_hash, hf, d, e, q, k, Q, (q + e + k) % 8 == 0)
    # --- the other digests (longer and shorter than the order), and challenges at or above n
    for hname in TOY_HASHES:
        hfx = hf_of(hname)
        cnt = 0
        for e in range(1 << nlen):
            if hname == main_hash and e < n:
                continue
            q, k = rng.randrange(1, n), rng.randrange(1, n)
            one(hname, hfx, tables[hname][e], e, q, k, S[q], True)
            cnt += 1
            if e >= n:
                ctx.bulk("toy:e>=n", 1, 0)
        ctx.bulk(f"toy:hash:{hname}", cnt + (n_sign // 2 if hname == main_hash else 0), 0)
    ctx.bulk("toy:sign", n_sign)
    for name, v in (("toy:sign:low-s-flip", n_flip), ("toy:sign:x_K>=n", n_xk), ("toy:sign:refused:r==0", n_r0),
                    ("toy:sign:refused:s==0", n_s0), ("toy:recover", n_rec), ("toy:recover-all", n_recall)):
        if v:
            ctx.bulk(name, v, 0)
    if h > 1:
        ctx.bulk("toy:sign:cofactor>1", n_sign, 0)
    if complete:
        ctx.exhaustive.append(f"toy ECDSA: every (key, challenge, nonce) x lower_s on the curves counted in stats['toy:cubes-complete']")
        ctx.stat("toy:cubes-complete")
    ctx.sample("toy:sign", {**desc, "hash": main_hash, "triples": n_sign // 2, "complete": complete})

    # --- RFC 6979 on the toy curve: every key x every digest value, all four digests
    for hname in TOY_HASHES:
        hfx = hf_of(hname)
        keys = range(1, n) if n <= 31 else sorted({1, 2, n - 1, *(rng.randrange(1, n) for _ in range(12))})
        for q in keys:
            if ctx.out_of_time():
                break
            for e in (range(1 << nlen) if n <= 31 else rng.sample(range(1 << nlen), 12)):
                d = tables[hname][e]
                first_in_range = None
                expect = None
                retried = False
                for i, k in enumerate(r69.candidates(q, n, d, hfx)):
                    if i >= 400:  # no nonce of this group gives a signature at all
                        expect = first_in_range
                        break
                    if not 1 <= k <= n - 1:
                        retried = True
                        continue
                    try:
                        r, s, _ = recdsa.sign(rc, q, e, k)
                    except recdsa.SignFailure as f:
                        if first_in_range is None:
                            first_in_range = ("fail", f.reason)
                        continue
                    if first_in_range is None:
                        first_in_range = ("ok", r, s)
                    expect = ("ok", r, s)
                    break
                if retried:
                    ctx.bulk("toy:rfc6979:candidate-out-of-range", 1, 0)
                if expect is None or first_in_range is None:
                    ctx.stat("toy:rfc6979:no-candidate-in-400-draws")
                    continue
                for low in (False, True):
                    case = {**desc, "hash": hname, "digest": d, "q": q, "lower_s": low}
                    for fn, call in (("sign_", lambda: dsa.sign_(d, q, None, low, ec, hfx, grind=False)),
                                     ("sign_recoverable_", lambda: dsa.sign_recoverable_(d, q, None, low, ec, hfx)),
                                     ("sign_(grind)", lambda: dsa.sign_(d, q, None, low, ec, hfx))):
                        o = outcome(call)
                        if o[0] == "raise" and first_in_range[0] == "fail" and isinstance(o[1], BTClibRuntimeError):
                            ctx.stat(f"rfc6979:first-candidate-unsuitable-refused:{first_in_range[1]}")
                            continue
                        _judge_sign(ctx, o, expect, n, low, case, f"{fn} with the RFC 6979 nonce")
                    ctx.bulk("toy:rfc6979", 3)

    # --- verification: every (r, s) in -1..n+1 squared
    if n <= 13:
        keys = list(range(1, n))
    else:
        keys = sorted({1, n - 1, *(rng.randrange(1, n) for _ in range(3 if n > 31 else 5))})
    es = sorted({0, 1, n - 1, rng.randrange(n), *( [n] if n < (1 << nlen) else [] )})
    n_v = n_valid = n_oor = 0
    for q in keys:
        Q = S[q]
        for e in es:
            if ctx.out_of_time():
                break
            hname = TOY_HASHES[(q + e) % len(TOY_HASHES)]
            hfx, d = hf_of(hname), tables[hname][e]
            for r in range(-1, n + 2):
                for s in range(-1, n + 2):
                    exp = recdsa.verify(rc, Q, e, r, s)
                    o = outcome(dsa.verify_, d, Q, dsa.Sig(r, s, ec, check_validity=False), hfx)
                    _judge_verify(ctx, o, exp, n, r, s, {**desc, "hash": hname, "digest": d, "e": e, "Q": Q, "r": r, "s": s}, "verify_")
                    n_v += 1
                    n_valid += exp
                    n_oor += not (0 < r < n and 0 < s < n)
    ctx.bulk("toy:verify", n_v)
    if n_valid:
        ctx.bulk("toy:verify:valid", n_valid, 0)
    if n_oor:
        ctx.bulk("toy:verify:r-or-s-out-of-range", n_oor, 0)
    ctx.sample("toy:verify", {**desc, "keys": len(keys), "challenges": es, "pairs": (n + 3) ** 2})

    # --- two signatures sharing a nonce give the key and the nonce back
    n_c = 0
    for _ in range(min(4 * n, 120)):
        q, k = rng.randrange(1, n), rng.randrange(1, n)
        e1, e2 = rng.sample(range(n), 2) if n > 2 else (0, 1)
        try:
            r1, s1, _ = recdsa.sign(rc, q, e1, k)
            r2, s2, _ = recdsa.sign(rc, q, e2, k)
        except recdsa.SignFailure:
            continue
        if s1 == s2:
            continue
        hname = TOY_HASHES[n_c % len(TOY_HASHES)]
        o = outcome(dsa.crack_prv_key_var_, tables[hname][e1], dsa.Sig(r1, s1, ec), tables[hname][e2], dsa.Sig(r2, s2, ec), hf_of(hname))
        if o[0] == "raise" or tuple(o[1]) != (q, k):
            ctx.violation("crack-wrong-key-or-nonce", f"crack_prv_key_var_ -> {o[1]!r}, signed with q={q}, k={k}",
                          {**desc, "hash": hname, "e1": e1, "e2": e2, "sig1": (r1, s1), "sig2": (r2, s2), "q": q, "k": k})
        n_c += 1
    if n_c:
        ctx.bulk("toy:crack", n_c)


def shard_toy_wide(ctx: Ctx) -> None:
    """Toy curves whose order is wider than a 1-byte digest (n >= 257): sampled, not exhaustive."""
    from btclib.curves.curve import Curve
    from btclib.ecc import dsa

    _selftest_mini(ctx)
    obs = _Obs(ctx)
    rng = ctx.rng
    primes = [263, 269, 311, 383, 509, 521, 761, 1021, 1031, 2039]
    made = 0
    while not ctx.out_of_time() and made < (60 if ctx.tier == "quick" else 600):
        p = rng.choice(primes)
        a, b = rng.randrange(p), rng.randrange(1, p)
        c0 = rec.RefCurve(p, a, b)
        if not c0.discriminant_nonzero():
            continue
        pts = c0.all_points()
        N = len(pts) + 1
        ns = [q for q in range(257, N + 1) if N % q == 0 and rec.is_prime(q)]
        if not ns:
            continue
        n = ns[-1]
        h = N // n
        G = next((P for P in pts if c0.mul_nored(n, P) is None), None)
        if G is None:
            continue
        o = outcome(Curve, p, a, b, G, n, h, False)
        if o[0] != "ok":
            ctx.stat("wide:curve-refused-by-constructor")
            continue
        ec, rc = o[1], rec.RefCurve(p, a, b, G, n)
        made += 1
        desc = {"p": p, "a": a, "b": b, "G": G, "n": n, "h": h}
        nlen = n.bit_length()
        for it in range(160 if ctx.tier == "quick" else 600):
            hname = TOY_HASHES[it % 4]
            hfx = hf_of(hname)
            hh = hfx()
            hh.update(rng.randbytes(8))
            d = hh.digest()
            e = recdsa.challenge(d, n)
            q, k = rng.randrange(1, n), rng.randrange(1, n)
            Q = rc.mul_nored(q, G)
            try:
                r, s, R = recdsa.sign(rc, q, e, k)
                ref = ("ok", r, s)
            except recdsa.SignFailure as f:
                ref = ("fail", f.reason)
            for low in (False, True):
                case = {**desc, "hash": hname, "digest": d, "q": q, "k": k, "lower_s": low}
                o = outcome(dsa.sign_recoverable_, d, q, k, low, ec, hfx)
                sig = _judge_sign(ctx, o, ref, n, low, case, "sign_recoverable_")
                if sig is not None:
                    ctx.mon("recover-vs-signer-key")
                    o2 = outcome(dsa.recover_pub_key_, o[1][1], d, sig, hfx)
                    if o2[0] == "raise" or tuple(o2[1]) != Q:
                        ctx.violation("recover-wrong-key", f"key id {o[1][1]} -> {o2[1]!r}, signer's key {Q}", {**case, "sig": (sig.r, sig.s)})
                    _judge_verify(ctx, outcome(dsa.verify_, d, Q, sig, hfx), True, n, sig.r, sig.s, case, "verify_ of a produced signature")
                    rm, sm = rng.choice([(sig.r, (sig.s + 1) % n), ((sig.r + 1) % n, sig.s), (sig.r, n - sig.s), (0, sig.s), (sig.r, n)])
                    _judge_verify(ctx, outcome(dsa.verify_, d, Q, dsa.Sig(rm, sm, ec, check_validity=False), hfx),
                                  recdsa.verify(rc, Q, e, rm, sm), n, rm, sm, {**case, "r": rm, "s": sm}, "verify_")
                ctx.case("wide:sign", (p, a, b, n, hname, d, q, k, low), sample={**desc, "hash": hname, "nlen": nlen})
            # RFC 6979 with a digest shorter than the order
            k0 = r69.nonce(q, n, d, hfx)
            try:
                r, s, _ = recdsa.sign(rc, q, e, k0)
                o = outcome(dsa.sign_, d, q, None, False, ec, hfx, grind=False)
                _judge_sign(ctx, o, ("ok", r, s), n, False, {**desc, "hash": hname, "digest": d, "q": q}, "sign_ with the RFC 6979 nonce")
            except recdsa.SignFailure:
                pass
            if 8 * len(d) < nlen:
                ctx.bulk("wide:digest-shorter-than-n", 1, 0)
    ctx.stat("wide:curves", made)
    obs.finish()


# ---------------------------------------------------------- catalogued curves
def _openssl_curves():
    try:
        from cryptography.hazmat.primitives.asymmetric import ec as cec
    except ImportError:
        return {}
    m = {"secp256k1": cec.SECP256K1, "secp192r1": cec.SECP192R1, "secp224r1": cec.SECP224R1,
         "secp256r1": cec.SECP256R1, "secp384r1": cec.SECP384R1, "secp521r1": cec.SECP521R1,
         "bpp256r1": cec.BrainpoolP256R1, "bpp384r1": cec.BrainpoolP384R1, "bpp512r1": cec.BrainpoolP512R1}
    out = {}
    for k, v in m.items():
        try:
            cec.derive_private_key(1, v())
            out[k] = v
        except Exception:  # noqa: BLE001 - curve not supported by this OpenSSL build
            pass
    return out


def _openssl_verify(curve_cls, hname: str, Q, digest: bytes, r: int, s: int):
    """True/False, or None when OpenSSL cannot be asked (value it cannot encode)."""
    from cryptography.exceptions import InvalidSignature
    from cryptography.hazmat.primitives import hashes as ch
    from cryptography.hazmat.primitives.asymmetric import ec as cec
    from cryptography.hazmat.primitives.asymmetric import utils as cu

    alg = {"sha1": ch.SHA1, "sha224": ch.SHA224, "sha256": ch.SHA256, "sha384": ch.SHA384, "sha512": ch.SHA512,
           "sha3_256": ch.SHA3_256}.get(hname)
    alg = alg() if alg else ch.BLAKE2b(64)
    if r < 0 or s < 0:
        return None
    try:
        pk = cec.EllipticCurvePublicNumbers(Q[0], Q[1], curve_cls()).public_key()
        der = cu.encode_dss_signature(r, s)
    except Exception:  # noqa: BLE001
        return None
    try:
        pk.verify(der, digest, cec.ECDSA(cu.Prehashed(alg)))
        return True
    except InvalidSignature:
        return False


_KEY_CLASSES = ["one", "two", "n-1", "n-2", "uniform", "small", "top-bits", "half"]
_MSG_CLASSES = ["empty", "abc", "short", "long", "zeros"]


def _key_of(cls: str, n: int, rng) -> int:
    return {"one": 1, "two": 2, "n-1": n - 1, "n-2": n - 2, "uniform": rng.randrange(1, n), "small": rng.randrange(3, 1 << 16),
            "top-bits": n - rng.randrange(1, 1 << 20), "half": n // 2 + rng.randrange(-2, 3)}[cls]


def _msg_of(cls: str, rng) -> bytes:
    return {"empty": b"", "abc": b"abc", "short": rng.randbytes(rng.randrange(1, 64)), "long": rng.randbytes(rng.randrange(200, 1500)),
            "zeros": bytes(rng.randrange(1, 40))}[cls]


def shard_big(ctx: Ctx) -> None:
    from btclib.curves.curve import CURVES
    from btclib.ecc import dsa

    _selftest_mini(ctx)
    obs = _Obs(ctx)
    ossl = _openssl_curves()
    armsel = ctx.params.get("arm")
    state = {"Q": {}, "it": 0, "obs": obs}
    rnd = 0
    stop = False
    try:
        while not stop:
            for name in ctx.params["curves"]:
                ec = CURVES[name]
                rc = rec.RefCurve(ec.p, ec._a, ec._b, tuple(ec.G), ec.n, name)
                k1 = name == "secp256k1"
                arms = [armsel] if (k1 and armsel) else (["bindings", "python"] if k1 and backend_available() else [None])
                for arm in arms:
                    if k1 and backend_available():
                        set_backend(arm != "python")
                    elif k1 and arm == "bindings":
                        ctx.inconclusive_("bindings arm requested but btclib_secp256k1 is not installed")
                        continue
                    for hi, hname in enumerate(HASHES):
                        if rnd > 0 and ctx.out_of_time():
                            stop = True
                            break
                        _big_case(ctx, dsa, ec, rc, name, hname, arm if k1 else "python", rnd, hi, ossl, state)
                    if stop:
                        break
                if stop:
                    break
            rnd += 1
            if ctx.out_of_time():
                stop = True
    finally:
        if backend_available():
            set_backend(True)
    ctx.stat("big:rounds", rnd)
    obs.finish()


def _big_case(ctx: Ctx, dsa, ec, rc, name: str, hname: str, arm: str, rnd: int, hi: int, ossl: dict, state: dict) -> None:
    rng = ctx.rng
    n, p = rc.n, rc.p
    nlen = n.bit_length()
    hf = hf_of(hname)
    k1 = name == "secp256k1"
    it = state["it"]
    state["it"] += 1
    kcls = _KEY_CLASSES[(it + rnd) % len(_KEY_CLASSES)]
    mcls = _MSG_CLASSES[(it // 2 + rnd) % len(_MSG_CLASSES)]
    q = _key_of(kcls, n, rng)
    msg = _msg_of(mcls, rng)
    digest = hf(msg).digest()
    e = recdsa.challenge(digest, n)
    Qc = state["Q"]

    def pub(x):
        if (name, x) not in Qc:
            Qc[(name, x)] = rc.mul_nored(x, rc.G)
        return Qc[(name, x)]

    Q = pub(q)
    python_arm = not (k1 and arm == "bindings" and hname == "sha256")
    desc = {"curve": name, "hash": hname, "arm": arm, "q": q, "msg": msg, "key-class": kcls, "msg-class": mcls}
    ctx.case(f"big:hash:{hname}", (name, hname, arm, q, msg), sample={**desc, "digest": digest})
    ctx.classes[f"big:key:{kcls}"] += 1
    if 8 * len(digest) > nlen:
        ctx.classes["big:digest-longer-than-n"] += 1
    elif 8 * len(digest) < nlen:
        ctx.classes["big:digest-shorter-than-n"] += 1

    # ---- the reference's RFC 6979 attempts, Core's counter convention for low R
    atts = []
    counter = 0
    while True:
        k = r69.nonce(q, n, digest, hf, r69.core_grind_extra(counter))
        r, s, R = recdsa.sign(rc, q, e, k)
        atts.append((k, r, s, R))
        if r69.is_low_r(r, n) or counter > 64:
            break
        counter += 1
    plain, ground = atts[0], atts[-1]
    if len(atts) > 1:
        ctx.classes["big:grind:counter>=1"] += 1
        if python_arm:
            ctx.classes["big:grind:counter>=1:python-arm"] += 1
    if plain[2] > n // 2:
        ctx.classes["big:low-s-flip"] += 1
    if plain[3][0] >= n:
        ctx.classes["big:x_K>=n:signed"] += 1
    if not recdsa.verify(rc, Q, e, plain[1], plain[2]):
        ctx.oracle_broken("ref.ecdsa sign/verify disagree", name)
        return

    def der_of(r, s):
        b = rder.encode(r, s)
        return b if len(b) - 2 < 0x80 else None  # beyond that the library's length octets are not DER's: recorded only

    # ---- default nonce: grind x lower_s through sign, one combination through sign_, Signer
    for gi, (grind, low) in enumerate(((False, False), (False, True), (True, False), (True, True))):
        _, r, s, _ = ground if grind else plain
        case = {**desc, "grind": grind, "lower_s": low}
        o = outcome(dsa.sign, msg, q, None, low, ec, hf, grind=grind)
        sig = _judge_sign(ctx, o, ("ok", r, s), n, low, case, "sign")
        ctx.classes["big:sign:grind" if grind else "big:sign:rfc6979"] += 1
        if gi == (it % 4):
            o = outcome(dsa.sign_, digest, q, None, low, ec, hf, grind=grind)
            _judge_sign(ctx, o, ("ok", r, s), n, low, case, "sign_")
            o = outcome(dsa.sign, msg, q, None, low, ec, hf, grind=grind)
            sig2 = _judge_sign(ctx, o, ("ok", r, s), n, low, case, "sign (second call)")
            if sig is not None and sig2 is not None and sig.serialize() != sig2.serialize():
                ctx.violation("sign-not-reproducible", "two calls, two encodings", case)
            if sig is not None:
                want = der_of(r, n - s if (low and s > n // 2) else s)
                got = outcome(sig.serialize)
                if want is None:
                    ctx.stat("der:serialize-needs-long-form-length(not judged)")
                elif got[0] == "raise" or got[1] != want:
                    ctx.violation("serialize-differs-from-der", f"Sig.serialize() = {got[1]!r}, DER is {want.hex()}", case)
        if low:
            # Signer always signs low-s
            o = outcome(lambda: dsa.Signer(q, ec, hf).sign(msg, grind=grind))
            want = der_of(r, min(s, n - s))
            ctx.classes["big:signer"] += 1
            if o[0] == "raise":
                ctx.violation(f"signer-refused:{_exc_tag(o[1])}", f"Signer.sign raised {o[1]!r}", case)
            elif want is None:
                ctx.stat("der:serialize-needs-long-form-length(not judged)")
            elif o[1] != want:
                ctx.violation("signer-differs-from-reference", f"Signer.sign = {o[1].hex()}, reference {want.hex()}", case)
            if it % 3 == 0:
                o = outcome(lambda: dsa.Signer(q, ec, hf).sign_(digest, grind=grind, verify=False))
                if want is not None and (o[0] == "raise" or o[1] != want):
                    ctx.violation("signer-differs-from-reference", f"Signer.sign_ = {o[1]!r}, reference {want.hex()}", case)

    # ---- recoverable signing, key recovery
    for low in (False, True):
        _, r, s, R = plain
        case = {**desc, "lower_s": low}
        o = outcome(dsa.sign_recoverable, msg, q, None, low, ec, hf)
        sig = _judge_sign(ctx, o, ("ok", r, s), n, low, case, "sign_recoverable")
        ctx.classes["big:sign:recoverable"] += 1
        if sig is None:
            continue
        key_id = o[1][1]
        ctx.mon("recover-vs-signer-key")
        o2 = outcome(dsa.recover_pub_key, key_id, msg, sig, hf)
        ctx.classes["big:recover"] += 1
        if o2[0] == "raise":
            ctx.violation(f"recover-refused-own-key-id:{_exc_tag(o2[1])}", f"recover_pub_key({key_id}) raised {o2[1]!r}", {**case, "key_id": key_id})
        elif tuple(o2[1]) != Q:
            flipped = low and s > n // 2
            ctx.violation("recover-wrong-key:after-low-s-flip" if flipped else "recover-wrong-key:x_K>=n" if R[0] >= n else "recover-wrong-key",
                          f"key id {key_id} recovers {o2[1]!r}, signer's key is {Q}", {**case, "key_id": key_id, "sig": (sig.r, sig.s)})
        if low == bool(it & 1):
            o3 = outcome(dsa.recover_pub_keys_, digest, sig, hf)
            ctx.classes["big:recover-all"] += 1
            if o3[0] == "raise" or Q not in [tuple(P) for P in o3[1]]:
                ctx.violation("recover-all-misses-signer-key", f"recover_pub_keys_ -> {o3[1]!r}", {**case, "sig": (sig.r, sig.s)})
            # the hashing spelling answers what the prepared one answers on hf(msg)
            o4 = outcome(dsa.recover_pub_keys, msg, sig, hf)
            ctx.classes["big:recover-all:hashing-entry"] += 1
            if o3[0] == "ok" and (o4[0] == "raise" or [tuple(P) for P in o4[1]] != [tuple(P) for P in o3[1]]):
                ctx.violation("recover-all-hashing-entry-differs", f"recover_pub_keys(msg) -> {o4[1]!r}, recover_pub_keys_(hf(msg)) -> {o3[1]!r}",
                              {**case, "sig": (sig.r, sig.s)})

    # ---- imposed nonce
    kcl = ["one", "two", "n-1", "uniform", "uniform"][it % 5]
    k = _key_of(kcl, n, rng)
    r, s, R = recdsa.sign(rc, q, e, k)
    low = bool((it >> 1) & 1)
    case = {**desc, "k": k, "lower_s": low}
    o = outcome(dsa.sign_, digest, q, k, low, ec, hf, grind=False)
    _judge_sign(ctx, o, ("ok", r, s), n, low, case, "sign_ with an imposed nonce")
    ctx.classes["big:sign:imposed-nonce"] += 1
    o = outcome(dsa.sign_recoverable_, digest, q, k, low, ec, hf)
    sigk = _judge_sign(ctx, o, ("ok", r, s), n, low, case, "sign_recoverable_ with an imposed nonce")
    if sigk is not None:
        ctx.mon("recover-vs-signer-key")
        o2 = outcome(dsa.recover_pub_key_, o[1][1], digest, sigk, hf)
        if o2[0] == "raise" or tuple(o2[1]) != Q:
            ctx.violation("recover-wrong-key:x_K>=n" if R[0] >= n else "recover-wrong-key",
                          f"key id {o[1][1]} -> {o2[1]!r}, signer's key {Q}", {**case, "sig": (sigk.r, sigk.s)})
    if R[0] >= n:
        ctx.classes["big:x_K>=n:signed"] += 1
    # grinding and an imposed nonce exclude each other: a refusal, not a guess
    o = outcome(dsa.sign_, digest, q, k, low, ec, hf)
    if o[0] == "ok":
        ctx.stat("big:grind-with-imposed-nonce-answered")

    # ---- nonce reuse
    msg2 = msg + b"\x01"
    d2 = hf(msg2).digest()
    r2, s2, _ = recdsa.sign(rc, q, recdsa.challenge(d2, n), k)
    if s2 != s:
        o = outcome(dsa.crack_prv_key_var, msg, dsa.Sig(r, s, ec), msg2, dsa.Sig(r2, s2, ec), hf)
        ctx.classes["big:crack"] += 1
        if o[0] == "raise" or tuple(o[1]) != (q, k):
            ctx.violation("crack-wrong-key-or-nonce", f"crack_prv_key_var -> {o[1]!r}", {**desc, "k": k})

    # ---- verification: the valid signature and its mutants, answered as the reference answers
    _, r, s, _ = plain
    full = (hi == rnd % len(HASHES)) or (k1 and rnd % 2 == 0)
    q2 = q + 1 if q + 1 < n else q - 1
    muts = [("valid", Q, msg, r, s), ("n-s", Q, msg, r, n - s), ("s+1", Q, msg, r, s + 1), ("other-message", Q, msg + b"x", r, s)]
    if full:
        muts += [("r+1", Q, msg, r + 1, s), ("r-1", Q, msg, r - 1, s), ("s-1", Q, msg, r, s - 1), ("r+n", Q, msg, r + n, s),
                 ("r=0", Q, msg, 0, s), ("s=0", Q, msg, r, 0), ("r=n", Q, msg, n, s), ("s=n", Q, msg, r, n),
                 ("other-key", pub(q2), msg, r, s), ("-Q", rc.neg(Q), msg, r, s),
                 ("negative", Q, msg, -r, s), ("negative", Q, msg, r, -s), ("negative", Q, msg, r, s - n)]
    counts = state["obs"].reach.counts
    py0, bd0 = counts.get("_assert_as_valid_", 0), ctx.arms["bindings:dsa.verify"]
    for tag, Qm, mm, rm, sm in muts:
        dm = digest if mm is msg else hf(mm).digest()
        em = recdsa.challenge(dm, n)
        exp = recdsa.verify(rc, Qm, em, rm, sm)
        case = {**desc, "mutant": tag, "Q": Qm, "r": rm, "s": sm, "digest": dm}
        sigm = dsa.Sig(rm, sm, ec, check_validity=False)
        key = Qm
        if k1:
            key = [Qm, rbms.sec(Qm, True), rbms.sec(Qm, False), rbms.sec(Qm, True).hex()][(it + len(tag)) % 4]
        o = outcome(dsa.verify_, dm, key, sigm, hf)
        _judge_verify(ctx, o, exp, n, rm, sm, case, f"verify_ [{arm}]")
        ctx.classes["big:verify:valid" if tag == "valid" else f"big:mutant:{tag}"] += 1
        if tag in ("valid", "n-s", "other-message", "r=0") or it % 4 == 0:
            o = outcome(dsa.verify, mm, key, sigm, hf)
            _judge_verify(ctx, o, exp, n, rm, sm, case, f"verify [{arm}]")
            o = outcome(dsa.assert_as_valid_, dm, key, sigm, hf)
            if exp and o[0] == "raise":
                ctx.violation("assert-as-valid-refuses-valid", f"assert_as_valid_ raised {o[1]!r}", case)
            elif not exp and o[0] == "ok":
                ctx.violation("assert-as-valid-accepts-invalid", "assert_as_valid_ returned for an invalid signature", case)
            elif not exp and not is_lib_exc(o[1]):
                ctx.violation(f"assert-as-valid-foreign-exception:{_exc_tag(o[1])}", f"assert_as_valid_ raised {o[1]!r}", case)
        if k1 and 0 < rm < n and 0 < sm < n and tag in ("valid", "n-s", "s+1") and it % 2 == 0:
            # the DER octets as the signature argument
            o = outcome(dsa.verify_, dm, key, rder.encode(rm, sm), hf)
            _judge_verify(ctx, o, exp, n, rm, sm, {**case, "sig-as": "der"}, f"verify_ of DER octets [{arm}]")
        if name in ossl and tag in ("valid", "n-s", "s+1", "r+1", "other-message", "other-key", "r=0", "s=n"):
            ov = _openssl_verify(ossl[name], hname, Qm, dm, rm, sm)
            if ov is not None:
                ctx.mon("openssl-oracle")
                if ov != exp:
                    ctx.oracle_broken("ref.ecdsa.verify vs OpenSSL", f"{name} {hname} {tag}: reference {exp}, OpenSSL {ov}")
    if k1:
        # which arm actually answered: entries of the Python equation vs calls that crossed into the bindings
        ctx.arms["python:_assert_as_valid_:secp256k1"] += counts.get("_assert_as_valid_", 0) - py0
        ctx.arms["bindings:dsa.verify:secp256k1"] += ctx.arms["bindings:dsa.verify"] - bd0

    # ---- a valid signature whose ephemeral x-coordinate is >= n, built by recovery (no nonce is known for it)
    if p > n + 1 and hi == (rnd + 3) % len(HASHES):
        for _ in range(40):
            t = rng.randrange(1, min(n, p - n))
            Rk = rc.lift_x(n + t, rng.randrange(2))
            if Rk is None or rc.mul_nored(n, Rk) is not None:
                continue
            sx = rng.randrange(1, n)
            T = rc.add(rc.mul_nored(sx, Rk), rc.neg(rc.mul_nored(e % n, rc.G)))
            Qx = rc.mul_nored(pow(t, -1, n), T)
            if Qx is None or not recdsa.verify(rc, Qx, e, t, sx):
                continue
            case = {**desc, "Q": Qx, "r": t, "s": sx, "x_K": n + t, "digest": digest}
            sigx = dsa.Sig(t, sx, ec, check_validity=False)
            _judge_verify(ctx, outcome(dsa.verify_, digest, Qx, sigx, hf), True, n, t, sx, case, f"verify_ with x_K >= n [{arm}]")
            key_id = 2 * ((n + t) // n) + (Rk[1] & 1)
            o = outcome(dsa.recover_pub_key_, key_id, digest, sigx, hf)
            ctx.mon("recover-vs-signer-key")
            if o[0] == "raise" or tuple(o[1]) != Qx:
                ctx.violation("recover-wrong-key:x_K>=n", f"key id {key_id} -> {o[1]!r}, the key is {Qx}", case)
            o = outcome(dsa.recover_pub_keys_, digest, sigx, hf)
            if o[0] == "raise" or Qx not in [tuple(P) for P in o[1]]:
                ctx.violation("recover-all-misses-signer-key", f"recover_pub_keys_ -> {o[1]!r} (x_K >= n)", case)
            ctx.classes["big:x_K>=n:constructed"] += 1
            break


# ------------------------------------------------------------------------ DER
def _bip66_rule(x: bytes) -> str:
    """Name of the first BIP 66 rule a bare DER string breaks (for mechanism tags only; the verdict is rder's)."""
    sig = bytes(x) + b"\x01"
    if len(sig) < 9:
        return "too-short"
    if len(sig) > 73:
        return "too-long"
    if sig[0] != 0x30:
        return "sequence-tag"
    if sig[1] != len(sig) - 3:
        return "sequence-length"
    lenR = sig[3]
    if 5 + lenR >= len(sig):
        return "r-length"
    lenS = sig[5 + lenR]
    if lenR + lenS + 7 != len(sig):
        return "element-lengths"
    if sig[2] != 0x02:
        return "r-tag"
    if lenR == 0:
        return "r-empty"
    if sig[4] & 0x80:
        return "r-negative"
    if lenR > 1 and sig[4] == 0 and not sig[5] & 0x80:
        return "r-padding"
    if sig[lenR + 4] != 0x02:
        return "s-tag"
    if lenS == 0:
        return "s-empty"
    if sig[lenR + 6] & 0x80:
        return "s-negative"
    if lenS > 1 and sig[lenR + 6] == 0 and not sig[lenR + 7] & 0x80:
        return "s-padding"
    return "none"


def _is_x_coordinate(rc, r: int) -> bool:
    x = r
    while x < rc.p:
        if rc.lift_x(x) is not None:
            return True
        x += rc.n
    return False


def _der_eval(ctx: Ctx, Sig, x: bytes, mut: str, seen: dict) -> None:
    """One byte string through the strict parser, judged against BIP 66."""
    K1 = rec.SECP256K1
    n = K1.n
    ctx.mon("der-strict-vs-bip66")
    canon = rder.is_canonical(x)
    o = outcome(Sig.parse, x)
    on = outcome(Sig.parse, x, check_validity=False)
    ol = outcome(Sig.parse, x, check_validity=False, strict=False)
    case = {"der": x, "mutator": mut}
    for tag, oo in (("strict", o), ("strict,check_validity=False", on)):
        if oo[0] != "ok":
            continue
        sig = oo[1]
        if not canon:
            if tag == "strict" or len(x) <= 72:
                ctx.violation(f"der-strict-accepts-noncanonical:{_bip66_rule(x)}",
                              f"Sig.parse({tag}) accepted {x.hex()} -> ({sig.r}, {sig.s}); BIP 66 rule broken: {_bip66_rule(x)}", case)
            else:
                ctx.stat("der:oversized-accepted-with-check_validity=False(not judged)")
        elif (sig.r, sig.s) != rder.decode(x):
            ctx.violation("der-strict-decodes-wrong-values", f"{x.hex()} -> ({sig.r}, {sig.s}), DER says {rder.decode(x)}", case)
        back = outcome(sig.serialize, check_validity=False)
        if back[0] == "raise" or back[1] != bytes(x):
            ctx.violation("der-parse-serialize-not-identity", f"parse({x.hex()}).serialize() = {back[1]!r}", case)
        prev = seen.setdefault((sig.r, sig.s), bytes(x))
        if prev != bytes(x):
            ctx.violation("der-two-encodings-one-signature", f"{prev.hex()} and {x.hex()} both decode to ({sig.r}, {sig.s})", case)
    if o[0] == "ok":
        sig = o[1]
        if not (0 < sig.r < n and 0 < sig.s < n):
            ctx.violation("der-validated-parse-out-of-range", f"Sig.parse accepted r, s = ({sig.r}, {sig.s})", case)
        ctx.case("der:strict-accepted", x, sample=case)
    else:
        ctx.case("der:strict-refused", x)
        if not is_lib_exc(o[1]):
            ctx.stat(f"der:refused-with-foreign-exception:{_exc_tag(o[1])}")
    if canon:
        r, s = rder.decode(x)
        if 0 < r < n and 0 < s < n:
            if on[0] != "ok":
                ctx.violation("der-strict-refuses-canonical", f"canonical {x.hex()} refused (check_validity=False): {on[1]!r}", case)
            if _is_x_coordinate(K1, r):
                ctx.classes["der:canonical-valid-roundtrip"] += 1
                if o[0] != "ok":
                    ctx.violation("der-strict-refuses-canonical", f"canonical {x.hex()} of a valid (r, s) refused: {o[1]!r}", case)
            elif o[0] != "ok":
                ctx.stat("der:r-not-an-x-coordinate-refused(not judged)")
    if ol[0] == "ok" and on[0] != "ok":
        ctx.classes["der:lax-only"] += 1
    ctx.classes[f"der:mut:{mut}"] += 1


def _short(nb: int) -> bytes:
    return bytes([nb & 0xFF])


def _der_build(rb: bytes, sb: bytes, **ov) -> bytes:
    inner = (ov.get("r_tag", b"\x02") + ov.get("r_len", _short(len(rb))) + rb
             + ov.get("s_tag", b"\x02") + ov.get("s_len", _short(len(sb))) + sb + ov.get("inner_extra", b""))
    if ov.get("drop_s"):
        inner = ov.get("r_tag", b"\x02") + ov.get("r_len", _short(len(rb))) + rb
    seq_len = ov["seq_len"](len(inner)) if "seq_len" in ov else _short(len(inner))
    return ov.get("seq_tag", b"\x30") + seq_len + inner + ov.get("outer_extra", b"")


def _der_mutations(rng, rb: bytes, sb: bytes):
    """(name, bytes) for every structural mutation of one canonical encoding."""
    B = _der_build
    yield "canonical", B(rb, sb)
    for k in (1, 2, 3):
        yield "pad-r", B(b"\x00" * k + rb, sb)
        yield "pad-s", B(rb, b"\x00" * k + sb)
    if len(rb) > 1 and rb[0] == 0:
        yield "unpad-r", B(rb[1:], sb)
    if len(sb) > 1 and sb[0] == 0:
        yield "unpad-s", B(rb, sb[1:])
    yield "negative-r", B(bytes([rb[0] | 0x80]) + rb[1:], sb)
    yield "negative-s", B(rb, bytes([sb[0] | 0x80]) + sb[1:])
    yield "ff-pad-r", B(b"\xff" + rb, sb)
    for lf in (lambda L: b"\x81" + _short(L), lambda L: b"\x82\x00" + _short(L), lambda L: b"\x83\x00\x00" + _short(L)):
        yield "longform-seq", B(rb, sb, seq_len=lf)
        yield "longform-r", B(rb, sb, r_len=lf(len(rb)))
        yield "longform-s", B(rb, sb, s_len=lf(len(sb)))
    yield "indefinite-seq", B(rb, sb, seq_len=lambda L: b"\x80", inner_extra=b"\x00\x00")
    yield "indefinite-seq", B(rb, sb, seq_len=lambda L: b"\x80")
    yield "indefinite-r", B(rb + b"\x00\x00", sb, r_len=b"\x80")
    for lf in (lambda L: b"\xfd" + L.to_bytes(2, "little"), lambda L: b"\xfe" + L.to_bytes(4, "little"),
               lambda L: b"\xff" + L.to_bytes(8, "little"), lambda L: b"\xfd" + L.to_bytes(2, "big")):
        yield "compactsize-seq", B(rb, sb, seq_len=lf)
        yield "compactsize-r", B(rb, sb, r_len=lf(len(rb)))
        yield "compactsize-s", B(rb, sb, s_len=lf(len(sb)))
    for t in (0x00, 0x31, 0x20, 0x10, 0xFF, 0x32, 0xB0, 0x70):
        yield "seq-tag", B(rb, sb, seq_tag=bytes([t]))
    for t in (0x00, 0x01, 0x03, 0x82, 0x22, 0x0A, 0xFF, 0x30):
        yield "r-tag", B(rb, sb, r_tag=bytes([t]))
        yield "s-tag", B(rb, sb, s_tag=bytes([t]))
    for extra in (b"\x00", b"\x01", b"\x02\x01\x01", b"\x05\x00", b"\x00\x00", rng.randbytes(rng.randrange(1, 5))):
        yield "trailing-inside", B(rb, sb, inner_extra=extra)
        yield "trailing-outside", B(rb, sb, outer_extra=extra)
        yield "trailing-inside-unaccounted", B(rb, sb, inner_extra=extra, seq_len=lambda L, e=len(extra): _short(L - e))
    for dlt in (-2, -1, 1, 2):
        yield "seq-length-off", B(rb, sb, seq_len=lambda L, d=dlt: _short(L + d))
        yield "r-length-off", B(rb, sb, r_len=_short(len(rb) + dlt))
        yield "s-length-off", B(rb, sb, s_len=_short(len(sb) + dlt))
    yield "empty-r", B(b"", sb)
    yield "empty-s", B(rb, b"")
    yield "empty-both", B(b"", b"")
    yield "one-integer", B(rb, sb, drop_s=True)
    yield "zero-length-seq", b"\x30\x00"
    yield "swapped", B(sb, rb)
    full = B(rb, sb)
    for cut in sorted({0, 1, 2, 3, 4, 4 + len(rb) - 1, 4 + len(rb), 5 + len(rb), 6 + len(rb), len(full) - 1}):
        yield "truncated", full[:cut]
    yield "prefixed", b"\x00" + full
    yield "doubled", full + full
    for _ in range(4):
        i = rng.randrange(len(full))
        yield "bit-flip", full[:i] + bytes([full[i] ^ (1 << rng.randrange(8))]) + full[i + 1:]
        yield "byte-insert", full[:i] + rng.randbytes(1) + full[i:]
        yield "byte-delete", full[:i] + full[i + 1:]


def shard_der(ctx: Ctx) -> None:
    from btclib.ecc.dsa import Sig

    obs = _Obs(ctx)
    rng = ctx.rng
    K1 = rec.SECP256K1
    n, p = K1.n, K1.p
    xs = [K1.mul_nored(rng.randrange(1, n), K1.G)[0] % n for _ in range(12)]
    low_x = [x for x in range(1, 400) if K1.lift_x(x) is not None][:6]
    high = [x for x in (xs + [K1.mul_nored(k, K1.G)[0] % n for k in range(2, 30)]) if x >> 255][:4]
    r_vals = xs + low_x + high + [1, 2, 127, 128, 255, 256, 1 << 255, (1 << 255) - 1, (1 << 255) + 1, n - 1, n - 2, n, n + 1, 0,
                                  (1 << 256) - 1, 1 << 256, 1 << 248, (1 << 248) - 1, 1 << 263, p, p - 1]
    s_vals = [1, 2, 127, 128, 255, 256, 32767, 32768, n // 2, n // 2 + 1, 1 << 255, (1 << 255) - 1, n - 1, n, 0, n + 1,
              (1 << 256) - 1, 1 << 256, 1 << 264]
    seen: dict = {}
    total = ctx.params["n"]
    done = 0
    arm = True
    try:
        while done < total and not ctx.out_of_time():
            if backend_available():
                arm = not arm
                set_backend(arm)
            r = rng.choice(r_vals) if rng.random() < 0.8 else rng.randrange(1, n)
            s = rng.choice(s_vals) if rng.random() < 0.6 else rng.randrange(1, n)
            rb, sb = rder.encode_int(r)[2:], rder.encode_int(s)[2:]
            if len(rb) > 120 or len(sb) > 120:
                continue
            for mut, x in _der_mutations(rng, rb, sb):
                _der_eval(ctx, Sig, x, mut, seen)
                done += 1
            for _ in range(6):  # the 5% side dish
                _der_eval(ctx, Sig, rng.randbytes(rng.randrange(0, 80)), "random-bytes", seen)
                _der_eval(ctx, Sig, b"\x30" + _short(rng.randrange(0, 75)) + b"\x02" + rng.randbytes(rng.randrange(0, 75)), "random-tail", seen)
                done += 2
    finally:
        if backend_available():
            set_backend(True)
    obs.finish()


def shard_wycheproof(ctx: Ctx) -> None:
    """The vendored Wycheproof signatures: DER strings through the strict parser, and the whole verification
    (DER octets in, boolean out) against 'BIP 66 canonical and the SEC 1 equation holds'."""
    from btclib.ecc import dsa

    _selftest_mini(ctx)
    obs = _Obs(ctx)
    K1 = rec.SECP256K1
    seen: dict = {}
    files = (("ecdsa_secp256k1_sha256_test.json", "sha256"), ("ecdsa_secp256k1_sha256_bitcoin_test.json", "sha256"),
             ("ecdsa_secp256k1_sha512_test.json", "sha512"))
    i = 0
    try:
        for fname, hname in files:
            hf = hf_of(hname)
            with open(os.path.join(VEC, fname)) as f:
                w = json.load(f)
            for g in w["testGroups"]:
                pk = g["publicKey"]
                Q = (int(pk["wx"], 16), int(pk["wy"], 16))
                for tc in g["tests"]:
                    if ctx.out_of_time() and ctx.classes["der:wycheproof"] > 300:
                        ctx.notes.append("wycheproof: budget reached")
                        return
                    i += 1
                    if backend_available():
                        set_backend(i % 2 == 0)
                    sig, msg = bytes.fromhex(tc["sig"]), bytes.fromhex(tc["msg"])
                    _der_eval(ctx, dsa.Sig, sig, "wycheproof", seen)
                    exp = False
                    r = s = -1
                    if rder.is_canonical(sig):
                        r, s = rder.decode(sig)
                        exp = recdsa.verify(K1, Q, recdsa.challenge(hf(msg).digest(), K1.n), r, s)
                    key = [Q, pk["uncompressed"], bytes.fromhex(pk["uncompressed"])][i % 3]
                    case = {"file": fname, "tcId": tc["tcId"], "comment": tc["comment"], "sig": sig, "msg": msg, "Q": Q}
                    ctx.mon("verify-vs-reference")
                    o = outcome(dsa.verify, msg, key, sig, hf)
                    if o[0] == "raise":
                        ctx.violation(f"verify-raised:{_exc_tag(o[1])}", f"verify of DER octets raised {o[1]!r}", case)
                    elif o[1] is not exp:
                        if exp:
                            ctx.violation("verify-rejects-valid", f"Wycheproof {fname} tcId {tc['tcId']} ({tc['comment']}): False", case)
                        elif not rder.is_canonical(sig):
                            ctx.violation(f"verify-accepts-noncanonical-der:{_bip66_rule(sig)}",
                                          f"Wycheproof {fname} tcId {tc['tcId']} ({tc['comment']}): True", case)
                        else:
                            ctx.violation("verify-accepts-invalid:equation-fails" if 0 < r < K1.n and 0 < s < K1.n else
                                          "verify-accepts-invalid:r-or-s-out-of-range",
                                          f"Wycheproof {fname} tcId {tc['tcId']} ({tc['comment']}): True", case)
                    ctx.case("der:wycheproof", (fname, tc["tcId"]), sample=case)
    finally:
        if backend_available():
            set_backend(True)
        obs.finish()


# ------------------------------------------------------------------------ bms
_KINDS = ["p2pkh-uncompressed", "p2pkh-compressed", "p2sh-p2wpkh", "p2wpkh"]


def _ref_address(Q, kind: str, net: str) -> str:
    if kind == "p2pkh-uncompressed":
        return rbms.p2pkh(Q, net, False)
    if kind == "p2pkh-compressed":
        return rbms.p2pkh(Q, net, True)
    if kind == "p2sh-p2wpkh":
        return rbms.p2sh_p2wpkh(Q, net)
    return rbms.p2wpkh(Q, net)


def _ref_bms_opens(Qr, rf: int, addr: str, net: str):
    """(strict BIP 137 verdict, Electrum-lenient verdict) for the recovered key Qr."""
    if Qr is None or not 27 <= rf <= 42:
        return False, False
    kind = _KINDS[(rf - 27) // 4]
    strict = _ref_address(Qr, kind, net) == addr
    lenient = kind == "p2pkh-compressed" and addr in (rbms.p2sh_p2wpkh(Qr, net), rbms.p2wpkh(Qr, net))
    return strict, lenient


def shard_bms(ctx: Ctx) -> None:
    from btclib.ecc import bms, dsa

    _selftest_mini(ctx)
    obs = _Obs(ctx)
    rng = ctx.rng
    K1 = rec.SECP256K1
    n = K1.n
    it = 0
    rec_cache: dict = {}

    def recovered(e, r, s, recid):
        key = (e, r, s)
        if key not in rec_cache:
            rec_cache[key] = {(j, par): P for j, par, P in recdsa.recover(K1, e, r, s, 1)}
        return rec_cache[key].get((recid >> 1, recid & 1))

    try:
        for rep in range(ctx.params["n"]):
            for net in rbms.NETWORKS:
                for kind in _KINDS:
                    if ctx.out_of_time() and rep > 0:
                        ctx.notes.append(f"bms: budget reached in repetition {rep}")
                        return
                    it += 1
                    if backend_available():
                        set_backend(it % 2 == 0)
                    arm = "bindings" if (backend_available() and it % 2 == 0) else "python"
                    comp = kind != "p2pkh-uncompressed"
                    q = _key_of(_KEY_CLASSES[it % len(_KEY_CLASSES)], n, rng)
                    Q = K1.mul_nored(q, K1.G)
                    msg = [b"", b"hello", rng.randbytes(rng.randrange(1, 80)), rng.randbytes(rng.randrange(253, 400)),
                           "a message ✓ ".encode() * 3][it % 5]
                    wif = rbms.wif(q, net, comp)
                    addr = _ref_address(Q, kind, net)
                    d = rbms.message_hash(msg)
                    e = recdsa.challenge(d, n)
                    k = r69.nonce(q, n, d, hashlib.sha256)
                    r, s, R = recdsa.sign(K1, q, e, k)
                    recid = 2 * (R[0] // n) + (R[1] & 1)
                    if s > n // 2:
                        s, recid = n - s, recid ^ 1
                    want_rf = rbms.header(kind, recid)
                    case = {"network": net, "kind": kind, "arm": arm, "q": q, "wif": wif, "address": addr, "msg": msg}
                    give_addr = addr if (kind not in ("p2pkh-compressed", "p2pkh-uncompressed") or it % 3) else None
                    o = outcome(bms.sign, msg, wif, give_addr)
                    ctx.mon("sign-vs-reference")
                    ctx.case("bms:sign", (net, kind, q, msg), sample=case)
                    ctx.classes[f"bms:{kind}:{net}"] += 1
                    if o[0] == "raise" and net == "regtest" and kind == "p2wpkh" and is_lib_exc(o[1]):
                        # a WIF carries a version byte that testnet, signet, testnet4 and regtest share: the library reads it
                        # as testnet and cannot be told otherwise, so a bcrt1 address is refused.  Nothing was signed: not
                        # judged here; verification is exercised with the reference's signature instead
                        ctx.stat("bms:sign-refused:regtest-bech32-address-with-network-ambiguous-wif(not judged)")
                        o = outcome(bms.Sig.parse, bytes([want_rf]) + r.to_bytes(32, "big") + s.to_bytes(32, "big"))
                    if o[0] == "raise":
                        ctx.violation(f"bms-sign-refused:{_exc_tag(o[1])}", f"bms.sign raised {o[1]!r}", case)
                        continue
                    sig = o[1]
                    got = (sig.rf, sig.dsa_sig.r, sig.dsa_sig.s)
                    if got[1:] != (r, s):
                        ctx.violation("bms-sign-differs-from-rfc6979", f"bms.sign -> {got}, reference {(want_rf, r, s)}", {**case, "got": got})
                        continue
                    if sig.rf != want_rf:
                        Qr = recovered(e, r, s, (sig.rf - 27) & 3)
                        ctx.violation("bms-recovery-flag-wrong-key" if Qr != Q else "bms-recovery-flag-wrong-address-type",
                                      f"recovery flag {sig.rf}, the address type and key prescribe {want_rf}", {**case, "got": got})
                        continue
                    if recovered(e, r, s, recid) != Q:
                        ctx.oracle_broken("ref.ecdsa.recover", "does not give the signer's key back")
                        continue
                    ctx.mon("recover-vs-signer-key")
                    # own address, in the three spellings of a signature
                    raw = bytes([want_rf]) + r.to_bytes(32, "big") + s.to_bytes(32, "big")
                    b64 = base64.b64encode(raw).decode()
                    for form, sg in (("Sig", sig), ("base64", b64)):
                        ov = outcome(bms.verify, msg, addr, sg)
                        ctx.classes["bms:verify:own-address"] += 1
                        if ov[0] == "raise" or ov[1] is not True:
                            ctx.violation("bms-verify-rejects-own-signature", f"bms.verify({form}) -> {ov[1]!r}", case)
                    rt = outcome(lambda: (sig.serialize(), sig.b64encode(), bms.Sig.parse(raw), bms.Sig.b64decode(b64)))
                    ctx.classes["bms:roundtrip"] += 1
                    if rt[0] == "raise" or rt[1][0] != raw or rt[1][1] != b64 or rt[1][2] != sig or rt[1][3] != sig:
                        ctx.violation("bms-serialization-roundtrip", f"65-byte / base64 forms do not round-trip: {rt[1]!r}", case)
                    # another key, same type
                    q2 = q + 1 if q + 1 < n else q - 1
                    a2 = _ref_address(K1.mul_nored(q2, K1.G), kind, net)
                    ov = outcome(bms.verify, msg, a2, sig)
                    ctx.classes["bms:other-key"] += 1
                    if ov[0] == "raise" or ov[1] is not False:
                        ctx.violation("bms-verify-accepts-other-key", f"signature of {addr} accepted for {a2}: {ov[1]!r}", case)
                    # every other type of the same key, every header of the same (r, s)
                    for kind2 in _KINDS:
                        if kind2 == kind:
                            continue
                        a3 = _ref_address(Q, kind2, net)
                        strict, lenient = _ref_bms_opens(Q, want_rf, a3, net)
                        ov = outcome(bms.verify, msg, a3, sig)
                        ctx.classes["bms:other-type"] += 1
                        if ov[0] == "raise":
                            ctx.violation(f"bms-verify-raised:{_exc_tag(ov[1])}", f"bms.verify raised {ov[1]!r}", {**case, "other": a3})
                        elif lenient and not strict:
                            ctx.stat(f"bms:electrum-lenient:{kind}->{kind2}:{ov[1]}")
                        elif ov[1] is not strict:
                            ctx.violation("bms-verify-accepts-other-address-type" if ov[1] else "bms-verify-rejects-own-signature",
                                          f"signature with header {want_rf} for {kind} answered {ov[1]} on the {kind2} address", {**case, "other": a3})
                    if it % 4 == 0:
                        # another header on the same (r, s): answered as BIP 137 answers
                        rf2 = rng.choice([x for x in range(27, 43) if x != want_rf])
                        Qr = recovered(e, r, s, (rf2 - 27) & 3)
                        strict, lenient = _ref_bms_opens(Qr, rf2, addr, net)
                        sg2 = outcome(bms.Sig, rf2, sig.dsa_sig)
                        if sg2[0] == "ok":
                            ov = outcome(bms.verify, msg, addr, sg2[1])
                            ctx.classes["bms:other-header"] += 1
                            if ov[0] == "raise":
                                ctx.violation(f"bms-verify-raised:{_exc_tag(ov[1])}", f"bms.verify raised {ov[1]!r}", {**case, "rf": rf2})
                            elif lenient and not strict:
                                ctx.stat(f"bms:electrum-lenient:header{rf2}:{ov[1]}")
                            elif ov[1] is not strict:
                                ctx.violation("bms-verify-wrong-on-foreign-header", f"header {rf2} on {kind} address: {ov[1]}, BIP 137 says {strict}", {**case, "rf": rf2})
                        # another message
                        ov = outcome(bms.verify, msg + b"!", addr, sig)
                        e2 = recdsa.challenge(rbms.message_hash(msg + b"!"), n)
                        strict, _ = _ref_bms_opens(recovered(e2, r, s, recid), want_rf, addr, net)
                        if ov[0] == "raise" or ov[1] is not strict:
                            ctx.violation("bms-verify-accepts-other-message", f"another message answered {ov[1]!r}", case)
    finally:
        if backend_available():
            set_backend(True)
        obs.finish()


# ---------------------------------------------------------- two processes
_CHILD = r"""
import sys, json, hashlib
repo = sys.argv[1]
sys.path.insert(0, repo)
from btclib.curves.curve import CURVES
from btclib.ecc import dsa
out = []
for name, hname, q, msg, grind, low in json.load(sys.stdin):
    hf = getattr(hashlib, hname)
    sig = dsa.sign(bytes.fromhex(msg), int(q, 16), None, low, CURVES[name], hf, grind=grind)
    out.append([hex(sig.r), hex(sig.s)])
print(json.dumps(out))
"""


def shard_repro(ctx: Ctx) -> None:
    import subprocess
    import sys

    from btclib.curves.curve import CURVES
    from btclib.ecc import dsa

    rng = ctx.rng
    repo = os.environ.get("VERIF_REPO", "/repo")
    cases = []
    for i in range(ctx.params["n"]):
        name = "secp256k1" if i % 2 == 0 else rng.choice(CURVE_NAMES[1:15])
        hname = "sha256" if i % 4 < 2 else rng.choice(HASHES)
        n = CURVES[name].n
        cases.append([name, hname, hex(_key_of(_KEY_CLASSES[i % len(_KEY_CLASSES)], n, rng)), rng.randbytes(rng.randrange(0, 90)).hex(),
                      bool(i & 1), bool(i & 2) or name == "secp256k1" and i % 8 == 0])
    here = []
    for name, hname, q, msg, grind, low in cases:
        sig = dsa.sign(bytes.fromhex(msg), int(q, 16), None, low, CURVES[name], getattr(hashlib, hname), grind=grind)
        here.append([hex(sig.r), hex(sig.s)])
    for label, extra_env in (("fresh-process", {"PYTHONHASHSEED": str(rng.randrange(1, 10**6))}),
                             ("fresh-process-python-arm", {"PYTHONHASHSEED": "random", "BTCLIB_NO_LIBSECP256K1": "1"})):
        env = dict(os.environ, **extra_env)
        p = subprocess.run([sys.executable, "-c", _CHILD, repo], input=json.dumps(cases), capture_output=True, text=True,
                           env=env, timeout=300)
        if p.returncode != 0:
            ctx.inconclusive_(f"repro child failed: {p.stderr[-300:]}")
            return
        there = json.loads(p.stdout)
        for c, a, b in zip(cases, here, there):
            ctx.case("repro:two-processes", (label, tuple(c)), sample={"case": c, "process": label})
            if a != b:
                ctx.violation("sign-not-reproducible-across-processes", f"{label}: {a} here, {b} there", {"case": c})
