"""C02 - ECDSA: signatures verify, verification is the SEC 1 equation, DER is canonical.

Reference-model monitor.  ``rv.ref.ecdsa`` (SEC 1 4.1.3/4.1.4/4.1.6 over the affine
reference arithmetic), ``rv.ref.rfc6979`` (HMAC_DRBG transcription with the additional
input and Core's low-R counter convention), ``rv.ref.der`` (BIP 66) and ``rv.ref.bms``
decide; OpenSSL verifies every reference signature on the curves it knows, as a second
oracle for the reference itself.
"""

from __future__ import annotations

import base64
import hashlib
import json
import os

from ..ctx import Ctx, is_lib_exc, outcome
from ..hooks import LineReach, Reach, backend_available, set_backend
from ..ref import bms as rbms
from ..ref import der as rder
from ..ref import ec as rec
from ..ref import ecdsa as recdsa
from ..ref import rfc6979 as r69

PROPERTY = "C02"
RULE = (
    "toy curves (every (a,b) over small F_p, every prime-order subgroup Curve() admits, cofactor > 1 included): "
    "every (key, challenge, nonce) triple signed with lower_s on and off and compared with the reference "
    "(r, s), refusal exactly on r == 0 / s == 0, key recovered from the returned key id, every (r, s) in "
    "-1..n+1 squared verified against the SEC 1 equation for keys x challenges; digests from sha256, sha1, "
    "sha512 and a 1-byte blake2b. Catalogued curves x 7 hash functions: class-sampled keys/messages, RFC 6979 "
    "(grind on/off, lower_s on/off) byte for byte, imposed nonces, both arms on secp256k1, mutants of every "
    "valid signature answered as the reference answers. DER: structure-aware mutations of canonical encodings "
    "of boundary (r, s) plus Wycheproof. bms: four address types x five networks. A case is non-trivial when "
    "the reference computed the expected answer independently; distinct = distinct (curve, hash, inputs)."
)
ASSUMPTIONS = [
    "rv.ref.ecdsa / rv.ref.ec (affine law, SEC 1 step by step) is the specification of ECDSA",
    "rv.ref.rfc6979 transcribes RFC 6979 3.2/3.6; low-R grinding follows Bitcoin Core's CKey::Sign counter convention, "
    "generalised to other curves as 'r needs no DER pad byte at the octet length of n'",
    "rv.ref.der is BIP 66 IsValidSignatureEncoding applied to the DER string plus one hash-type byte",
    "OpenSSL (cryptography) is a second oracle for verification on nine curves; hashlib/hmac are trusted",
    "public keys handed to verification are points of the prime-order subgroup (SEC 1 4.1.4 presupposes a valid key)",
    "RFC 6979 nonce whose r or s is 0: the library refusing to sign instead of drawing the next candidate is "
    "recorded, not judged (the property speaks of signatures the library produces)",
    "bms: a compressed-P2PKH header (31..34) opening to the segwit addresses of the same key is the documented "
    "Electrum convention and is recorded, not judged",
]

VEC = os.path.join(os.path.dirname(os.path.dirname(os.path.dirname(os.path.abspath(__file__)))), "vectors")

HASHES = ["sha1", "sha224", "sha256", "sha384", "sha512", "sha3_256", "blake2b"]
TOY_HASHES = ["sha256", "sha1", "sha512", "blake2b1"]


def _blake2b1():
    return hashlib.blake2b(digest_size=1)


def hf_of(name: str):
    return _blake2b1 if name == "blake2b1" else getattr(hashlib, name)


CURVE_NAMES = ["secp256k1", "secp112r1", "secp112r2", "secp128r1", "secp128r2", "secp160k1", "secp160r1",
               "secp160r2", "secp192k1", "secp192r1", "secp224k1", "secp224r1", "secp256r1", "secp384r1",
               "secp521r1", "bpp160r1", "bpp192r1", "bpp224r1", "bpp256r1", "bpp320r1", "bpp384r1", "bpp512r1"]

MECH_FUNCS = [
    "btclib.ecc.dsa:_sign_recoverable_", "btclib.ecc.dsa:_grind_low_r", "btclib.ecc.dsa:_grind_entropy",
    "btclib.ecc.dsa:_assert_as_valid_", "btclib.ecc.dsa:_recover_pub_key_", "btclib.ecc.dsa:_recover_pub_keys_",
    "btclib.ecc.dsa:_libsecp256k1_sign_", "btclib.ecc.dsa:_libsecp256k1_recover_sec_", "btclib.ecc.dsa:_delegated_sign_",
    "btclib.ecc.dsa:Sig.parse", "btclib.ecc.dsa:Sig.serialize", "btclib.ecc.dsa:Sig.assert_valid",
    "btclib.ecc.dsa:_deserialize_scalar", "btclib.ecc.dsa:_serialize_scalar", "btclib.ecc.dsa:crack_prv_key_var_",
    "btclib.ecc.rfc6979_nonce:_rfc6979_nonce_", "btclib.ecc.rfc6979_nonce:challenge_", "btclib.utils:int_from_bits",
    "btclib.ecc.bms:sign", "btclib.ecc.bms:assert_as_valid",
]

TOY_Q = [[7, 61], [11, 59], [13, 53], [17, 47], [19, 43], [23, 41], [29, 37], [5, 31]]
TOY_T = [[7, 127], [11, 113], [13, 109], [17, 107], [19, 103], [23, 101], [29, 97], [5, 31, 89], [37, 83], [41, 79],
         [43, 73], [47, 71], [53, 67], [59, 61]]


def plan(tier: str, seed: int) -> list[dict]:
    q = tier == "quick"
    B = 52 if q else 1000           # soft budget of the long shards
    T = 400 if q else 2700
    specs = []
    for i, ps in enumerate(TOY_Q if q else TOY_T):
        specs.append({"name": f"toy-{i}", "fn": "shard_toy", "primes": ps, "nmax": 61 if q else 127,
                      "_budget_s": B, "_timeout_s": T})
    groups = 6 if q else 11
    order = sorted(CURVE_NAMES, key=lambda c: -int("".join(ch for ch in c[4:] if ch.isdigit())[:3]))
    for i in range(groups):
        specs.append({"name": f"big-{i}", "fn": "shard_big", "curves": order[i::groups], "_budget_s": B, "_timeout_s": T})
    for arm in ("bindings", "python"):
        specs.append({"name": f"k1-{arm}", "fn": "shard_big", "curves": ["secp256k1"], "arm": arm,
                      "_budget_s": B, "_timeout_s": T})
    specs.append({"name": "selftest", "fn": "shard_selftest", "_budget_s": B, "_timeout_s": T})
    specs.append({"name": "toy-wide", "fn": "shard_toy_wide", "_budget_s": 40 if q else 600, "_timeout_s": T})
    for i in range(1 if q else 8):
        specs.append({"name": f"der-{i}", "fn": "shard_der", "n": 12000 if q else 125000, "part": i,
                      "_budget_s": 45 if q else 900, "_timeout_s": T})
    specs.append({"name": "wycheproof", "fn": "shard_wycheproof", "_budget_s": B, "_timeout_s": T})
    specs.append({"name": "bms", "fn": "shard_bms", "n": 6 if q else 60, "_budget_s": 45 if q else 900, "_timeout_s": T})
    specs.append({"name": "repro", "fn": "shard_repro", "n": 24 if q else 200, "_budget_s": 45 if q else 600, "_timeout_s": T})
    return specs


def finalize(m: dict, tier: str) -> list[str]:
    out = []
    c, r, a, mon, st = m["classes"], m["reached"], m["arms"], m["monitors"], m["selftest"]
    need_classes = [
        "toy:sign", "toy:sign:low-s-flip", "toy:sign:x_K>=n", "toy:sign:refused:r==0", "toy:sign:refused:s==0",
        "toy:sign:cofactor>1", "toy:recover", "toy:recover-all", "toy:verify", "toy:verify:valid", "toy:verify:r-or-s-out-of-range",
        "toy:rfc6979", "toy:rfc6979:candidate-out-of-range", "toy:crack", "toy:e>=n",
        "wide:sign", "wide:digest-shorter-than-n",
        "big:sign:rfc6979", "big:sign:grind", "big:sign:imposed-nonce", "big:sign:recoverable", "big:signer",
        "big:grind:counter>=1", "big:grind:counter>=1:python-arm", "big:low-s-flip", "big:x_K>=n:constructed", "big:x_K>=n:signed",
        "big:recover", "big:recover-all", "big:crack", "big:verify:valid", "big:digest-longer-than-n", "big:digest-shorter-than-n",
        "der:strict-accepted", "der:strict-refused", "der:canonical-valid-roundtrip", "der:wycheproof", "der:lax-only",
        "bms:sign", "bms:verify:own-address", "bms:other-key", "bms:other-type", "bms:roundtrip", "repro:two-processes",
    ]
    need_classes += [f"toy:hash:{h}" for h in TOY_HASHES] + [f"big:hash:{h}" for h in HASHES]
    need_classes += [f"big:mutant:{t}" for t in ("r+1", "r-1", "s+1", "s-1", "n-s", "r+n", "r=0", "s=0", "r=n", "s=n",
                                                 "other-message", "other-key", "-Q", "negative")]
    need_classes += [f"bms:{k}:{n}" for k in ("p2pkh-uncompressed", "p2pkh-compressed", "p2sh-p2wpkh", "p2wpkh")
                     for n in rbms.NETWORKS]
    for k in need_classes:
        if not c.get(k):
            out.append(f"input class {k} never evaluated")
    for f in ("_sign_recoverable_", "_grind_low_r", "_assert_as_valid_", "_recover_pub_key_", "_recover_pub_keys_",
              "Sig.parse", "Sig.serialize", "_deserialize_scalar", "crack_prv_key_var_", "_rfc6979_nonce_",
              "challenge_", "int_from_bits", "sign", "assert_as_valid", "grind-loop-iterated", "low-s-flip-line",
              "key-id-flip-line"):
        if not r.get(f):
            out.append(f"mechanism {f} never entered")
    if backend_available():
        for k in ("bindings:dsa.sign", "bindings:dsa.verify", "bindings:recovery.sign", "bindings:recovery.recover"):
            if not a.get(k):
                out.append(f"arm {k} never served a call")
        for f in ("_libsecp256k1_sign_", "_libsecp256k1_recover_sec_"):
            if not r.get(f):
                out.append(f"mechanism {f} never entered")
    else:
        out.append("btclib_secp256k1 bindings not installed: bindings arm of assert_as_valid_ unobserved")
    if not a.get("python:_assert_as_valid_:secp256k1"):
        out.append("Python arm of assert_as_valid_ never observed on secp256k1")
    for k in ("sign-vs-reference", "verify-vs-reference", "recover-vs-signer-key", "der-strict-vs-bip66", "openssl-oracle"):
        if not mon.get(k):
            out.append(f"monitor {k} evaluated nothing")
    for k in ("rfc6979-vectors", "wycheproof-sha256", "wycheproof-bitcoin", "wycheproof-sha512", "libsecp256k1-py-sig",
              "libsecp256k1-py-custom-nonce", "bms-signmessage"):
        if not st.get(k):
            out.append(f"oracle self-test {k} did not run")
    return out


# ------------------------------------------------------------------ observation
class _Obs:
    """Function-entry counters, line reach for the branches the design names, and
    call counters on the bindings' entry points (the arm that actually served)."""

    def __init__(self, ctx: Ctx):
        self.ctx = ctx
        self.reach = Reach()
        for d in MECH_FUNCS:
            self.reach.watch_path(d)
        self.reach.start()
        self.lines = LineReach(("btclib/ecc/dsa.py",))
        self.lines.start()
        self._restore = []
        if backend_available():
            import btclib_secp256k1 as b

            for modname, fn in (("dsa", "sign"), ("dsa", "verify"), ("recovery", "sign"), ("recovery", "recover")):
                mod = getattr(b, modname)
                orig = getattr(mod, fn)

                def make(orig=orig, tag=f"bindings:{modname}.{fn}"):
                    def w(*a, **kw):
                        ctx.arms[tag] += 1
                        return orig(*a, **kw)
                    return w

                setattr(mod, fn, make())
                self._restore.append((mod, fn, orig))

    def finish(self):
        ctx = self.ctx
        self.reach.stop()
        self.reach.report(ctx)
        self.lines.stop()
        for name, needle in (("grind-loop-iterated", "        counter += 1"), ("low-s-flip-line", "        s = ec.n - s"),
                             ("key-id-flip-line", "        key_id ^= 1")):
            if self.lines.hit_text("btclib/ecc/dsa.py", needle):
                ctx.reach(name)
        for mod, fn, orig in self._restore:
            setattr(mod, fn, orig)


def _exc_tag(e: BaseException) -> str:
    return type(e).__name__


# -------------------------------------------------------------------- self-tests
def _selftest_mini(ctx: Ctx) -> None:
    """A few published vectors, in every shard that relies on the reference models."""
    try:
        with open(os.path.join(VEC, "rfc6979.json")) as f:
            d = json.load(f)
        for cname in ("nistp192", "nistp256"):
            rc = recdsa.NIST[cname]
            for x, ux, uy, hn, msg, k, r, s in d[cname][:3]:
                hf = getattr(hashlib, hn)
                h = hf(msg.encode()).digest()
                kk = r69.nonce(int(x, 16), rc.n, h, hf)
                rr, ss, _ = recdsa.sign(rc, int(x, 16), recdsa.challenge(h, rc.n), kk)
                Q = (int(ux, 16), int(uy, 16))
                if (kk, rr, ss) != (int(k, 16), int(r, 16), int(s, 16)) or not recdsa.verify(rc, Q, recdsa.challenge(h, rc.n), rr, ss):
                    ctx.oracle_broken("rfc6979-mini", f"{cname} {hn} {msg}")
                    return
                ctx.oracle_ok("rfc6979-mini")
    except Exception as e:  # noqa: BLE001
        ctx.oracle_broken("rfc6979-mini", repr(e))


def shard_selftest(ctx: Ctx) -> None:
    K1 = rec.SECP256K1
    try:
        with open(os.path.join(VEC, "rfc6979.json")) as f:
            d = json.load(f)
        for cname, rows in d.items():
            rc = recdsa.NIST[cname]
            if not rc.on_curve(rc.G) or rc.mul_nored(rc.n, rc.G) is not None:
                ctx.oracle_broken("rfc6979-vectors", f"{cname} parameters")
                continue
            for x, ux, uy, hn, msg, k, r, s in rows:
                x = int(x, 16)
                hf = getattr(hashlib, hn)
                h = hf(msg.encode()).digest()
                e = recdsa.challenge(h, rc.n)
                Q = (int(ux, 16), int(uy, 16))
                kk = r69.nonce(x, rc.n, h, hf)
                rr, ss, _ = recdsa.sign(rc, x, e, kk)
                ok = (rc.mul_nored(x, rc.G) == Q and kk == int(k, 16) and (rr, ss) == (int(r, 16), int(s, 16))
                      and recdsa.verify(rc, Q, e, rr, ss) and not recdsa.verify(rc, Q, e + 1, rr, ss))
                if ok and rc.p.bit_length() <= 256:
                    ok = any(c[2] == Q for c in recdsa.recover(rc, e, rr, ss, 1))
                if not ok:
                    ctx.oracle_broken("rfc6979-vectors", f"{cname} {hn} {msg}")
                else:
                    ctx.oracle_ok("rfc6979-vectors")
        for fname, tag, hf, bitcoin in (("ecdsa_secp256k1_sha256_test.json", "wycheproof-sha256", hashlib.sha256, False),
                                        ("ecdsa_secp256k1_sha256_bitcoin_test.json", "wycheproof-bitcoin", hashlib.sha256, True),
                                        ("ecdsa_secp256k1_sha512_test.json", "wycheproof-sha512", hashlib.sha512, False)):
            with open(os.path.join(VEC, fname)) as f:
                w = json.load(f)
            for g in w["testGroups"]:
                pk = g["publicKey"]
                Q = (int(pk["wx"], 16), int(pk["wy"], 16))
                for tc in g["tests"]:
                    sig, msg = bytes.fromhex(tc["sig"]), bytes.fromhex(tc["msg"])
                    ok = rder.is_canonical(sig)
                    if ok:
                        r, s = rder.decode(sig)
                        if rder.encode(r, s) != sig:
                            ctx.oracle_broken(tag, f"tcId {tc['tcId']}: encode(decode) differs")
                        ok = recdsa.verify(K1, Q, recdsa.challenge(hf(msg).digest(), K1.n), r, s)
                        if bitcoin and ok:
                            ok = s <= K1.n // 2
                    if ok != (tc["result"] == "valid"):
                        ctx.oracle_broken(tag, f"tcId {tc['tcId']} {tc['comment']}: reference says {ok}")
                    else:
                        ctx.oracle_ok(tag)
        with open(os.path.join(VEC, "ecdsa_sig.json")) as f:
            for v in json.load(f)["vectors"][:120]:
                h, q = bytes.fromhex(v["msg"]), int(v["privkey"], 16)
                k = r69.nonce(q, K1.n, h, hashlib.sha256)
                r, s, _ = recdsa.sign(K1, q, recdsa.challenge(h, K1.n), k)
                s = min(s, K1.n - s)
                if rder.encode(r, s) + b"\x01" != bytes.fromhex(v["sig"]):
                    ctx.oracle_broken("libsecp256k1-py-sig", v["msg"])
                else:
                    ctx.oracle_ok("libsecp256k1-py-sig")
        with open(os.path.join(VEC, "ecdsa_custom_nonce_sig.json")) as f:
            for v in json.load(f)["vectors"][:120]:
                h, q, k = bytes.fromhex(v["msg"]), int(v["privkey"], 16), int(v["nonce"], 16)
                r, s, _ = recdsa.sign(K1, q, recdsa.challenge(h, K1.n), k)
                s = min(s, K1.n - s)
                if rder.encode(r, s) != bytes.fromhex(v["sig"]):
                    ctx.oracle_broken("libsecp256k1-py-custom-nonce", v["msg"])
                else:
                    ctx.oracle_ok("libsecp256k1-py-custom-nonce")
        with open(os.path.join(VEC, "signmessage.json")) as f:
            for v in json.load(f)[:60]:
                q, prefix, comp = rbms.wif_decode(v["wif"])
                Q = K1.mul_nored(q, K1.G)
                raw = base64.b64decode(v["signature"])
                rf, r, s = raw[0], int.from_bytes(raw[1:33], "big"), int.from_bytes(raw[33:], "big")
                e = recdsa.challenge(rbms.message_hash(v["address"].encode()), K1.n)
                cands = {(j, par): P for j, par, P in recdsa.recover(K1, e, r, s, 1)}
                recid = (rf - 27) & 3
                ok = (prefix == 0x80 and rbms.p2pkh(Q, "mainnet", comp) == v["address"]
                      and rbms.wif(q, "mainnet", comp) == v["wif"]
                      and cands.get((recid >> 1, recid & 1)) == Q and rf == rbms.header(
                          "p2pkh-compressed" if comp else "p2pkh-uncompressed", recid))
                if not ok:
                    ctx.oracle_broken("bms-signmessage", v["address"])
                else:
                    ctx.oracle_ok("bms-signmessage")
        # BIP 173 P2WPKH example and the BIP 66 size bounds
        G = K1.G
        if rbms.p2wpkh(G, "mainnet") != "bc1qw508d6qejxtdg4y5r3zarvary0c5xw7kv8f3t4" or \
                rbms.p2wpkh(G, "testnet") != "tb1qw508d6qejxtdg4y5r3zarvary0c5xw7kxpjzsx":
            ctx.oracle_broken("bip173-p2wpkh", "example address of BIP 173")
        else:
            ctx.oracle_ok("bip173-p2wpkh", 2)
    except Exception as e:  # noqa: BLE001
        ctx.oracle_broken("selftest", repr(e))
    ctx.case("selftest", "selftest", sample={"vectors": dict(ctx.selftest)})


# ------------------------------------------------------------------- toy curves
def _digest_table(hf, nlen: int, salt: bytes):
    """e -> digest for every e in 0..2^nlen-1 (e is the reference's bits2int of the digest)."""
    want = 1 << nlen
    table: dict[int, bytes] = {}
    i = 0
    while len(table) < want and i < 200000:
        h = hf()
        h.update(salt + i.to_bytes(4, "big"))
        d = h.digest()
        table.setdefault(recdsa.bits2int(d, nlen), d)
        i += 1
    return table


def _judge_sign(ctx: Ctx, o, ref, n: int, lower_s: bool, case: dict, where: str):
    """Compare one signing outcome with the reference outcome.

    ref is ('ok', r, s) with s as SEC 1 computes it, or ('fail', reason).  Returns the
    library's Sig when it is the expected one."""
    ctx.mon("sign-vs-reference")
    if ref[0] == "fail":
        if o[0] == "ok":
            ctx.violation(f"sign-answered-where-sec1-fails:{ref[1]}", f"{where}: a signature came back although {ref[1]}: {o[1]!r}", case)
        elif type(o[1]).__name__ != "BTClibRuntimeError":
            ctx.violation(f"sign-refusal-wrong-exception:{_exc_tag(o[1])}", f"{where}: {ref[1]} refused with {o[1]!r}", case)
        return None
    _, r, s = ref
    want_s = n - s if (lower_s and s > n // 2) else s
    if o[0] == "raise":
        ctx.violation(f"sign-refused-valid:{_exc_tag(o[1])}", f"{where}: raised {o[1]!r}, reference signature is ({r}, {want_s})", case)
        return None
    sig = o[1][0] if isinstance(o[1], tuple) else o[1]
    if lower_s and sig.s > n // 2:
        ctx.violation("sign-high-s-when-low-s-asked", f"{where}: s = {sig.s} > n/2 with lower_s=True", {**case, "got": (sig.r, sig.s)})
        return None
    if (sig.r, sig.s) != (r, want_s):
        if sig.r == r and sig.s == n - want_s:
            tag = "sign-s-negated-unasked"
        elif sig.r != r:
            tag = "sign-differs-from-reference:r"
        else:
            tag = "sign-differs-from-reference:s"
        ctx.violation(tag, f"{where}: got ({sig.r}, {sig.s}), reference ({r}, {want_s})", {**case, "got": (sig.r, sig.s), "want": (r, want_s)})
        return None
    return sig


def _judge_verify(ctx: Ctx, o, exp: bool, n: int, r, s, case: dict, where: str):
    ctx.mon("verify-vs-reference")
    if o[0] == "raise":
        ctx.violation(f"verify-raised:{_exc_tag(o[1])}", f"{where}: verification raised {o[1]!r} instead of answering", case)
    elif o[1] is not exp:
        if exp:
            ctx.violation("verify-rejects-valid", f"{where}: answered {o[1]!r}, the SEC 1 equation holds", case)
        else:
            how = ("r==0" if r == 0 else "s==0" if s == 0 else "r-out-of-range" if not 0 < r < n
                   else "s-out-of-range" if not 0 < s < n else "equation-fails")
            ctx.violation(f"verify-accepts-invalid:{how}", f"{where}: answered {o[1]!r} for (r, s) = ({r}, {s})", case)


def _toy_candidates(ctx: Ctx, primes, nmax: int):
    from btclib.curves.curve import Curve

    cands = []
    for p in primes:
        for rc, G, n, h, N in rec.toy_curves(p):
            if 3 <= n <= nmax:
                cands.append((rc, G, n, h))
    ctx.rng.shuffle(cands)
    # one representative per (p, n, cofactor class, a class) first, smallest groups first
    seen, first, rest = set(), [], []
    for t in cands:
        rc, G, n, h = t
        key = (rc.p, n, min(h, 3), 0 if rc.a == 0 else 1 if rc.a == rc.p - 3 else 2)
        (rest if key in seen else first).append(t)
        seen.add(key)
    first.sort(key=lambda t: (t[2], t[0].p))
    for rc, G, n, h in first + rest:
        o = outcome(Curve, rc.p, rc.a, rc.b, G, n, h, False)
        if o[0] == "ok":
            yield o[1], rc, G, n, h
        else:
            ctx.stat("toy:curve-refused-by-constructor")


def shard_toy(ctx: Ctx) -> None:
    from btclib.ecc import dsa

    _selftest_mini(ctx)
    obs = _Obs(ctx)
    rng = ctx.rng
    done = 0
    for idx, (ec, rc, G, n, h) in enumerate(_toy_candidates(ctx, ctx.params["primes"], ctx.params["nmax"])):
        if ctx.out_of_time():
            ctx.notes.append(f"{ctx.shard}: budget reached after {done} curves")
            break
        _toy_curve(ctx, dsa, ec, rc, G, n, h, TOY_HASHES[idx % len(TOY_HASHES)])
        done += 1
    ctx.stat("toy:curves", done)
    obs.finish()


def _toy_curve(ctx: Ctx, dsa, ec, rc, G, n: int, h: int, main_hash: str) -> None:
    from btclib.exceptions import BTClibRuntimeError

    rng = ctx.rng
    p = rc.p
    nlen = n.bit_length()
    desc = {"p": p, "a": rc.a, "b": rc.b, "G": G, "n": n, "h": h}
    S = rc.subgroup(G)
    assert len(S) == n
    tables = {hn: _digest_table(hf_of(hn), nlen, bytes([rc.a % 256, rc.b % 256])) for hn in TOY_HASHES}
    if any(len(t) != 1 << nlen for t in tables.values()):
        ctx.inconclusive_(f"toy digest table incomplete for n={n}")
        return
    hf = hf_of(main_hash)
    tab = tables[main_hash]
    complete = True
    n_sign = n_flip = n_xk = n_r0 = n_s0 = n_rec = n_recall = n_ver = 0

    def one(hname, hfx, d, e, q, k, Q, check_all: bool):
        nonlocal n_sign, n_flip, n_xk, n_r0, n_s0, n_rec, n_recall, n_ver
        try:
            r, s, R = recdsa.sign(rc, q, e, k)
            ref = ("ok", r, s)
            if not recdsa.verify(rc, Q, e, r, s) or not recdsa.verify(rc, Q, e, r, n - s):
                ctx.oracle_broken("ref.ecdsa sign/verify disagree", str(desc))
                return
        except recdsa.SignFailure as f:
            ref = ("fail", f.reason)
            R = None
        for low in (False, True):
            case = {**desc, "hash": hname, "digest": d, "e": e, "q": q, "k": k, "lower_s": low}
            o = outcome(dsa.sign_recoverable_, d, q, k, low, ec, hfx)
            sig = _judge_sign(ctx, o, ref, n, low, case, "sign_recoverable_")
            n_sign += 1
            if ref[0] == "fail":
                if ref[1] == "r == 0":
                    n_r0 += 1
                else:
                    n_s0 += 1
                continue
            if low and ref[2] > n // 2:
                n_flip += 1
            if R[0] >= n:
                n_xk += 1
            if sig is None:
                continue
            key_id = o[1][1]
            # the key id must lead back to the signer's key
            ctx.mon("recover-vs-signer-key")
            o2 = outcome(dsa.recover_pub_key_, key_id, d, sig, hfx)
            n_rec += 1
            if o2[0] == "raise":
                ctx.violation(f"recover-refused-own-key-id:{_exc_tag(o2[1])}", f"recover_pub_key_({key_id}) raised {o2[1]!r}",
                              {**case, "key_id": key_id, "sig": (sig.r, sig.s)})
            elif tuple(o2[1]) != Q:
                flipped = low and ref[2] > n // 2
                ctx.violation("recover-wrong-key:after-low-s-flip" if flipped else
                              "recover-wrong-key:x_K>=n" if R[0] >= n else "recover-wrong-key",
                              f"key id {key_id} recovers {o2[1]!r}, signer's key is {Q}",
                              {**case, "key_id": key_id, "sig": (sig.r, sig.s), "K": R})
            want_id = (2 * (R[0] // n) + (R[1] & 1)) ^ (1 if (low and ref[2] > n // 2) else 0)
            if key_id != want_id:
                ctx.stat("toy:key-id-not-the-conventional-numbering")
            # the produced signature verifies
            o3 = outcome(dsa.verify_, d, Q, sig, hfx)
            n_ver += 1
            _judge_verify(ctx, o3, True, n, sig.r, sig.s, {**case, "sig": (sig.r, sig.s)}, "verify_ of a produced signature")
            if check_all:
                o4 = outcome(dsa.sign_, d, q, k, low, ec, hfx, grind=False)
                _judge_sign(ctx, o4, ref, n, low, case, "sign_")
                o5 = outcome(dsa.recover_pub_keys_, d, sig, hfx)
                n_recall += 1
                if o5[0] == "raise":
                    ctx.violation(f"recover-all-raised:{_exc_tag(o5[1])}", f"recover_pub_keys_ raised {o5[1]!r}", case)
                else:
                    got = [tuple(P) for P in o5[1]]
                    if Q not in got:
                        ctx.violation("recover-all-misses-signer-key", f"recover_pub_keys_ = {got}, signer's key {Q}",
                                      {**case, "sig": (sig.r, sig.s)})
                    refk = {c[2] for c in recdsa.recover(rc, e, sig.r, sig.s, h)}
                    if set(got) != refk:
                        ctx.stat("toy:recover-all-differs-from-sec1-candidate-set")

    # --- every (q, e < n, k) under the main hash
    for q in range(1, n):
        if ctx.out_of_time():
            complete = False
            break
        Q = S[q]
        for e in range(n):
            d = tab[e]
            for k in range(1, n):
                one(main_hash, hf, d, e, q, k, Q, (q + e + k) % 8 == 0)
    # --- the other digests (longer and shorter than the order), and challenges at or above n
    for hname in TOY_HASHES:
        hfx = hf_of(hname)
        cnt = 0
        for e in range(1 << nlen):
            if hname == main_hash and e < n:
                continue
            q, k = rng.randrange(1, n), rng.randrange(1, n)
            one(hname, hfx, tables[hname][e], e, q, k, S[q], True)
            cnt += 1
            if e >= n:
                ctx.bulk("toy:e>=n", 1, 0)
        ctx.bulk(f"toy:hash:{hname}", cnt + (n_sign // 2 if hname == main_hash else 0), 0)
    ctx.bulk("toy:sign", n_sign)
    for name, v in (("toy:sign:low-s-flip", n_flip), ("toy:sign:x_K>=n", n_xk), ("toy:sign:refused:r==0", n_r0),
                    ("toy:sign:refused:s==0", n_s0), ("toy:recover", n_rec), ("toy:recover-all", n_recall)):
        if v:
            ctx.bulk(name, v, 0)
    if h > 1:
        ctx.bulk("toy:sign:cofactor>1", n_sign, 0)
    if complete:
        ctx.exhaustive.append(f"toy ECDSA: every (key, challenge, nonce) x lower_s on the curves counted in stats['toy:cubes-complete']")
        ctx.stat("toy:cubes-complete")
    ctx.sample("toy:sign", {**desc, "hash": main_hash, "triples": n_sign // 2, "complete": complete})

    # --- RFC 6979 on the toy curve: every key x every digest value, all four digests
    for hname in TOY_HASHES:
        hfx = hf_of(hname)
        keys = range(1, n) if n <= 31 else sorted({1, 2, n - 1, *(rng.randrange(1, n) for _ in range(12))})
        for q in keys:
            if ctx.out_of_time():
                break
            for e in (range(1 << nlen) if n <= 31 else rng.sample(range(1 << nlen), 12)):
                d = tables[hname][e]
                first_in_range = None
                expect = None
                retried = False
                for i, k in enumerate(r69.candidates(q, n, d, hfx)):
                    if i >= 400:  # no nonce of this group gives a signature at all
                        expect = first_in_range
                        break
                    if not 1 <= k <= n - 1:
                        retried = True
                        continue
                    try:
                        r, s, _ = recdsa.sign(rc, q, e, k)
                    except recdsa.SignFailure as f:
                        if first_in_range is None:
                            first_in_range = ("fail", f.reason)
                        continue
                    if first_in_range is None:
                        first_in_range = ("ok", r, s)
                    expect = ("ok", r, s)
                    break
                if retried:
                    ctx.bulk("toy:rfc6979:candidate-out-of-range", 1, 0)
                for low in (False, True):
                    case = {**desc, "hash": hname, "digest": d, "q": q, "lower_s": low}
                    for fn, call in (("sign_", lambda: dsa.sign_(d, q, None, low, ec, hfx, grind=False)),
                                     ("sign_recoverable_", lambda: dsa.sign_recoverable_(d, q, None, low, ec, hfx)),
                                     ("sign_(grind)", lambda: dsa.sign_(d, q, None, low, ec, hfx))):
                        o = outcome(call)
                        if o[0] == "raise" and first_in_range[0] == "fail" and isinstance(o[1], BTClibRuntimeError):
                            ctx.stat(f"rfc6979:first-candidate-unsuitable-refused:{first_in_range[1]}")
                            continue
                        _judge_sign(ctx, o, expect, n, low, case, f"{fn} with the RFC 6979 nonce")
                    ctx.bulk("toy:rfc6979", 3)

    # --- verification: every (r, s) in -1..n+1 squared
    if n <= 13:
        keys = list(range(1, n))
    else:
        keys = sorted({1, n - 1, *(rng.randrange(1, n) for _ in range(3 if n > 31 else 5))})
    es = sorted({0, 1, n - 1, rng.randrange(n), *( [n] if n < (1 << nlen) else [] )})
    n_v = n_valid = n_oor = 0
    for q in keys:
        Q = S[q]
        for e in es:
            if ctx.out_of_time():
                break
            hname = TOY_HASHES[(q + e) % len(TOY_HASHES)]
            hfx, d = hf_of(hname), tables[hname][e]
            for r in range(-1, n + 2):
                for s in range(-1, n + 2):
                    exp = recdsa.verify(rc, Q, e, r, s)
                    o = outcome(dsa.verify_, d, Q, dsa.Sig(r, s, ec, check_validity=False), hfx)
                    _judge_verify(ctx, o, exp, n, r, s, {**desc, "hash": hname, "digest": d, "e": e, "Q": Q, "r": r, "s": s}, "verify_")
                    n_v += 1
                    n_valid += exp
                    n_oor += not (0 < r < n and 0 < s < n)
    ctx.bulk("toy:verify", n_v)
    if n_valid:
        ctx.bulk("toy:verify:valid", n_valid, 0)
    if n_oor:
        ctx.bulk("toy:verify:r-or-s-out-of-range", n_oor, 0)
    ctx.sample("toy:verify", {**desc, "keys": len(keys), "challenges": es, "pairs": (n + 3) ** 2})

    # --- two signatures sharing a nonce give the key and the nonce back
    n_c = 0
    for _ in range(min(4 * n, 120)):
        q, k = rng.randrange(1, n), rng.randrange(1, n)
        e1, e2 = rng.sample(range(n), 2) if n > 2 else (0, 1)
        try:
            r1, s1, _ = recdsa.sign(rc, q, e1, k)
            r2, s2, _ = recdsa.sign(rc, q, e2, k)
        except recdsa.SignFailure:
            continue
        if s1 == s2:
            continue
        hname = TOY_HASHES[n_c % len(TOY_HASHES)]
        o = outcome(dsa.crack_prv_key_var_, tables[hname][e1], dsa.Sig(r1, s1, ec), tables[hname][e2], dsa.Sig(r2, s2, ec), hf_of(hname))
        if o[0] == "raise" or tuple(o[1]) != (q, k):
            ctx.violation("crack-wrong-key-or-nonce", f"crack_prv_key_var_ -> {o[1]!r}, signed with q={q}, k={k}",
                          {**desc, "hash": hname, "e1": e1, "e2": e2, "sig1": (r1, s1), "sig2": (r2, s2), "q": q, "k": k})
        n_c += 1
    if n_c:
        ctx.bulk("toy:crack", n_c)


# --- MORE ---
