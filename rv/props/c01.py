"""C01 - curve and field arithmetic compute exactly the group law.

Reference-model monitor: every product the library returns is compared with
``rv.ref.ec`` (affine law, brute-force groups on toy curves, discrete-log
bookkeeping for sums) and, for m*G on the curves OpenSSL knows, with OpenSSL.
"""

from __future__ import annotations

import math

from ..ctx import Ctx, is_lib_exc, outcome
from ..hooks import ArmRecorder, Reach, backend_available, set_backend
from ..ref import ec as rec

PROPERTY = "C01"
RULE = (
    "toy curves: every (a,b) with non-zero discriminant, every prime-order subgroup the constructor admits, "
    "every subgroup point x every scalar in -n..3n (plus 64-bit congruent values) enumerated exhaustively; "
    "catalogued curves: scalar classes x point classes, class-stratified then random; number theory: every "
    "modulus/operand in the stated ranges plus stratified large primes. A case is non-trivial when the "
    "reference result is computed independently and compared (distinct = distinct (curve, function, operands))."
)
ASSUMPTIONS = [
    "rv.ref.ec (affine double-and-add, brute-force toy groups) is the specification of the group law",
    "OpenSSL (cryptography) is a second, independent oracle for m*G on nine curves",
    "Base-2 Fermat pseudoprimes as p or n are out of scope (documented by the library)",
]

TOY_PRIMES_Q = [3, 5, 7, 11, 13, 17, 19, 23, 29, 31, 37]
TOY_PRIMES_T = TOY_PRIMES_Q + [41, 43, 47, 53, 59, 61, 67, 71, 73, 79, 83, 89, 97, 101]

MECH_FUNCS = [
    "btclib.curves.curve_group:_mult_fixed_base",
    "btclib.curves.curve_group:_mult_regular_window",
    "btclib.curves.curve_group:_mult",
    "btclib.curves.curve_group:_multi_mult_w_NAF_var",
    "btclib.curves.curve_group:_multi_mult_bos_coster_var",
    "btclib.curves.curve_group:signed_odd_digits",
    "btclib.curves.curve_group:CurveGroup.add_jac",
    "btclib.curves.curve_group:CurveGroup.add_jac_aff",
    "btclib.curves.curve_group:CurveGroup.double_jac",
    "btclib.curves.curve_group_2:_mult_endomorphism_secp256k1",
    "btclib.curves.curve_group_2:_double_mult_endomorphism_secp256k1_var",
    "btclib.curves.curve_group_2:_double_mult_w_NAF_var",
    "btclib.curves.curve:_libsecp256k1_multi_mult",
    "btclib.number_theory:tonelli_var",
    "btclib.number_theory:mod_sqrt_var",
    "btclib.number_theory:mod_inv",
    "btclib.number_theory:mod_inv_batch",
]


def plan(tier: str, seed: int) -> list[dict]:
    q = tier == "quick"
    specs = []
    for p in TOY_PRIMES_Q if q else TOY_PRIMES_T:
        specs.append({"name": f"toy-p{p}", "fn": "shard_toy", "p": p,
                      "_budget_s": 70 if q else 600, "_timeout_s": 400 if q else 2400})
    specs.append({"name": "construct", "fn": "shard_construct", "pmax": 23 if q else 43,
                  "_budget_s": 60 if q else 400, "_timeout_s": 400 if q else 2400})
    names = _curve_names()
    groups = 7 if q else 14
    for i in range(groups):
        specs.append({"name": f"big-{i}", "fn": "shard_big", "curves": names[i::groups],
                      "rounds": 3 if q else 12, "_budget_s": 75 if q else 700, "_timeout_s": 500 if q else 2400})
    specs.append({"name": "nt-exhaustive", "fn": "shard_nt_exh", "mmax": 300 if q else 2000,
                  "pmax": 600 if q else 5000, "_budget_s": 70 if q else 600, "_timeout_s": 400 if q else 2400})
    for i in range(2 if q else 6):
        specs.append({"name": f"nt-large-{i}", "fn": "shard_nt_large", "n": 60 if q else 400, "part": i,
                      "_budget_s": 60 if q else 500, "_timeout_s": 400 if q else 2400})
    specs.append({"name": "sec-codec", "fn": "shard_sec", "n": 160 if q else 1200,
                  "_budget_s": 60 if q else 500, "_timeout_s": 400 if q else 2400})
    return specs


def _curve_names():
    return ["secp256k1", "secp112r1", "secp112r2", "secp128r1", "secp128r2", "secp160k1", "secp160r1",
            "secp160r2", "secp192k1", "secp192r1", "secp224k1", "secp224r1", "secp256r1", "secp384r1",
            "secp521r1", "nistp192", "nistp224", "nistp256", "nistp384", "nistp521", "bpp160r1", "bpp192r1",
            "bpp224r1", "bpp256r1", "bpp320r1", "bpp384r1", "bpp512r1"] + list(CUSTOM_CURVES)


# Caller-defined curves that share the field (and the a = 0) of a curve the library has special arithmetic for: the j = 0
# curves y^2 = x^3 + b over secp256k1's prime. Their group orders are the sextic twists' (computed once from the CM norm
# equation t^2 + 3 v^2 = 4p and confirmed by multiplying points); G is cofactor * (first point from x = 1 upwards).
_P_K1 = 2**256 - 2**32 - 977
CUSTOM_CURVES = {
    # name: (b, group order, cofactor)
    "custom:secp256k1-field:b=2": (2, 0x1000000000000000000000000000000014551231950B75FC4402DA1712FC9B71F, 3**2 * 13**2 * 3319 * 22639),
    "custom:secp256k1-field:b=3": (3, 0xFFFFFFFFFFFFFFFFFFFFFFFFFFFFFFFF4C43534BA6C5E3A57918113A87C50283, 109903 * 12977017 * 383229727),
    "custom:secp256k1-field:b=7:generator-2G": (7, 0xFFFFFFFFFFFFFFFFFFFFFFFFFFFFFFFEBAAEDCE6AF48A03BBFD25E8CD0364141, 1),
}


def _custom_curve(name: str):
    from btclib.curves.curve import Curve

    b, order, h = CUSTOM_CURVES[name]
    p = _P_K1
    q = order // h
    assert order % h == 0 and rec.is_prime(q)
    x = 1
    while True:
        y2 = (x**3 + b) % p
        y = pow(y2, (p + 1) // 4, p)
        if y * y % p == y2:
            G = rec.RefCurve(p, 0, b, (x, y), order, name).mul_nored(h * (2 if h == 1 else 1), (x, y))
            if G is not None:
                break
        x += 1
    assert rec.RefCurve(p, 0, b, G, q, name).mul_nored(q, G) is None
    return Curve(p, 0, b, G, q, h, True)


def finalize(m: dict, tier: str) -> list[str]:
    out = []
    r, a, c = m["reached"], m["arms"], m["classes"]
    need = ["_mult_fixed_base", "_mult_regular_window", "_multi_mult_w_NAF_var", "_multi_mult_bos_coster_var",
            "CurveGroup.add_jac", "_mult_endomorphism_secp256k1", "tonelli_var", "mod_sqrt_var"]
    for f in need:
        if not r.get(f):
            out.append(f"mechanism {f} never entered")
    if backend_available():
        if not a.get("bindings"):
            out.append("bindings arm never served a secp256k1 call")
    else:
        out.append("btclib_secp256k1 bindings not installed: bindings arm unobserved")
    for k in ("toy:mult", "toy:double_mult", "toy:multi_mult:boscoster", "toy:multi_mult:wnaf", "toy:add_jac",
              "big:mult", "big:multi_mult", "big:caller-defined-curve-over-a-special-cased-field", "nt:mod_inv", "nt:mod_sqrt", "nt:p%8==5", "nt:p%8==1",
              "construct:malformed", "sec:roundtrip", "sec:malformed", "toy:add_jac:V==0"):
        if not c.get(k):
            out.append(f"input class {k} never evaluated")
    if not m.get("stats", {}).get("construct:anomalous-n-equals-p"):
        out.append("no anomalous curve (n == p) was handed to the constructor")
    return out


# ----------------------------------------------------------------- helpers
def conv(P):
    """btclib's in-band infinity (y == 0) -> None."""
    return None if P[1] == 0 else (P[0], P[1])


def unconv(P, ctx: Ctx, p: int):
    """None -> one of several spellings of infinity (x arbitrary, y == 0)."""
    if P is not None:
        return P
    return (ctx.rng.choice([5, 0, 7, 1]) % max(p, 1), 0) if ctx.rng.random() < 0.5 else (5, 0)


def _install_reach(ctx: Ctx):
    reach = Reach()
    for d in MECH_FUNCS:
        reach.watch_path(d)
    reach.start()
    return reach


# ------------------------------------------------------------------- toy
def shard_toy(ctx: Ctx) -> None:
    from btclib.alias import INFJ
    from btclib.curves import curve as C
    from btclib.curves.curve import Curve, PreparedPoint, double_mult_var, mult, multi_mult_var
    from btclib.curves.sec_point import bytes_from_point, point_from_octets
    from btclib.exceptions import BTClibValueError

    reach = _install_reach(ctx)
    p = ctx.params["p"]
    rng = ctx.rng
    quick = ctx.tier == "quick"
    curves = list(rec.toy_curves(p))
    # stratify: a == 0, a == p-3 and general a all stay in; large p are subsampled
    cap = 400 if quick else 2500
    if len(curves) > cap:
        special = [t for t in curves if t[0].a in (0, p - 3)]
        rest = [t for t in curves if t[0].a not in (0, p - 3)]
        rng.shuffle(special)
        rng.shuffle(rest)
        curves = special[: cap // 3] + rest[: cap - cap // 3]
    else:
        ctx.exhaustive.append(f"toy curves over F_{p}: every (a,b), every prime-order subgroup")
    term_counts = [2, 3, 5, 55, 56, 57, 70] if quick else [2, 3, 4, 7, 20, 40, 54, 55, 56, 57, 58, 64, 70, 90]
    accepted = 0
    for rc, G, n, h, N in curves:
        if ctx.out_of_time():
            ctx.notes.append(f"toy-p{p}: budget reached after {accepted} accepted curves")
            break
        o = outcome(Curve, p, rc.a, rc.b, G, n, h, False)
        if o[0] == "raise":
            if not is_lib_exc(o[1]):
                ctx.violation("curve-constructor-foreign-exception", f"Curve() raised {o[1]!r}",
                              {"p": p, "a": rc.a, "b": rc.b, "G": G, "n": n, "h": h})
            ctx.stat("toy:valid-curve-refused")
            # one-directional in general (the SEC 1 cofactor formula presumes n > 4*sqrt(p)); demanded only
            # where every documented rule admits the curve: prime group order, cofactor 1, n != p, and n
            # large enough that floor((p+1+floor(2*sqrt(p)))/n) == 1
            if h == 1 and n != p and 2 * n > p + 1 + math.isqrt(4 * p) and is_lib_exc(o[1]):
                ctx.violation("valid-prime-order-curve-refused",
                              f"Curve({p},{rc.a},{rc.b},{G},{n},1) has prime order {n} within the Hasse interval "
                              f"and was refused: {o[1]}", {"p": p, "a": rc.a, "b": rc.b, "G": G, "n": n, "h": h})
            continue
        ec = o[1]
        accepted += 1
        ctx.stat(f"toy:accepted:cofactor{min(h, 3)}")
        S = rc.subgroup(G)  # S[i] == i*G, S[0] is None
        assert len(S) == n, (len(S), n)
        idx = {P: i for i, P in enumerate(S)}
        desc = {"p": p, "a": rc.a, "b": rc.b, "G": G, "n": n, "h": h}
        inf_spellings = [(5, 0), (0, 0), (7 % p, 0), (G[0], 0)]

        # --- mult: every subgroup point x every scalar -n..3n, plus 64-bit congruent values
        bad = 0
        for i, P in enumerate(S):
            Pb = P if P is not None else inf_spellings[i % 4]
            scal = list(range(-n, 3 * n + 1)) + [m + n * (1 << 64) for m in (0, 1, n - 1)] + [-(n << 70) + 1]
            for m in scal:
                o = outcome(mult, m, Pb, ec)
                if o[0] == "raise":
                    bad += 1
                    ctx.violation("mult-raised", f"mult({m}, {Pb}) raised {o[1]!r}", {**desc, "m": m, "P": Pb})
                    continue
                got = conv(o[1])
                if got != S[m * i % n]:
                    bad += 1
                    ctx.violation("mult-wrong-point", f"mult({m},{Pb}) = {o[1]} but group law gives {S[m * i % n]}",
                                  {**desc, "m": m, "P": Pb, "got": o[1], "want": S[m * i % n]})
            ctx.bulk("toy:mult", len(scal))
            if P is None:
                ctx.bulk("toy:mult:infinity", len(scal), 0)
        # mult with Q omitted (the generator)
        for m in range(-2, n + 3):
            o = outcome(mult, m, None, ec)
            if o[0] == "raise" or conv(o[1]) != S[m % n]:
                ctx.violation("mult-wrong-point", f"mult({m}) on generator gives {o[1]}", {**desc, "m": m, "got": o[1]})
        ctx.bulk("toy:mult:generator", n + 5)

        # --- PreparedPoint.mult
        for i, P in enumerate(S):
            if P is None:
                o = outcome(PreparedPoint, (5, 0), ec)
                if o[0] == "ok":
                    ctx.violation("prepared-infinity-answered", "PreparedPoint accepted infinity", desc)
                continue
            pp = PreparedPoint(P, ec)
            for m in range(-1, n + 2):
                o = outcome(pp.mult, m)
                if o[0] == "raise" or conv(o[1]) != S[m * i % n]:
                    ctx.violation("prepared-mult-wrong-point", f"PreparedPoint({P}).mult({m}) = {o[1]}",
                                  {**desc, "m": m, "P": P, "got": o[1], "want": S[m * i % n]})
            ctx.bulk("toy:prepared_mult", n + 3)

        # --- off-curve points must be refused, not answered
        offs = 0
        for x in range(p):
            for y in range(1, p):
                if not rc.on_curve((x, y)):
                    offs += 1
                    if offs > 40:
                        break
                    # every scalar class meets the bad point: a special case for a zero scalar (or for the order, a multiple
                    # of it, a negative one) must not answer before the point has been looked at
                    for m in (3, 0, 1, n, n - 1, 2 * n, -n, -1, n + 1):
                        o = outcome(mult, m, (x, y), ec)
                        if o[0] == "ok" or not isinstance(o[1], BTClibValueError):
                            ctx.violation("offcurve-answered" + (":zero-scalar" if m % n == 0 else ""),
                                          f"mult({m}, {(x, y)}) -> {o[1]!r} for a point off the curve", {**desc, "P": (x, y), "m": m})
                    for u, v in ((1, 2), (0, 2), (1, 0), (0, 0), (n, n), (2, n)):
                        for H_, Q_ in ((G, (x, y)), ((x, y), G)):
                            o = outcome(double_mult_var, u, H_, v, Q_, ec)
                            if o[0] == "ok" or not isinstance(o[1], BTClibValueError):
                                ctx.violation("offcurve-answered" + (":zero-scalar" if (u % n == 0 or v % n == 0) else ""),
                                              f"double_mult_var({u},{H_},{v},{Q_}) with an off-curve point -> {o[1]!r}", {**desc, "P": (x, y), "u": u, "v": v})
                    for scal in ([1, 2, 3], [1, 0, 3], [0, 0, 0], [n, n, 1]):
                        o = outcome(multi_mult_var, scal, [G, (x, y), G], ec)
                        if o[0] == "ok" or not isinstance(o[1], BTClibValueError):
                            ctx.violation("offcurve-answered" + (":zero-scalar" if scal[1] % n == 0 else ""),
                                          f"multi_mult_var({scal}) with off-curve {(x, y)} -> {o[1]!r}", {**desc, "P": (x, y), "scalars": scal})
                    o = outcome(PreparedPoint, (x, y), ec)
                    if o[0] == "ok" or not isinstance(o[1], BTClibValueError):
                        ctx.violation("offcurve-answered", f"PreparedPoint({(x, y)}) accepted a point off the curve", {**desc, "P": (x, y)})
                    ctx.bulk("toy:offcurve", 9 + 12 + 4 + 1)
            if offs > 40:
                break

        # --- double_mult_var: all pairs of points and scalars on small groups, classes on the others
        if n <= 11:
            pairs = [(i, j) for i in range(n) for j in range(n)]
            scal2 = [(u, v) for u in range(n) for v in range(n)]
        else:
            pairs = [(rng.randrange(n), rng.randrange(n)) for _ in range(24)] + \
                    [(i, i) for i in (1, 2)] + [(i, n - i) for i in (1, 3)] + [(0, 1), (1, 0), (0, 0)]
            cls = [0, 1, 2, n - 1, n, n + 1, -1, 2 * n + 3]
            scal2 = [(u, v) for u in cls for v in cls] + [(rng.randrange(-n, 2 * n), rng.randrange(-n, 2 * n)) for _ in range(12)]
        for i, j in pairs:
            H = S[i] if S[i] is not None else inf_spellings[(i + j) % 4]
            Q = S[j] if S[j] is not None else inf_spellings[j % 4]
            extra = []
            if i and j:  # u*H == -v*Q : cancelling sums
                u = rng.randrange(1, n)
                v = (-u * i * pow(j, -1, n)) % n
                extra = [(u, v)]
            for u, v in scal2 + extra:
                o = outcome(double_mult_var, u, H, v, Q, ec)
                want = S[(u * i + v * j) % n]
                if o[0] == "raise" or conv(o[1]) != want:
                    ctx.violation("double-mult-wrong-point", f"double_mult_var({u},{H},{v},{Q}) = {o[1]!r}, group law {want}",
                                  {**desc, "u": u, "H": H, "v": v, "Q": Q, "got": o[1], "want": want})
            ctx.bulk("toy:double_mult", len(scal2) + len(extra))
            if extra:
                ctx.bulk("toy:double_mult:cancelling", 1, 0)

        # --- multi_mult_var on both sides of the Bos-Coster switch (counted in non-zero scalars)
        for t in term_counts:
            for variant in range(3 if quick else 6):
                ks = [rng.randrange(n) for _ in range(t)]
                us = [rng.randrange(-n, 2 * n) for _ in range(t)]
                if variant == 1:  # zero scalars and infinity terms sprinkled in
                    for z in rng.sample(range(t), max(1, t // 5)):
                        us[z] = rng.choice([0, n, -n])
                    ks[rng.randrange(t)] = 0
                if variant == 2:  # repeated points and a cancelling total
                    ks = [ks[0]] * (t // 2) + ks[t // 2:]
                    tot = sum(u * k for u, k in zip(us[:-1], ks[:-1])) % n
                    if ks[-1] % n:
                        us[-1] = (-tot * pow(ks[-1], -1, n)) % n
                pts = [S[k] if S[k] is not None else inf_spellings[k % 4] for k in ks]
                nz = sum(1 for u in us if u % n)
                o = outcome(multi_mult_var, us, pts, ec)
                want = S[sum(u * k for u, k in zip(us, ks)) % n]
                side = "boscoster" if nz >= 56 else "wnaf"
                if o[0] == "raise" or conv(o[1]) != want:
                    ctx.violation(f"multi-mult-wrong-point:{side}",
                                  f"multi_mult_var with {t} terms ({nz} non-zero) = {o[1]!r}, group law {want}",
                                  {**desc, "scalars": us, "points": pts, "got": o[1], "want": want})
                ctx.case(f"toy:multi_mult:{side}", (p, rc.a, rc.b, n, tuple(us), tuple(ks)),
                         sample={**desc, "terms": t, "nonzero": nz})

        # --- low-level group operations: add_var / add_jac / add_jac_aff / double_jac with random Z
        pl = S if n <= 23 else [S[k] for k in sorted(set([0, 1, 2, n - 1, n - 2] + [rng.randrange(n) for _ in range(12)]))]
        for P in pl:
            for Q in pl:
                want = rc.add(P, Q)
                Pb, Qb = (P or (5, 0)), (Q or (5, 0))
                o = outcome(ec.add_var, Pb, Qb)
                if o[0] == "raise" or conv(o[1]) != want:
                    ctx.violation("add-var-wrong", f"add_var({Pb},{Qb}) = {o[1]!r}, want {want}", {**desc, "P": Pb, "Q": Qb})
                for _ in range(2):
                    PJ = _jac(P, p, rng, INFJ)
                    QJ = _jac(Q, p, rng, INFJ)
                    o = outcome(ec.add_jac, PJ, QJ)
                    got = conv(ec.aff_from_jac_var(o[1])) if o[0] == "ok" else "raise"
                    if got != want:
                        ctx.violation("add-jac-wrong", f"add_jac({PJ},{QJ}) = {o[1]!r} ~ {got}, want {want}",
                                      {**desc, "PJ": PJ, "QJ": QJ, "got": o[1], "want": want})
                    if P is not None and Q is not None and P[0] == Q[0]:
                        ctx.bulk("toy:add_jac:V==0", 1, 0)
                    o = outcome(ec.add_jac_aff, PJ, Qb)
                    got = conv(ec.aff_from_jac_var(o[1])) if o[0] == "ok" else "raise"
                    if got != want:
                        ctx.violation("add-jac-aff-wrong", f"add_jac_aff({PJ},{Qb}) = {o[1]!r} ~ {got}, want {want}",
                                      {**desc, "PJ": PJ, "Q": Qb, "got": o[1], "want": want})
                ctx.bulk("toy:add_jac", 5)
            PJ = _jac(P, p, rng, INFJ)
            o = outcome(ec.double_jac, PJ)
            got = conv(ec.aff_from_jac_var(o[1])) if o[0] == "ok" else "raise"
            if got != rc.add(P, P):
                ctx.violation("double-jac-wrong", f"double_jac({PJ}) ~ {got}, want {rc.add(P, P)}", {**desc, "PJ": PJ})
            ctx.bulk("toy:double_jac", 1)

        # --- SEC octets round trip for every subgroup point
        for P in S[1:]:
            for comp in (True, False):
                o = outcome(lambda: point_from_octets(bytes_from_point(P, ec, comp), ec))
                if o[0] == "raise" or tuple(o[1]) != P:
                    ctx.violation("sec-roundtrip", f"point {P} compressed={comp} came back as {o[1]!r}", {**desc, "P": P})
            ctx.bulk("toy:sec", 2)
    ctx.stat("toy:curves-accepted", accepted)
    ctx.sample("toy:curve", {"p": p, "curves_enumerated": len(curves), "accepted": accepted})
    reach.stop()
    reach.report(ctx)


def _jac(P, p, rng, INFJ):
    if P is None:
        return rng.choice([INFJ, (rng.randrange(p), rng.randrange(p), 0), (7 % p, 0, 0), (1, 1, 0)])
    z = rng.randrange(1, p)
    return (P[0] * z * z % p, P[1] * z * z * z % p, z)


# -------------------------------------------------------------- construction
def shard_construct(ctx: Ctx) -> None:
    from btclib.curves.curve import Curve
    from btclib.exceptions import BTClibValueError

    rng = ctx.rng
    primes = [p for p in TOY_PRIMES_T if p <= ctx.params["pmax"]]
    for p in primes:
        curves = list(rec.toy_curves(p))
        rng.shuffle(curves)
        used = 0
        for rc, G, n, h, N in curves:
            if ctx.out_of_time() or used >= (40 if ctx.tier == "quick" else 150):
                break
            if n == p:
                # SEC 1 3.1.1.2.1 step 8: an anomalous curve (#<G> = p) fails domain-parameter validation, whatever the
                # optional embedding-degree computation is set to
                for wc in (False, True):
                    o = outcome(Curve, p, rc.a, rc.b, G, n, h, wc)
                    if o[0] == "ok":
                        ctx.violation("malformed-curve-accepted:anomalous-n-equals-p",
                                      f"Curve({p},{rc.a},{rc.b},{G},{n},{h}, weakness_check={wc}) was accepted",
                                      {"args": (p, rc.a, rc.b, G, n, h), "weakness_check": wc})
                    elif not isinstance(o[1], BTClibValueError):
                        ctx.violation("malformed-curve-foreign-exception:anomalous-n-equals-p", f"{o[1]!r}", {"args": (p, rc.a, rc.b, G, n, h)})
                    ctx.case("construct:malformed", ("anomalous", p, rc.a, rc.b, G, wc))
                    ctx.stat("construct:anomalous-n-equals-p")
                continue
            if outcome(Curve, p, rc.a, rc.b, G, n, h, False)[0] != "ok":
                continue
            used += 1
            a, b = rc.a, rc.b
            pts = rc.all_points()
            off = next(((x, y) for x in range(p) for y in range(1, p) if not rc.on_curve((x, y))), None)
            variants: list[tuple[str, tuple]] = []
            # composite p that fails the library's own base-2 test
            for q in (3, 5, 7, 9, 15):
                pc = p * q
                if pow(2, pc - 1, pc) != 1:
                    variants.append(("composite-p", (pc, a, b, G, n, h)))
                    break
            variants += [
                ("even-p", (p + 1, a, b, G, n, h)),
                ("a>=p", (p, a + p, b, G, n, h)),
                ("b>=p", (p, a, b + p, G, n, h)),
                ("negative-a", (p, a - p, b, G, n, h)),
                ("negative-b", (p, a, b - p, G, n, h)),
                ("G-infinity", (p, a, b, (G[0], 0), n, h)),
                ("G-infinity", (p, a, b, (5, 0), n, h)),
                ("cofactor+1", (p, a, b, G, n, h + 1)),
                ("cofactor-1", (p, a, b, G, n, h - 1)),
                ("cofactor-0", (p, a, b, G, n, 0)),
                ("n-composite", (p, a, b, G, n * n, h)),
                ("n-composite", (p, a, b, G, 3 * n, h)),
                ("n-even", (p, a, b, G, n + 1, h)),
                ("G-y>=p", (p, a, b, (G[0], G[1] + p), n, h)),
                ("G-x>=p", (p, a, b, (G[0] + p, G[1]), n, h)),
            ]
            if off:
                variants.append(("G-offcurve", (p, a, b, off, n, h)))
            # zero discriminant with the same a: b^2 = -4a^3/27
            for bb in range(p):
                if (4 * a**3 + 27 * bb * bb) % p == 0:
                    variants.append(("zero-discriminant", (p, a, bb, G, n, h)))
                    break
            # n not the order of G: other primes (with the cofactor the formula then expects, so that
            # only the order test can refuse) and, with cofactor 1, primes outside the Hasse interval
            delta = math.isqrt(4 * p)
            for n2 in range(3, 4 * p):
                if n2 != n and rec.is_prime(n2) and rc.mul_nored(n2, G) is not None:
                    h2 = (1 + delta + p) // n2
                    variants.append(("n-not-order", (p, a, b, G, n2, h2)))
                    if h2 == 1 and not (p + 1 - delta <= n2 <= p + 1 + delta):
                        variants.append(("n-outside-hasse", (p, a, b, G, n2, 1)))
            # G of a different order than n (a generator of another subgroup, or of the whole group)
            # n*P a 2-torsion point (y == 0) is read by the library as its in-band infinity: own mechanism
            seen_kinds = set()
            for P in pts:
                if P[1] and rc.mul_nored(n, P) is not None:
                    kind = "G-order-2n-inband-infinity" if rc.mul_nored(n, P)[1] == 0 else "G-wrong-order"
                    if kind not in seen_kinds:
                        seen_kinds.add(kind)
                        variants.append((kind, (p, a, b, P, n, h)))
            for tag, args in variants:
                o = outcome(Curve, *args, False)
                key = ("construct", tag, args)
                if o[0] == "ok":
                    ctx.violation(f"malformed-curve-accepted:{tag}", f"Curve{args} was accepted ({tag})",
                                  {"variant": tag, "args": args, "base": (p, a, b, G, n, h)})
                elif not isinstance(o[1], BTClibValueError):
                    ctx.violation(f"malformed-curve-foreign-exception:{tag}", f"Curve{args} raised {o[1]!r}",
                                  {"variant": tag, "args": args})
                ctx.case("construct:malformed", key, sample={"variant": tag, "args": args})
                ctx.stat(f"construct:{tag}")
            # embedding degree below 100 with the weakness check on: judged against the reference's own count
            emb = next((i for i in range(1, 100) if pow(p, i, n) == 1), None)
            if emb is not None and n != p:
                o = outcome(Curve, p, a, b, G, n, h, True)
                if o[0] == "ok":
                    ctx.violation("weak-curve-accepted", f"embedding degree {emb} accepted with weakness_check=True",
                                  {"args": (p, a, b, G, n, h)})
                ctx.case("construct:weak", ("weak", p, a, b, n))


# ------------------------------------------------------------- big curves
def _scalar_classes(n: int, rng, k1: bool):
    cls = {
        "zero": 0, "one": 1, "two": 2, "n-1": n - 1, "n": n, "n+1": n + 1, "2n": 2 * n, "-1": -1, "-n": -n,
        "2^k-1": (1 << rng.randrange(2, n.bit_length())) - 1, "2^k+1": (1 << rng.randrange(2, n.bit_length())) + 1,
        "sparse": sum(1 << rng.randrange(n.bit_length()) for _ in range(3)),
        "zero-nibbles": int("".join(rng.choice("0000f1") for _ in range(n.bit_length() // 4)) or "0", 16),
        "beyond": rng.randrange(n, n << 64), "negative": -rng.randrange(1, n << 8),
        "half": n // 2 + rng.randrange(-3, 4), "uniform": rng.randrange(1, n), "small": rng.randrange(3, 1 << 16),
    }
    if k1:
        lam = 0x5363AD4CC05C30E0A5261C028812645A122E22EA20816678DF02967C1B23BD72
        cls.update({
            "glv:lambda": lam, "glv:k*lambda": rng.randrange(1, 1 << 120) * lam % n,
            "glv:m2==0": rng.randrange(1, 1 << 127), "glv:m1==0": (rng.randrange(1, 1 << 127) * lam) % n,
            "glv:near-n/2": n // 2 + rng.randrange(-(1 << 128), 1 << 128),
            "glv:neg-lambda": n - lam, "glv:2^128": (1 << 128) + rng.randrange(-2, 3),
        })
    return cls


def shard_big(ctx: Ctx) -> None:
    from btclib.curves.curve import CURVES, PreparedPoint, double_mult_var, mult, multi_mult_var

    reach = _install_reach(ctx)
    arms = ArmRecorder(ctx)
    arms.install()
    rng = ctx.rng
    quick = ctx.tier == "quick"
    ossl = _openssl_curves()
    for name in ctx.params["curves"]:
        ec = _custom_curve(name) if name in CUSTOM_CURVES else CURVES[name]
        rc = rec.RefCurve(ec.p, ec._a, ec._b, tuple(ec.G), ec.n, name)
        n = ec.n
        k1 = name == "secp256k1"
        if name in CUSTOM_CURVES:
            ctx.classes["big:caller-defined-curve-over-a-special-cased-field"] += 1
        # reference points with known discrete logs: pool[k] = k*G by the reference
        pool_n = (10 if quick else 24) if ec.p.bit_length() <= 256 else (5 if quick else 10)
        logs = [1, 2, n - 1] + [rng.randrange(3, n) for _ in range(pool_n - 3)]
        pool = {k: rc.mul(k, rc.G) for k in logs}
        pool[0] = None
        logs = [0] + logs
        for arm in ([True, False] if k1 and backend_available() else [None]):
            if arm is not None:
                set_backend(arm)
            armtag = {True: "bindings", False: "python", None: "python"}[arm]
            for rnd in range(ctx.params["rounds"]):
                if ctx.out_of_time():
                    break
                sc = _scalar_classes(n, rng, k1)
                # mult over scalar classes x point classes
                for cname, m in sc.items():
                    pk = [1, rng.choice(logs[1:]), 0] if quick else [1, 0] + rng.sample(logs[1:], 4)
                    for k in pk:
                        P = pool[k]
                        Pb = P if P is not None else (5, 0)
                        want = rc.mul(m * k % n, rc.G)
                        for fn, call in (("mult", lambda: mult(m, Pb, ec)),
                                         ("prepared", lambda: PreparedPoint(Pb, ec).mult(m)),
                                         ("mult-default-G", lambda: mult(m, None, ec) if k == 1 else None)):
                            if fn == "prepared" and P is None:
                                continue
                            if fn == "mult-default-G" and k != 1:
                                continue
                            o = outcome(call)
                            if o[0] == "raise" or conv(o[1]) != want:
                                ctx.violation(f"big-{fn}-wrong-point",
                                              f"{name} {fn}({hex(m)}, {k}*G) [{armtag}] = {o[1]!r}, group law {want}",
                                              {"curve": name, "m": m, "k": k, "arm": armtag, "class": cname})
                            ctx.case("big:mult", (name, fn, m, k, armtag),
                                     sample={"curve": name, "class": cname, "m": hex(m), "point": f"{k}*G"[:40]})
                            ctx.classes[f"scalar:{cname}"] += 1
                        # OpenSSL as second oracle for m*G
                        if k == 1 and name in ossl and 0 < m % n:
                            X = _openssl_mul(ossl[name], m % n)
                            o = outcome(mult, m, None, ec)
                            if o[0] == "raise" or tuple(o[1]) != X:
                                ctx.violation("big-mult-vs-openssl", f"{name} mult({hex(m)}) differs from OpenSSL",
                                              {"curve": name, "m": m, "arm": armtag})
                            if want != X:
                                ctx.oracle_broken("ref.ec vs OpenSSL", name)
                            ctx.mon("openssl-oracle")
                # double_mult_var
                names = list(sc)
                for _ in range(12 if quick else 40):
                    cu, cv = rng.choice(names), rng.choice(names)
                    u, v = sc[cu], sc[cv]
                    i, j = rng.choice(logs), rng.choice(logs)
                    kind = rng.randrange(6)
                    if kind == 0:
                        j = i
                    elif kind == 1 and i:
                        j = (n - i) % n if (n - i) % n in pool else i
                    elif kind == 2 and i and j:
                        v = (-u * i * pow(j, -1, n)) % n  # cancelling
                    H = pool[i] or (5, 0)
                    Q = pool[j] or (5, 0)
                    want = rc.mul((u * i + v * j) % n, rc.G)
                    o = outcome(double_mult_var, u, H, v, Q, ec)
                    if o[0] == "raise" or conv(o[1]) != want:
                        ctx.violation("big-double-mult-wrong-point",
                                      f"{name} double_mult_var [{armtag}] u={hex(u)} H={i}G v={hex(v)} Q={j}G = {o[1]!r}",
                                      {"curve": name, "u": u, "i": i, "v": v, "j": j, "arm": armtag})
                    ctx.case("big:double_mult", (name, u, i, v, j, armtag))
                # multi_mult_var around the switch
                tcs = [2, 3, 55, 56, 57, 70] if quick else [2, 3, 4, 8, 17, 33, 54, 55, 56, 57, 58, 70, 100]
                if ec.p.bit_length() > 256 and quick:
                    tcs = [2, 56, 57]
                for t in tcs:
                    ks = [rng.choice(logs) for _ in range(t)]
                    us = [sc[rng.choice(names)] if rng.random() < 0.5 else rng.randrange(1, n) for _ in range(t)]
                    variant = rng.randrange(5)
                    if variant == 1:
                        us[rng.randrange(t)] = 0
                    if variant == 4:
                        # every point finite, every raw scalar truthy, and one or two of them zero in the group: the
                        # order, a multiple of it, or a byte spelling of zero -- what a dispatch gate reading the raw
                        # scalars instead of the reduced ones lets through
                        ks = [k or 1 for k in ks]
                        us = [u % n or 1 for u in us]
                        for _ in range(rng.choice([1, 1, 2])):
                            us[rng.randrange(t)] = rng.choice([n, 2 * n, -n, 7 * n, -3 * n] + ([bytes(ec.n_size), "00" * ec.n_size] if k1 else []))
                        ctx.stat("multi_mult:truthy-zero-scalar")
                    if variant == 2 and ks[-1]:
                        tot = sum(u * k for u, k in zip(us[:-1], ks[:-1])) % n
                        us[-1] = (-tot * pow(ks[-1], -1, n)) % n
                    if variant == 3:
                        ks = [k or 1 for k in ks]
                        us = [u % n or 1 for u in us]  # all terms live: what the bindings serve
                    pts = [pool[k] or (5, 0) for k in ks]
                    ui = [u if isinstance(u, int) else int.from_bytes(bytes.fromhex(u) if isinstance(u, str) else u, "big") for u in us]
                    want = rc.mul(sum(u * k for u, k in zip(ui, ks)) % n, rc.G)
                    o = outcome(multi_mult_var, us, pts, ec)
                    nz = sum(1 for u in ui if u % n)
                    if o[0] == "raise" or conv(o[1]) != want:
                        ctx.violation(f"big-multi-mult-wrong-point:{'boscoster' if nz >= 56 else 'wnaf'}",
                                      f"{name} multi_mult_var {t} terms [{armtag}] = {o[1]!r}",
                                      {"curve": name, "scalars": [repr(u) for u in us], "logs": ks, "arm": armtag})
                    ctx.case("big:multi_mult", (name, tuple(us), tuple(ks), armtag),
                             sample={"curve": name, "terms": t, "nonzero": nz, "arm": armtag})
                # off-curve refusal
                x = rng.randrange(ec.p)
                y = rng.randrange(1, ec.p)
                if not rc.on_curve((x, y)):
                    zs = rng.choice([0, n, 2 * n, -n])
                    for call in (lambda: mult(3, (x, y), ec), lambda: double_mult_var(1, tuple(ec.G), 1, (x, y), ec),
                                 lambda: multi_mult_var([1, 1], [tuple(ec.G), (x, y)], ec),
                                 lambda: mult(zs, (x, y), ec), lambda: double_mult_var(1, tuple(ec.G), zs, (x, y), ec),
                                 lambda: multi_mult_var([1, zs], [tuple(ec.G), (x, y)], ec), lambda: PreparedPoint((x, y), ec),
                                 lambda: mult(5, (x + ec.p, y), ec), lambda: mult(zs, (x, y + ec.p), ec)):
                        o = outcome(call)
                        if o[0] == "ok" or not is_lib_exc(o[1]):
                            ctx.violation("offcurve-answered", f"{name}: off-curve point answered/raised {o[1]!r}",
                                          {"curve": name, "P": (x, y), "arm": armtag})
                        ctx.case("big:offcurve", (name, x, y, armtag))
        if k1 and backend_available():
            set_backend(True)
    reach.stop()
    reach.report(ctx)


def _openssl_curves():
    try:
        from cryptography.hazmat.primitives.asymmetric import ec as cec
    except ImportError:
        return {}
    m = {"secp256k1": cec.SECP256K1, "secp192r1": cec.SECP192R1, "secp224r1": cec.SECP224R1,
         "secp256r1": cec.SECP256R1, "secp384r1": cec.SECP384R1, "secp521r1": cec.SECP521R1,
         "bpp256r1": cec.BrainpoolP256R1, "bpp384r1": cec.BrainpoolP384R1, "bpp512r1": cec.BrainpoolP512R1}
    out = {}
    for k, v in m.items():
        try:
            cec.derive_private_key(1, v())
            out[k] = v
        except Exception:  # noqa: BLE001 - curve not supported by this OpenSSL build
            pass
    return out


def _openssl_mul(curve_cls, m: int):
    from cryptography.hazmat.primitives.asymmetric import ec as cec

    nums = cec.derive_private_key(m, curve_cls()).public_key().public_numbers()
    return nums.x, nums.y


# ----------------------------------------------------------- number theory
def shard_nt_exh(ctx: Ctx) -> None:
    from btclib import number_theory as nt
    from btclib.exceptions import BTClibValueError

    reach = _install_reach(ctx)
    mmax, pmax = ctx.params["mmax"], ctx.params["pmax"]
    for m in range(1, mmax + 1):
        for a in range(-m, 2 * m + 1):
            inv = math.gcd(a, m) == 1
            for fn in (nt.mod_inv_var, nt.mod_inv):
                o = outcome(fn, a, m)
                if inv:
                    if o[0] == "raise" or not (0 <= o[1] < m and o[1] * a % m == 1 % m):
                        ctx.violation("mod-inv-wrong", f"{fn.__name__}({a},{m}) -> {o[1]!r}", {"a": a, "m": m})
                elif o[0] == "ok" or not isinstance(o[1], BTClibValueError):
                    ctx.violation("mod-inv-no-inverse-answered", f"{fn.__name__}({a},{m}) -> {o[1]!r} but gcd != 1", {"a": a, "m": m})
            # the extended Euclid itself: Bezout's identity, for either order of the operands
            for u, v in ((a, m), (m, a)):
                o = outcome(nt.xgcd_var, u, v)
                if o[0] == "raise" or len(o[1]) != 3 or u * o[1][1] + v * o[1][2] != o[1][0] or abs(o[1][0]) != math.gcd(u, v):
                    ctx.violation("xgcd-wrong", f"xgcd_var({u},{v}) -> {o[1]!r}", {"a": u, "b": v})
        ctx.bulk("nt:mod_inv", 2 * (3 * m + 1))
        ctx.bulk("nt:xgcd", 2 * (3 * m + 1))
        # batches: all-invertible, with repeats; one with a non-invertible member must be refused
        units = [a for a in range(1, m) if math.gcd(a, m) == 1] or [1]
        batch = [ctx.rng.choice(units) + ctx.rng.choice([0, m, -m]) for _ in range(ctx.rng.randrange(0, 7))]
        for fn in (nt.mod_inv_batch, nt.mod_inv_batch_var):
            o = outcome(fn, batch, m)
            if o[0] == "raise" or len(o[1]) != len(batch) or any(r * a % m != 1 % m for r, a in zip(o[1], batch)):
                ctx.violation("mod-inv-batch-wrong", f"{fn.__name__}({batch},{m}) -> {o[1]!r}", {"batch": batch, "m": m})
            nonunits = [a for a in range(0, m) if math.gcd(a, m) != 1]
            if nonunits and m > 1:
                bad = list(batch)
                bad.insert(ctx.rng.randrange(len(bad) + 1), ctx.rng.choice(nonunits))
                o = outcome(fn, bad, m)
                if o[0] == "ok" or not isinstance(o[1], BTClibValueError):
                    ctx.violation("mod-inv-batch-no-inverse-answered", f"{fn.__name__}({bad},{m}) -> {o[1]!r}", {"batch": bad, "m": m})
            ctx.bulk("nt:mod_inv_batch", 2)
    ctx.exhaustive.append(f"mod_inv/mod_inv_var: every modulus 1..{mmax} x every operand -m..2m")
    primes = [p for p in range(3, pmax) if rec.is_prime(p)]
    for p in primes:
        squares = {}
        for y in range(p):
            squares.setdefault(y * y % p, y)
        for a in range(-2, p + 3):
            ar = a % p
            has = ar in squares
            for fn in (nt.mod_sqrt_var, nt.tonelli_var):
                o = outcome(fn, a, p)
                if has:
                    if o[0] == "raise" or not (0 <= o[1] < p and o[1] * o[1] % p == ar):
                        ctx.violation("mod-sqrt-wrong", f"{fn.__name__}({a},{p}) -> {o[1]!r}", {"a": a, "p": p})
                elif o[0] == "ok" or not isinstance(o[1], BTClibValueError):
                    ctx.violation("mod-sqrt-nonresidue-answered", f"{fn.__name__}({a},{p}) -> {o[1]!r}", {"a": a, "p": p})
            o = outcome(nt.legendre_symbol_var, a, p)
            want = 0 if ar == 0 else (1 if has else -1)
            if o[0] == "raise" or o[1] != want:
                ctx.violation("legendre-wrong", f"legendre_symbol_var({a},{p}) -> {o[1]!r}, want {want}", {"a": a, "p": p})
        ctx.bulk("nt:mod_sqrt", 3 * (p + 5))
        ctx.bulk(f"nt:p%8=={p % 8}" if p % 8 in (1, 5) else "nt:p%4==3", p + 5, 0)
    ctx.exhaustive.append(f"mod_sqrt_var/tonelli_var/legendre_symbol_var: every odd prime below {pmax} x every operand")
    ctx.sample("nt:exhaustive", {"moduli": mmax, "primes": len(primes)})
    reach.stop()
    reach.report(ctx)


def _gen_prime(rng, bits: int, cond) -> int:
    while True:
        c = rng.getrandbits(bits) | (1 << (bits - 1)) | 1
        if cond(c) and rec.is_prime(c):
            return c


def _prime_with_valuation(rng, bits: int, v: int) -> int:
    """A prime p with 2-adic valuation of p-1 exactly v."""
    while True:
        k = rng.getrandbits(max(2, bits - v)) | 1 | (1 << max(1, bits - v - 1))
        c = (k << v) + 1
        if rec.is_prime(c):
            return c


def shard_nt_large(ctx: Ctx) -> None:
    from btclib import number_theory as nt
    from btclib.curves.curve import CURVES
    from btclib.exceptions import BTClibValueError

    reach = _install_reach(ctx)
    rng = ctx.rng
    mods = []
    cl = list(CURVES.values())
    part = ctx.params["part"]
    for ec in cl[part::2] if ctx.tier == "quick" else cl[part::6]:
        mods += [ec.p, ec.n]
    for i in range(ctx.params["n"] // 6):
        bits = rng.choice([33, 64, 128, 192, 256, 384])
        mods.append(_gen_prime(rng, bits, lambda c: c % 4 == 3))
        mods.append(_gen_prime(rng, bits, lambda c: c % 8 == 5))
        mods.append(_prime_with_valuation(rng, max(bits, 130), rng.choice([3, 4, 5, 8, 16, 32, 64, 96])))
    mods.append(CURVES["secp224r1"].p)  # 2-adic valuation 96
    for p in mods:
        if ctx.out_of_time():
            break
        ops = [0, 1, 2, 4, p - 1, p - 2, p, p + 1, -1, 2 * p + 3, (p - 1) // 2, (p + 1) // 2] + [rng.randrange(p) for _ in range(10)]
        ops += [x * x % p for x in (rng.randrange(1, p) for _ in range(6))]
        for a in ops:
            ar = a % p
            for fn in (nt.mod_inv_var, nt.mod_inv):
                o = outcome(fn, a, p)
                if ar:
                    if o[0] == "raise" or not (0 <= o[1] < p and o[1] * ar % p == 1):
                        ctx.violation("mod-inv-wrong", f"{fn.__name__}({hex(a)},{hex(p)}) -> {o[1]!r}", {"a": a, "m": p})
                elif o[0] == "ok" or not isinstance(o[1], BTClibValueError):
                    ctx.violation("mod-inv-no-inverse-answered", f"{fn.__name__}(0 mod p) -> {o[1]!r}", {"a": a, "m": p})
                ctx.case("nt:mod_inv", (fn.__name__, a, p))
            res = ar == 0 or pow(ar, (p - 1) // 2, p) == 1
            for fn in (nt.mod_sqrt_var, nt.tonelli_var):
                o = outcome(fn, a, p)
                if res:
                    if o[0] == "raise" or not (0 <= o[1] < p and o[1] * o[1] % p == ar):
                        ctx.violation("mod-sqrt-wrong", f"{fn.__name__}({hex(a)},{hex(p)}) -> {o[1]!r}", {"a": a, "p": p})
                elif o[0] == "ok" or not isinstance(o[1], BTClibValueError):
                    ctx.violation("mod-sqrt-nonresidue-answered", f"{fn.__name__}({hex(a)},{hex(p)}) -> {o[1]!r}", {"a": a, "p": p})
                ctx.case("nt:mod_sqrt", (fn.__name__, a, p), sample={"fn": fn.__name__, "a": hex(a), "p": hex(p)})
            ctx.classes[f"nt:p%8=={p % 8}" if p % 8 in (1, 5) else "nt:p%4==3"] += 1
            o = outcome(nt.legendre_symbol_var, a, p)
            want = 0 if ar == 0 else (1 if res else -1)
            if o[0] == "raise" or o[1] != want:
                ctx.violation("legendre-wrong", f"legendre_symbol_var({hex(a)},{hex(p)}) -> {o[1]!r}", {"a": a, "p": p})
        # composite moduli for the inverse: products of two of the primes
        q = rng.choice(mods)
        mm = p * q
        for a in [p, q, p * 3, rng.randrange(1, mm), rng.randrange(1, mm)]:
            inv = math.gcd(a, mm) == 1
            for fn in (nt.mod_inv_var, nt.mod_inv):
                o = outcome(fn, a, mm)
                if inv:
                    if o[0] == "raise" or o[1] * a % mm != 1:
                        ctx.violation("mod-inv-wrong", f"{fn.__name__} composite modulus -> {o[1]!r}", {"a": a, "m": mm})
                elif o[0] == "ok" or not isinstance(o[1], BTClibValueError):
                    ctx.violation("mod-inv-no-inverse-answered", f"{fn.__name__} composite modulus -> {o[1]!r}", {"a": a, "m": mm})
                ctx.case("nt:mod_inv", (fn.__name__, a, mm))
        batch = [rng.randrange(1, p) for _ in range(rng.randrange(1, 9))]
        batch += batch[:1]
        for fn in (nt.mod_inv_batch, nt.mod_inv_batch_var):
            o = outcome(fn, batch, p)
            if o[0] == "raise" or any(r * a % p != 1 for r, a in zip(o[1], batch)):
                ctx.violation("mod-inv-batch-wrong", f"{fn.__name__} -> {o[1]!r}", {"batch": batch, "m": p})
            o = outcome(fn, batch + [p], p)
            if o[0] == "ok" or not isinstance(o[1], BTClibValueError):
                ctx.violation("mod-inv-batch-no-inverse-answered", f"{fn.__name__} with 0 mod p -> {o[1]!r}", {"m": p})
            ctx.case("nt:mod_inv_batch", (fn.__name__, tuple(batch), p))
    reach.stop()
    reach.report(ctx)


# ---------------------------------------------------------------- SEC codec
def shard_sec(ctx: Ctx) -> None:
    from btclib.curves.curve import CURVES
    from btclib.curves.sec_point import bytes_from_point, point_from_octets

    rng = ctx.rng
    names = _curve_names()
    for it in range(ctx.params["n"]):
        if ctx.out_of_time():
            break
        name = names[it % len(names)]
        ec = _custom_curve(name) if name in CUSTOM_CURVES else CURVES[name]
        rc = rec.RefCurve(ec.p, ec._a, ec._b, tuple(ec.G), ec.n, name)
        size = ec.p_size
        # a point by lifting a random x with the reference (both parities)
        while True:
            x = rng.randrange(ec.p)
            P = rc.lift_x(x, rng.randrange(2))
            if P is not None and P[1]:
                break
        for arm in ([True, False] if name == "secp256k1" and backend_available() else [None]):
            if arm is not None:
                set_backend(arm)
            for comp in (True, False):
                enc = rc.sec(P, comp)
                o = outcome(bytes_from_point, P, ec, comp)
                if o[0] == "raise" or o[1] != enc:
                    ctx.violation("sec-encode-wrong", f"{name} bytes_from_point({P}, compressed={comp}) -> {o[1]!r}", {"curve": name, "P": P})
                o = outcome(point_from_octets, enc, ec)
                if o[0] == "raise" or tuple(o[1]) != P:
                    ctx.violation("sec-roundtrip", f"{name} point_from_octets({enc.hex()}) -> {o[1]!r}", {"curve": name, "P": P})
                ctx.case("sec:roundtrip", (name, P, comp, arm), sample={"curve": name, "octets": enc.hex()})
            xb, yb = P[0].to_bytes(size, "big"), P[1].to_bytes(size, "big")
            hyb = bytes([6 + (P[1] & 1)]) + xb + yb
            o = outcome(point_from_octets, hyb, ec, hybrid=True)
            if o[0] == "raise" or tuple(o[1]) != P:
                ctx.violation("sec-hybrid-roundtrip", f"{name} hybrid octets -> {o[1]!r}", {"curve": name, "P": P})
            ctx.case("sec:roundtrip", (name, P, "hybrid", arm))
            # malformed octets: the reference decoder says None -> must be refused with a library exception
            xbad = next(x2 for x2 in (rng.randrange(ec.p) for _ in range(200)) if rc.lift_x(x2) is None)
            bad = [
                ("hybrid-without-flag", hyb, False),
                ("hybrid-parity-mismatch", bytes([7 - (P[1] & 1)]) + xb + yb, True),
                ("wrong-length", rc.sec(P, True)[:-1], False),
                ("wrong-length", rc.sec(P, True) + b"\x00", False),
                ("wrong-length", rc.sec(P, False)[:-1], False),
                ("wrong-length", b"", False),
                ("bad-prefix", b"\x05" + xb, False),
                ("bad-prefix", b"\x00" + xb, False),
                ("bad-prefix", b"\x01" + xb + yb, False),
                ("x-not-on-curve", b"\x02" + xbad.to_bytes(size, "big"), False),
                ("y-wrong", b"\x04" + xb + ((P[1] + 1) % ec.p).to_bytes(size, "big"), False),
                ("y-zero", b"\x04" + xb + bytes(size), False),
                ("compressed-prefix-on-65", b"\x02" + xb + yb, False),
            ]
            if ec.p + 1 < (1 << (8 * size)):
                big = ec.p + rng.randrange(0, (1 << (8 * size)) - ec.p)
                bad.append(("x>=p", b"\x02" + big.to_bytes(size, "big"), False))
                bad.append(("x>=p", b"\x04" + (P[0] + ec.p).to_bytes(size, "big") + yb, False) if P[0] + ec.p < (1 << (8 * size)) else ("wrong-length", b"\x04", False))
            for tag, octets, hyb_flag in bad:
                if rc.from_sec(octets, hyb_flag) is not None:
                    continue  # the reference decodes it: not malformed
                o = outcome(point_from_octets, octets, ec, hybrid=hyb_flag)
                if o[0] == "ok":
                    ctx.violation(f"sec-malformed-accepted:{tag}", f"{name} point_from_octets({octets.hex()}) -> {o[1]!r}", {"curve": name, "octets": octets})
                elif not is_lib_exc(o[1]):
                    ctx.violation(f"sec-malformed-foreign-exception:{tag}", f"{name} {octets.hex()} raised {o[1]!r}", {"curve": name, "octets": octets})
                ctx.case("sec:malformed", (name, octets, hyb_flag, arm))
                ctx.stat(f"sec:{tag}")
        if name == "secp256k1" and backend_available():
            set_backend(True)
