"""C17 - block commitments: merkle roots and proofs, BIP141 commitment, BIP158 filters,
BIP152 compact blocks, compact targets, retarget and work.

Reference-model monitors: every value the library returns is compared with
``rv.ref.merkle`` (Core's ComputeMerkleRoot + branch functions, BIP141/144 codec),
``rv.ref.gcs`` (SipHash-2-4, BIP158, BIP152 short ids) and ``rv.ref.arith256``
(SetCompact/GetCompact/CalculateNextWorkRequired/GetBlockProof).  The references are
self-tested against published vectors first; a failing self-test is INCONCLUSIVE.
"""

from __future__ import annotations

import json
import os

from ..ctx import Ctx, is_lib_exc, outcome
from ..hooks import Reach, patched
from ..ref import arith256 as ra
from ..ref import gcs as rg
from ..ref import merkle as rm

PROPERTY = "C17"
RULE = (
    "merkle: leaf lists of every size 1..70 (quick) / sampled up to 3000 (thorough) in ten shapes (distinct, repeated "
    "non-adjacent, aligned/unaligned equal pairs, equal subtrees, all equal, odd with equal tail, duplicated tail x1..x3); "
    "for each list the root and mutation flag, each index's branch (sampled on large lists), every other index below "
    "2^depth plus out-of-range ones, other leaves, every single-bit tamper of leaf and branch on chosen indexes, the "
    "64-byte-transaction inner node. blocks: generated with the reference writer (with and without witnesses), mined at "
    "regtest target, then one edit at a time of header root / transactions / witnesses / coinbase commitment (header "
    "re-mined when it changes). filters and compact blocks from the same generator; pools exact, superset, shuffled, "
    "lacking, with injected short-id collisions. compact bits: all 2^16 (exponent, top significand byte) x 4 tails "
    "exhaustively plus uniform values; 256-bit targets by bit length and significand class; retarget over bits classes x "
    "timespan classes around both clamps. A case is non-trivial when the reference computed the expected value "
    "independently (distinct = distinct inputs)."
)
ASSUMPTIONS = [
    "rv.ref.merkle is Core's ComputeMerkleRoot/ComputeMerkleBranch and the BIP141/BIP144 encodings (self-tested on blocks 200000, 481824 and python-bitcoinlib's checkblock vectors)",
    "rv.ref.gcs is SipHash-2-4, BIP158 and BIP152 short ids (self-tested on Core's siphash.json and BIP158 blockfilters.json)",
    "rv.ref.arith256 is Core's arith_uint256 compact codec, CalculateNextWorkRequired and GetBlockProof (self-tested on Core's bignum_SetCompact and pow_tests vectors)",
    "SHA256 from hashlib is correct; no double-SHA256 collision or one-bit-apart pair occurs among generated hashes",
    "a block holding a commitment output but no witness at all is outside the check (the library documents it as the legacy view)",
]

VEC = os.path.join(os.path.dirname(os.path.dirname(os.path.dirname(os.path.abspath(__file__)))), "vectors")

MECH_FUNCS = [
    "btclib.hashes:merkle_root_and_mutated_from_hashes",
    "btclib.hashes:merkle_root_from_branch",
    "btclib.hashes:siphash",
    "btclib.block.merkle_proof:assert_as_valid",
    "btclib.block.merkle_proof:_assert_inner_node_is_not_a_tx",
    "btclib.block.block:merkle_root_and_mutated_from_transactions",
    "btclib.block.block:Block.assert_valid_merkle_root",
    "btclib.block.block:Block.assert_valid_witness_commitment",
    "btclib.block.block_filter:_golomb_encode",
    "btclib.block.block_filter:_golomb_decode",
    "btclib.block.block_filter:_hash_to_range",
    "btclib.block.block_filter:BasicBlockFilter.from_block",
    "btclib.block.block_filter:BasicBlockFilter.match_any",
    "btclib.p2p.compact_blocks:_short_id",
    "btclib.p2p.compact_blocks:reconstruct",
    "btclib.p2p.compact_blocks:PartialBlock.fill",
    "btclib.block.proof_of_work:target_from_bits",
    "btclib.block.proof_of_work:bits_from_target",
    "btclib.block.proof_of_work:is_negative_bits",
    "btclib.block.proof_of_work:next_bits",
    "btclib.block.proof_of_work:block_work",
    "btclib.block.mining:mine",
]


def plan(tier: str, seed: int) -> list[dict]:
    q = tier == "quick"
    b, t = (50, 420) if q else (360, 2400)
    specs: list[dict] = []

    def add(name, fn, **kw):
        specs.append({"name": name, "fn": fn, "_budget_s": b, "_timeout_s": t, **kw})

    nm = 4 if q else 6
    for i in range(nm):
        add(f"merkle-{i}", "shard_merkle", part=i, parts=nm, nmax=70 if q else 3000)
    nb = 3 if q else 4
    for i in range(nb):
        add(f"bits-{i}", "shard_bits", part=i, parts=nb, uniform=(1_200_000 if q else 8_000_000) // nb)
    for i in range(1 if q else 2):
        add(f"retarget-{i}", "shard_retarget", part=i)
    add("work", "shard_work")
    for i in range(3 if q else 4):
        add(f"blocks-{i}", "shard_blocks", part=i)
    for i in range(2 if q else 3):
        add(f"filters-{i}", "shard_filters", part=i)
    for i in range(2 if q else 3):
        add(f"cmpct-{i}", "shard_cmpct", part=i)
    return specs


def finalize(m: dict, tier: str) -> list[str]:
    out = []
    c, r, a, mon, st = m["classes"], m["reached"], m["arms"], m["monitors"], m["selftest"]
    need_classes = [
        "merkle:root", "merkle:odd-level", "merkle:mutated-by-core", "merkle:mutated-inner-level-only", "merkle:duplicated-tail",
        "merkle:branch-correct", "merkle:wrong-index", "merkle:wrong-index:out-of-range", "merkle:wrong-leaf",
        "merkle:bit-tamper", "merkle:proof-module", "merkle:single-leaf", "merkle:64-byte-tx-inner-node",
        "block:baseline", "block:baseline-segwit", "block:tamper:header-root", "block:tamper:tx-edit", "block:tamper:dup-tail",
        "block:tamper:witness-edit", "block:tamper:commitment-wrong", "block:tamper:commitment-missing",
        "block:tamper:nonce", "block:tamper:last-commitment-wrong",
        "filter:bytes-vs-ref", "filter:match-inserted", "filter:roundtrip", "filter:decoded-set", "filter:empty",
        "filter:quotient>=2", "filter:opreturn-or-empty-script-excluded",
        "cmpct:short-id", "cmpct:exact-pool", "cmpct:superset-shuffled", "cmpct:lacking", "cmpct:segwit-tx-in-pool",
        "cmpct:collision-injected", "cmpct:wire-roundtrip",
        "compact:exhaustive-leading", "compact:sign-carry", "compact:exponent<3", "compact:target-exponent<3",
        "compact:canonical", "compact:overflow", "compact:negative", "compact:round-down", "compact:representable-target",
        "retarget:lower-clamp", "retarget:upper-clamp", "retarget:unclamped", "retarget:negative-timespan",
        "retarget:product-wraps", "retarget:limit-hit", "retarget:true-powlimit",
        "work:valid", "work:core-zero", "work:chain", "retarget:window:period-end",
    ]
    for k in need_classes:
        if not c.get(k):
            out.append(f"input class {k} never evaluated")
    for f in ["merkle_root_and_mutated_from_hashes", "merkle_root_from_branch", "_assert_inner_node_is_not_a_tx",
              "Block.assert_valid_merkle_root", "Block.assert_valid_witness_commitment", "_golomb_encode", "_golomb_decode",
              "_hash_to_range", "siphash", "_short_id", "reconstruct", "PartialBlock.fill", "target_from_bits",
              "bits_from_target", "is_negative_bits", "next_bits", "block_work", "mine"]:
        if not r.get(f):
            out.append(f"mechanism {f} never entered")
    for k in ("ref.merkle", "ref.gcs:siphash", "ref.gcs:bip158", "ref.arith256"):
        if not st.get(k):
            out.append(f"oracle self-test {k} did not run")
    for k in ("siphash:real", "siphash:weak-injected"):
        if not a.get(k):
            out.append(f"arm {k} never served a reconstruction")
    for k in ("tamper-must-raise", "branch-must-verify", "wrong-proof-must-fail", "filter-must-match", "reconstruct-must-equal",
              "bits-inverse", "never-round-up", "next-bits-vs-core", "work-vs-core"):
        if not mon.get(k):
            out.append(f"monitor {k} never evaluated")
    return out


# ================================================================= self-tests
def _load(name):
    with open(os.path.join(VEC, name)) as f:
        return json.load(f)


def selftest_merkle(ctx: Ctx, heavy: bool = True) -> None:
    try:
        n = 0
        rb = rm.parse_block(open(os.path.join(VEC, "block_200000.bin"), "rb").read())
        ids = [t.txid for t in rb.txs]
        root, mut = rm.compute_merkle_root(ids)
        if root != rb.header_merkle_root or mut or rb.hash[::-1].hex() != "000000000000034a7dedef4a161fa058a2d67a173a90155f3a2fe6fc132e0ebf":
            return ctx.oracle_broken("ref.merkle", "block 200000 root")
        lv = rm.levels(ids)
        for i in range(len(ids)):
            if rm.root_from_branch(ids[i], rm.merkle_branch(ids, i, lv), i) != rb.header_merkle_root:
                return ctx.oracle_broken("ref.merkle", f"block 200000 branch {i}")
            n += 1
        for row in _load("checkblock_valid.json"):
            if len(row) >= 5:
                b = rm.parse_block(bytes.fromhex(row[4]))
                if rm.block_merkle_root(b.txs) != (b.header_merkle_root, False):
                    return ctx.oracle_broken("ref.merkle", row[0])
                n += 1
        for row in _load("checkblock_invalid.json"):
            if len(row) >= 5 and row[0] in ("Duplicate transaction", "Merkle root mismatch"):
                b = rm.parse_block(bytes.fromhex(row[4]))
                if rm.block_merkle_root(b.txs)[0] == b.header_merkle_root:
                    return ctx.oracle_broken("ref.merkle", row[0])
                n += 1
        for row in _load("blockfilters.json"):
            if len(row) >= 7:
                b = rm.parse_block(bytes.fromhex(row[2]))
                if b.hash[::-1].hex() != row[1] or rm.block_merkle_root(b.txs)[0] != b.header_merkle_root:
                    return ctx.oracle_broken("ref.merkle", f"blockfilters block {row[0]}")
                n += 1
        # Core's merkle_tests property: duplicating the last 2^ctz(n) leaves keeps the root and sets the flag
        for k in range(1, 40):
            hs = [rm.dsha256(bytes([k, j])) for j in range(k)]
            d = rm.duplicated_tail(hs)
            if d is not None:
                if rm.compute_merkle_root(d) != (rm.compute_merkle_root(hs)[0], True) or rm.compute_merkle_root(hs)[1]:
                    return ctx.oracle_broken("ref.merkle", f"duplicated tail n={k}")
                n += 1
        if heavy:
            rb = rm.parse_block(open(os.path.join(VEC, "block_481824_complete.bin"), "rb").read())
            cb = rb.txs[0]
            ci = rm.commitment_index(cb)
            if (ci is None or rm.block_merkle_root(rb.txs) != (rb.header_merkle_root, False)
                    or rm.witness_commitment(rb.txs, cb.vin[0][4][0]) != cb.vout[ci][1][6:38]
                    or rb.serialize(True) != open(os.path.join(VEC, "block_481824_complete.bin"), "rb").read()):
                return ctx.oracle_broken("ref.merkle", "block 481824 witness commitment")
            n += 1
        ctx.oracle_ok("ref.merkle", n)
    except Exception as e:  # noqa: BLE001
        ctx.oracle_broken("ref.merkle", repr(e))


def selftest_gcs(ctx: Ctx) -> None:
    try:
        n = 0
        for row in _load("siphash.json"):
            d = b"".join(bytes.fromhex(x) for x in row["input"])
            if rg.siphash24(int(row["key"][0], 16), int(row["key"][1], 16), d) != int(row["expected"]["siphash24"], 16):
                return ctx.oracle_broken("ref.gcs:siphash", str(row)[:120])
            n += 1
        ctx.oracle_ok("ref.gcs:siphash", n)
        n = 0
        for row in _load("blockfilters.json"):
            if len(row) < 7:
                continue
            b = rm.parse_block(bytes.fromhex(row[2]))
            items = rg.basic_filter_elements(b.txs, [bytes.fromhex(p) for p in row[3]])
            f = rg.serialized_filter(items, b.hash)
            if f.hex() != row[5] or rg.filter_header(f, bytes.fromhex(row[4])[::-1])[::-1].hex() != row[6]:
                return ctx.oracle_broken("ref.gcs:bip158", f"height {row[0]}")
            enc = f[len(rg.compact_size(len(items))):]
            k = rg.key_from_block_hash(b.hash)
            if rg.decode_gcs(enc, len(items)) != sorted(rg.hashed_set_construct(items, k)):
                return ctx.oracle_broken("ref.gcs:bip158", f"decode height {row[0]}")
            if not all(rg.gcs_match(enc, len(items), k, it) for it in items):
                return ctx.oracle_broken("ref.gcs:bip158", f"match height {row[0]}")
            n += 1
        ctx.oracle_ok("ref.gcs:bip158", n)
    except Exception as e:  # noqa: BLE001
        ctx.oracle_broken("ref.gcs", repr(e))


def selftest_arith(ctx: Ctx) -> None:
    try:
        d = _load("core_arith_uint256_pow.json")
        n = 0
        for v in d["set_compact"]:
            val, neg, ov = ra.set_compact(int(v["compact"], 16))
            if ov != v["overflow"] or neg != v["negative"]:
                return ctx.oracle_broken("ref.arith256", f"flags {v['compact']}")
            if v["value"] is not None and (val != int(v["value"], 16) or ra.get_compact(val, neg) != int(v["get_compact"], 16)):
                return ctx.oracle_broken("ref.arith256", f"value {v['compact']}")
            n += 1
        for v in d["get_compact"]:
            if ra.get_compact(int(v["value"], 16)) != int(v["compact"], 16):
                return ctx.oracle_broken("ref.arith256", f"get_compact {v['value']}")
            n += 1
        for v in d["next_work"]:
            if ra.calculate_next_work_required(int(v["bits"], 16), v["first_time"], v["last_time"]) != int(v["expected"], 16):
                return ctx.oracle_broken("ref.arith256", v["name"])
            n += 1
        for v in d["block_proof"]:
            if ra.get_block_proof(int(v["bits"], 16)) != int(v["work"], 16):
                return ctx.oracle_broken("ref.arith256", f"work {v['bits']}")
            n += 1
        ctx.oracle_ok("ref.arith256", n)
    except Exception as e:  # noqa: BLE001
        ctx.oracle_broken("ref.arith256", repr(e))


def _install_reach(ctx: Ctx) -> Reach:
    reach = Reach()
    for d in MECH_FUNCS:
        reach.watch_path(d)
    reach.start()
    return reach


def _lib_raise_ok(ctx: Ctx, o, what: str, case) -> bool:
    """``o`` is an outcome that is expected to be a refusal.  True when it is one (a library exception)."""
    if o[0] == "ok":
        return False
    if not is_lib_exc(o[1]):
        ctx.violation(f"foreign-exception:{what}:{type(o[1]).__name__}", f"{what} raised {o[1]!r} instead of a library exception", case)
    return True


# ===================================================================== merkle
def _h(rng) -> bytes:
    return rng.getrandbits(256).to_bytes(32, "big")


MERKLE_SHAPES = ["distinct", "repeat-nonadjacent", "pair-aligned", "pair-unaligned", "equal-subtrees", "all-equal",
                 "odd-equal-tail", "dup-tail-1", "dup-tail-2", "dup-tail-3"]


def _gen_list(rng, n: int, shape: str) -> list[bytes] | None:
    hs = [_h(rng) for _ in range(n)]
    if shape == "distinct":
        return hs
    if shape == "repeat-nonadjacent":
        if n < 3:
            return None
        i = rng.randrange(n)
        j = rng.choice([k for k in range(n) if k != i and k != i ^ 1])
        hs[j] = hs[i]
        return hs
    if shape == "pair-aligned":
        if n < 2:
            return None
        k = rng.randrange(n // 2)
        hs[2 * k + 1] = hs[2 * k]
        return hs
    if shape == "pair-unaligned":
        if n < 3:
            return None
        k = rng.randrange((n - 1) // 2)
        hs[2 * k + 2] = hs[2 * k + 1]
        return hs
    if shape == "equal-subtrees":
        # an aligned block of 2^s leaves repeated right after itself: the equal pair appears s levels up only
        s = rng.choice([1, 2, 3])
        w = 1 << s
        if n < 2 * w:
            return None
        k = rng.randrange(n // (2 * w))
        hs[2 * w * k + w:2 * w * k + 2 * w] = hs[2 * w * k:2 * w * k + w]
        return hs
    if shape == "all-equal":
        return [hs[0]] * n
    if shape == "odd-equal-tail":
        if n < 3 or n % 2 == 0:
            return None
        hs[n - 1] = hs[n - 2]
        return hs
    if shape.startswith("dup-tail-"):
        for _ in range(int(shape[-1])):
            d = rm.duplicated_tail(hs)
            if d is None:
                return None
            hs = d
        return hs
    raise AssertionError(shape)


def _tx64(rng) -> bytes:
    """A transaction that serializes to exactly 64 bytes (one input, empty script_sig, one output, 4-byte script)."""
    tx = rm.RawTx(rng.choice([1, 2]), [(_h(rng), rng.randrange(4), b"", 0xFFFFFFFF, [])],
                  [(rng.randrange(1, 10**8), bytes([0x51, 0x52, 0x53, 0x54]))], 0)
    raw = tx.serialize()
    assert len(raw) == 64 and rm.is_serialized_tx(raw)
    return raw


class _MerkleLib:
    def __init__(self):
        from btclib import hashes
        from btclib.block import merkle_proof

        self.hash256 = hashes.hash256
        self.mrm_h = hashes.merkle_root_and_mutated_from_hashes
        self.mrm = hashes.merkle_root_and_mutated
        self.mr = hashes.merkle_root
        self.rfb = hashes.merkle_root_from_branch
        self.verify = merkle_proof.verify
        self.assert_as_valid = merkle_proof.assert_as_valid


def _check_list(ctx: Ctx, L: _MerkleLib, hs: list[bytes], shape: str, idx_budget: int, full_tamper: int) -> None:
    rng = ctx.rng
    n = len(hs)
    lv = rm.levels(hs)
    root, mut = rm.compute_merkle_root(hs)
    desc = {"shape": shape, "n": n, "leaves": hs if n <= 12 else hs[:4] + hs[-4:]}
    odd = any(len(l) > 1 and len(l) % 2 for l in lv)
    # which level shows the first equal sibling pair (0 = leaves)
    mut_levels = [d for d, l in enumerate(lv) if any(l[i] == l[i + 1] for i in range(0, len(l) - 1, 2))]

    # ---- root and flag
    o = outcome(L.mrm_h, list(hs), L.hash256)
    if o[0] == "raise":
        ctx.violation("merkle-root-raised", f"merkle_root_and_mutated_from_hashes raised {o[1]!r} on {n} {shape} leaves", desc)
        return
    got_root, got_mut = o[1]
    if got_root != root:
        ctx.violation("merkle-root-differs" + (":odd-level" if odd else ""),
                      f"{n} {shape} leaves: root {got_root.hex()} but Core's ComputeMerkleRoot gives {root.hex()}", desc)
    if mut and not got_mut:
        where = "leaf-level" if 0 in mut_levels else "inner-level"
        ctx.violation(f"mutation-unreported:{where}",
                      f"{n} {shape} leaves: equal sibling pair at level(s) {mut_levels} (CVE-2012-2459) not flagged", desc)
    if got_mut and not mut:
        ctx.stat("merkle:flag-set-where-core-does-not")
    ctx.case("merkle:root", (hs[0], hs[-1], n, shape), sample={"shape": shape, "n": n, "mutated": mut, "odd_level": odd})
    ctx.mon("root-vs-core")
    if odd:
        ctx.bulk("merkle:odd-level", 1, 0)
    if mut:
        ctx.bulk("merkle:mutated-by-core", 1, 0)
        if 0 not in mut_levels:
            ctx.bulk("merkle:mutated-inner-level-only", 1, 0)
    if shape.startswith("dup-tail"):
        ctx.bulk("merkle:duplicated-tail", 1, 0)
    if n == 1:
        ctx.bulk("merkle:single-leaf", 1, 0)

    # ---- the same tree from preimages
    if n <= 40 or rng.random() < 0.1:
        data = [bytes([i & 255]) * (1 + i % 5) + hs[i][:rng.randrange(0, 9)] for i in range(n)]
        want = rm.compute_merkle_root([rm.dsha256(d) for d in data])
        o = outcome(L.mrm, data, L.hash256)
        o2 = outcome(L.mr, data, L.hash256)
        if o[0] == "raise" or o[1][0] != want[0] or (want[1] and not o[1][1]) or o2[0] == "raise" or o2[1] != want[0]:
            ctx.violation("merkle-root-differs:from-data", f"merkle_root_and_mutated/merkle_root over {n} items: {o[1]!r} / {o2[1]!r}, Core {want}",
                          {"data": data[:8], "n": n})
        ctx.bulk("merkle:root-from-data", 2)

    # ---- branches
    if n <= idx_budget:
        idxs = list(range(n))
    else:
        idxs = sorted(set([0, 1, n - 1, n - 2, n // 2] + [rng.randrange(n) for _ in range(idx_budget)]))
    tamper_idx = set(rng.sample(idxs, min(full_tamper, len(idxs))))
    for i in idxs:
        if ctx.out_of_time():
            return
        leaf = hs[i]
        br = rm.merkle_branch(hs, i, lv)
        depth = len(br)
        case = {**desc, "index": i, "leaf": leaf, "branch": br, "root": root}

        # correct branch
        o = outcome(L.rfb, leaf, br, i, L.hash256)
        if not mut:
            ctx.mon("branch-must-verify")
            if o[0] == "raise":
                ctx.violation("correct-branch-refused", f"leaf {i} of {n} ({shape}): merkle_root_from_branch raised {o[1]!r}", case)
            elif o[1] != root:
                ctx.violation("correct-branch-wrong-root", f"leaf {i} of {n} ({shape}): {o[1].hex()} instead of {root.hex()}", case)
            ctx.bulk("merkle:branch-correct", 1)
        else:
            ctx.stat("merkle:mutated-list:correct-branch-" + ("refused" if o[0] == "raise" else "verifies" if o[1] == root else "other-root"))
            if o[0] == "raise":
                _lib_raise_ok(ctx, o, "merkle_root_from_branch", case)

        def must_fail(kind: str, lf: bytes, b: list[bytes], j: int) -> None:
            if rm.is_correct_proof(hs, lf, b, j, lv):
                ctx.stat("merkle:variant-is-itself-a-correct-proof")
                return
            oo = outcome(L.rfb, lf, b, j, L.hash256)
            ctx.mon("wrong-proof-must-fail")
            if oo[0] == "ok" and oo[1] == root:
                ctx.violation(f"wrong-proof-verifies:{kind}",
                              f"{n} {shape} leaves: ({kind}) leaf {lf.hex()[:16]}.. at index {j} with the branch of index {i} gives the root",
                              {**case, "kind": kind, "used_leaf": lf, "used_index": j, "used_branch": b})
            elif oo[0] == "raise":
                _lib_raise_ok(ctx, oo, "merkle_root_from_branch", case)

        # other indexes
        width = 1 << depth
        if width <= 128:
            js = [j for j in range(width) if j != i]
        else:
            js = [i ^ (1 << k) for k in range(depth)] + [rng.randrange(width) for _ in range(24)]
            js = [j for j in js if j != i]
        for j in js:
            must_fail("wrong-index", leaf, br, j)
        ctx.bulk("merkle:wrong-index", len(js))
        hi = [i + width, i + 2 * width, i + (width << rng.randrange(2, 40)), (1 << 64) + i]
        for j in hi:
            must_fail("index-out-of-range", leaf, br, j)
        ctx.bulk("merkle:wrong-index:out-of-range", len(hi))

        # other leaves
        others = [hs[(i + 1) % n], hs[i ^ 1] if (i ^ 1) < n else hs[0], _h(rng), root, bytes(32),
                  lv[1][i >> 1] if depth else _h(rng), hs[rng.randrange(n)]]
        k = 0
        for lf in others:
            if lf != leaf:
                must_fail("wrong-leaf", lf, br, i)
                k += 1
        ctx.bulk("merkle:wrong-leaf", k)
        # shortened / extended branches
        if depth:
            must_fail("branch-truncated", leaf, br[:-1], i)
            must_fail("branch-truncated", leaf, br[1:], i)
            must_fail("branch-extended", leaf, br + [_h(rng)], i)
            must_fail("branch-extended", leaf, br + [root], i)
            ctx.bulk("merkle:branch-length", 4)
            # an inner node presented one level up verifies arithmetically: inherent, recorded only
            oo = outcome(L.rfb, lv[1][i >> 1], br[1:], i >> 1, L.hash256)
            ctx.stat("merkle:inner-node-with-shorter-branch-" + ("verifies" if oo[0] == "ok" and oo[1] == root else "fails"))

        # single-bit tampers: all of them on chosen indexes, a sample elsewhere
        if i in tamper_idx:
            positions = [(e, bit) for e in range(-1, depth) for bit in range(256)]
        else:
            positions = [(rng.randrange(-1, depth), rng.randrange(256)) for _ in range(6)]
        for e, bit in positions:
            mask = (1 << bit).to_bytes(32, "big")
            if e < 0:
                lf = bytes(x ^ y for x, y in zip(leaf, mask))
                must_fail("bit-tamper-leaf", lf, br, i)
            else:
                b2 = list(br)
                b2[e] = bytes(x ^ y for x, y in zip(br[e], mask))
                must_fail("bit-tamper-branch", leaf, b2, i)
        ctx.bulk("merkle:bit-tamper", len(positions))

        # the proof module (display byte order, inner-node hardening on): a sample of the above
        if i in tamper_idx or rng.random() < 0.15:
            rd, ld, bd = root[::-1], leaf[::-1], [s[::-1] for s in br]
            o = outcome(L.verify, ld, bd, i, rd)
            if not mut:
                ctx.mon("branch-must-verify")
                if o[0] == "raise" or o[1] is not True:
                    inner_is_tx = any(rm.is_serialized_tx(p) for p in _pairs(leaf, br, i))
                    if inner_is_tx:
                        ctx.stat("merkle:honest-inner-node-parses-as-tx")
                    else:
                        ctx.violation("correct-proof-refused", f"merkle_proof.verify -> {o[1]!r} for leaf {i} of {n} ({shape})", case)
            probes = [("wrong-index", ld, bd, i ^ 1 if depth else 1, rd), ("index-out-of-range", ld, bd, i + width, rd),
                      ("wrong-leaf", _h(rng), bd, i, rd), ("wrong-root", ld, bd, i, bytes([rd[0] ^ 1]) + rd[1:])]
            if depth:
                e = rng.randrange(depth)
                b2 = list(bd)
                b2[e] = bytes([b2[e][0] ^ (1 << rng.randrange(8))]) + b2[e][1:]
                probes.append(("bit-tamper-branch", ld, b2, i, rd))
            for kind, a1, a2, a3, a4 in probes:
                if kind != "wrong-root" and rm.is_correct_proof(hs, a1[::-1], [s[::-1] for s in a2], a3, lv):
                    continue
                oo = outcome(L.verify, a1, a2, a3, a4)
                ctx.mon("wrong-proof-must-fail")
                if oo[0] == "raise":
                    ctx.violation("proof-verify-raised", f"merkle_proof.verify raised {oo[1]!r} ({kind})", {**case, "kind": kind})
                elif oo[1] is not False:
                    ctx.violation(f"wrong-proof-verifies:proof-module:{kind}", f"merkle_proof.verify -> {oo[1]!r} for a {kind} variant of leaf {i} of {n}",
                                  {**case, "kind": kind, "txid": a1, "branch": a2, "index": a3, "merkle_root": a4})
            ctx.bulk("merkle:proof-module", 1 + len(probes))


def _pairs(leaf: bytes, br: list[bytes], i: int):
    h = leaf
    for s in br:
        p = s + h if i & 1 else h + s
        yield p
        h = rm.dsha256(p)
        i >>= 1


def _check_tx64(ctx: Ctx, L: _MerkleLib, n: int) -> None:
    """CVE-2017-12842: a 64-byte transaction T = a||b is a leaf; (b, [a]+branch, 2i+1) must not prove b."""
    rng = ctx.rng
    hs = [_h(rng) for _ in range(n)]
    i = rng.randrange(n)
    T = _tx64(rng)
    hs[i] = rm.dsha256(T)
    lv = rm.levels(hs)
    root = lv[-1][0]
    br = rm.merkle_branch(hs, i, lv)
    a, b = T[:32], T[32:]
    case = {"n": n, "index": i, "tx64": T, "branch": br, "root": root}
    rd = root[::-1]
    o = outcome(L.verify, hs[i][::-1], [s[::-1] for s in br], i, rd)
    ctx.mon("branch-must-verify")
    if o[0] == "raise" or o[1] is not True:
        if not any(rm.is_serialized_tx(p) for p in _pairs(hs[i], br, i)):
            ctx.violation("correct-proof-refused:64-byte-tx-leaf", f"the honest proof of a 64-byte transaction's txid -> {o[1]!r}", case)
    for kind, lf, sib, j in (("right-half", b, a, 2 * i + 1), ("left-half", a, b, 2 * i)):
        if rm.root_from_branch(lf, [sib] + br, j) != root:
            ctx.oracle_broken("ref.merkle", "64-byte construction")
            return
        o = outcome(L.rfb, lf, [sib] + br, j, L.hash256)
        ctx.stat("merkle:64-byte:plain-arithmetic-" + ("verifies(by-design)" if o[0] == "ok" and o[1] == root else "refuses"))
        o = outcome(L.verify, lf[::-1], [sib[::-1]] + [s[::-1] for s in br], j, rd)
        ctx.mon("wrong-proof-must-fail")
        if o[0] == "raise":
            ctx.violation("proof-verify-raised", f"merkle_proof.verify raised {o[1]!r} (64-byte inner node)", case)
        elif o[1] is not False:
            ctx.violation(f"inner-node-tx-accepted:{kind}",
                          f"merkle_proof.verify accepts {kind} of a 64-byte transaction as a leaf one level below the real tree (CVE-2017-12842)",
                          {**case, "kind": kind, "fake_leaf": lf, "fake_index": j})
        ctx.case("merkle:64-byte-tx-inner-node", (T, n, i, kind), sample={"n": n, "index": i, "tx64": T, "kind": kind})


def shard_merkle(ctx: Ctx) -> None:
    selftest_merkle(ctx, heavy=False)
    if ctx.inconclusive:
        return
    L = _MerkleLib()
    reach = _install_reach(ctx)
    rng = ctx.rng
    part, parts, nmax = ctx.params["part"], ctx.params["parts"], ctx.params["nmax"]
    quick = ctx.tier == "quick"
    if quick:
        sizes = [n for n in range(1, nmax + 1) if n % parts == part]
    else:
        small = [n for n in range(1, 131) if n % parts == part]
        big = sorted({rng.choice([rng.randrange(131, 600), rng.randrange(600, nmax + 1), (1 << rng.randrange(7, 12)) + rng.randrange(-2, 3)])
                      for _ in range(40)})
        sizes = small + [min(b, nmax) for b in big]
    rng.shuffle(sizes)
    done = 0
    # a first pass every shard makes whatever the budget: one leaf, the smallest odd levels, every shape, the 64-byte case
    for n in (1, 2, 3, 5, 6, 7, 8, 11, 12):
        for shape in MERKLE_SHAPES:
            hs = _gen_list(rng, n, shape)
            if hs is not None:
                _check_list(ctx, L, hs, shape, idx_budget=12, full_tamper=1)
                done += 1
        _check_tx64(ctx, L, n)
    for rnd in range(3 if quick else 40):
        for n in sizes:
            if ctx.out_of_time():
                break
            for shape in MERKLE_SHAPES:
                hs = _gen_list(rng, n, shape)
                if hs is None:
                    continue
                _check_list(ctx, L, hs, shape, idx_budget=70 if quick else 40, full_tamper=1 if n > 8 else 2)
                done += 1
            if n >= 1:
                _check_tx64(ctx, L, n)
    if ctx.out_of_time():
        ctx.notes.append(f"{ctx.shard}: budget reached after {done} lists")
    ctx.stat("merkle:lists", done)
    # real transactions: block 200000 (388 leaves, five odd levels)
    if part == 0:
        rb = rm.parse_block(open(os.path.join(VEC, "block_200000.bin"), "rb").read())
        _check_list(ctx, L, [t.txid for t in rb.txs], "block-200000", idx_budget=12, full_tamper=1)
    reach.stop()
    reach.report(ctx)


# =============================================================== compact bits
class _PowLib:
    def __init__(self):
        from btclib.block import proof_of_work as pw

        self.pw = pw
        self.tfb, self.bft, self.neg = pw.target_from_bits, pw.bits_from_target, pw.is_negative_bits
        self.next_bits, self.block_work, self.chain_work = pw.next_bits, pw.block_work, pw.chain_work


def _check_bits(ctx: Ctx, P: _PowLib, nc: int) -> None:
    """One 32-bit compact value against SetCompact / GetCompact."""
    b = nc.to_bytes(4, "big")
    val, neg, over = ra.set_compact(nc)
    case = {"bits": b}
    o = outcome(P.tfb, b)
    if over:
        ctx.classes["compact:overflow"] += 1
        if not _lib_raise_ok(ctx, o, "target_from_bits", case):
            ctx.violation("overflow-bits-answered", f"target_from_bits({b.hex()}) -> {o[1].hex()} but SetCompact sets fOverflow", case)
        o = outcome(P.neg, b)
        if o[0] == "raise" or o[1] != neg:
            ctx.violation("negative-flag-differs", f"is_negative_bits({b.hex()}) -> {o[1]!r}, SetCompact fNegative={neg}", case)
        return
    canonical = ra.get_compact(val) == nc
    if o[0] == "raise":
        if canonical:
            ctx.violation("canonical-bits-refused", f"target_from_bits({b.hex()}) raised {o[1]!r}; SetCompact gives {hex(val)} without overflow", case)
        else:
            ctx.stat("compact:representable-noncanonical-bits-refused")
        return
    t = int.from_bytes(o[1], "big")
    if len(o[1]) != 32 or t != val:
        ctx.violation("target-from-bits-value" + (":exponent<3" if nc >> 24 < 3 else ""),
                      f"target_from_bits({b.hex()}) = {o[1].hex()} but SetCompact gives {hex(val)}", case)
    if nc >> 24 < 3:
        ctx.classes["compact:exponent<3"] += 1
    o = outcome(P.neg, b)
    if o[0] == "raise" or o[1] != neg:
        ctx.violation("negative-flag-differs", f"is_negative_bits({b.hex()}) -> {o[1]!r}, SetCompact fNegative={neg}", case)
    if neg:
        ctx.classes["compact:negative"] += 1
    # encode what was decoded
    tb = val.to_bytes(32, "big")
    o = outcome(P.bft, tb)
    ctx.mon("bits-inverse")
    if o[0] == "raise":
        ctx.violation("bits-from-target-raised", f"bits_from_target({tb.hex()}) raised {o[1]!r}", case)
        return
    back = int.from_bytes(o[1], "big")
    if ra.sign_carry(val):
        ctx.classes["compact:sign-carry"] += 1
    if canonical:
        ctx.classes["compact:canonical"] += 1
        if back != nc:
            ctx.violation("compact-not-inverse-on-canonical" + (":sign-carry" if ra.sign_carry(val) else ""),
                          f"bits_from_target(target_from_bits({b.hex()})) = {o[1].hex()}; GetCompact(SetCompact) = {nc:08x}", case)
    elif back == nc:
        ctx.stat("compact:noncanonical-bits-reproduced")
    ctx.stat("compact:bits_from_target==GetCompact" if back == ra.get_compact(val) else "compact:bits_from_target!=GetCompact")
    _check_round(ctx, P, val, o[1])


def _check_round(ctx: Ctx, P: _PowLib, t: int, enc: bytes) -> None:
    """``enc`` = bits_from_target(t): decoding it must not exceed t, and must give t back when t is representable."""
    ctx.mon("never-round-up")
    o = outcome(P.tfb, enc)
    case = {"target": hex(t), "bits_from_target": enc}
    representable = ra.set_compact(ra.get_compact(t))[0] == t
    if o[0] == "raise":
        if representable:
            ctx.violation("own-bits-refused", f"target_from_bits refuses {enc.hex()}, which bits_from_target wrote for the representable {hex(t)}: {o[1]!r}", case)
        else:
            ctx.stat("compact:own-bits-refused(unrepresentable-target)")
        return
    t2 = int.from_bytes(o[1], "big")
    nc2 = int.from_bytes(enc, "big")
    if t2 > t:
        ctx.violation("target-rounded-up", f"bits_from_target({hex(t)}) = {enc.hex()} decodes to {hex(t2)} > the target", case)
    if representable:
        ctx.classes["compact:representable-target"] += 1
        if t2 != t:
            ctx.violation("compact-not-inverse-on-representable" + (":sign-carry" if ra.sign_carry(t) else ""),
                          f"target {hex(t)} is exactly representable ({ra.get_compact(t):08x}) but comes back as {hex(t2)} through {enc.hex()}", case)
    elif t2 < t:
        ctx.classes["compact:round-down"] += 1
    if nc2 & 0x00800000 and t:
        ctx.stat("compact:sign-bit-written-by-bits_from_target")


def _target_classes(rng):
    bl = rng.randrange(1, 257)
    top = rng.choice([0x800000, 0x7FFFFF, 0xFFFFFF, 0x80FFFF, 0x00FFFF, 0x010000, rng.getrandbits(24) | 0x800000, rng.getrandbits(23)])
    sh = rng.randrange(0, 233)
    yield (top << sh) & ra.M256
    yield ((top << sh) | rng.getrandbits(sh)) & ra.M256 if sh else top
    yield rng.getrandbits(bl) | (1 << (bl - 1))
    yield (1 << bl) - 1
    yield 1 << (bl - 1)
    yield ((1 << (bl - 1)) + 1) & ra.M256
    yield rng.getrandbits(16)
    yield rng.getrandbits(24)
    yield 0x80 << (8 * rng.randrange(0, 31))
    yield (0x80 << (8 * rng.randrange(0, 31))) - 1


def shard_bits(ctx: Ctx) -> None:
    selftest_arith(ctx)
    if ctx.inconclusive:
        return
    P = _PowLib()
    reach = _install_reach(ctx)
    rng = ctx.rng
    part, parts = ctx.params["part"], ctx.params["parts"]
    tails = (0x0000, 0x0001, 0x7FFF, 0xFFFF)
    n = 0
    for e in range(part, 256, parts):
        for hi in range(256):
            for lo in tails:
                _check_bits(ctx, P, (e << 24) | (hi << 16) | lo)
        n += 256 * len(tails)
    ctx.bulk("compact:exhaustive-leading", n)
    ctx.exhaustive.append("compact bits: every (exponent, top significand byte) x significand tails {0000,0001,7fff,ffff}")
    # 256-bit targets, through bits_from_target first
    k = 0
    for it in range(ctx.params["uniform"] // 12):
        if it > 3000 and ctx.time_left() < 0.4 * ctx.params["_budget_s"]:
            break  # leave the uniform compact values their share
        for t in _target_classes(rng):
            width = 32 if rng.random() < 0.7 else max(1, (t.bit_length() + 7) // 8)
            tb = t.to_bytes(width, "big")
            o = outcome(P.bft, tb)
            if o[0] == "raise":
                ctx.violation("bits-from-target-raised", f"bits_from_target({tb.hex()}) raised {o[1]!r}", {"target": tb})
                continue
            if t.bit_length() <= 16:
                ctx.classes["compact:target-exponent<3"] += 1
            if ra.sign_carry(t):
                ctx.classes["compact:sign-carry"] += 1
            ctx.stat("compact:bits_from_target==GetCompact" if int.from_bytes(o[1], "big") == ra.get_compact(t) else "compact:bits_from_target!=GetCompact")
            _check_round(ctx, P, t, o[1])
            k += 1
    ctx.bulk("compact:targets", k)
    for _ in range(ctx.params["uniform"]):
        if ctx.out_of_time():
            break
        _check_bits(ctx, P, rng.getrandbits(32))
        ctx.evaluations += 1
        ctx.classes["compact:uniform-bits"] += 1
    ctx._bulk_distinct += ctx.classes["compact:uniform-bits"]
    reach.stop()
    reach.report(ctx)


# =================================================================== retarget
T = ra.POW_TARGET_TIMESPAN
GENESIS_TIME = 1231006505


def _dt(ts: int, rng=None):
    from datetime import datetime, timedelta, timezone

    if rng is not None and rng.random() < 0.15:
        tz = timezone(timedelta(minutes=rng.choice([-720, -210, 60, 345, 840])))
        return datetime.fromtimestamp(ts, tz)
    return datetime.fromtimestamp(ts, timezone.utc)


def _span_classes(rng):
    return [
        ("lower-clamp", rng.choice([0, 1, T // 4 - 1, T // 4 - 2, rng.randrange(0, T // 4)])),
        ("lower-clamp", T // 4),
        ("negative-timespan", -rng.choice([1, 2, 600, T, rng.randrange(1, 10**9)])),
        ("unclamped", rng.choice([T // 4 + 1, T - 1, T, T + 1, 4 * T - 1, rng.randrange(T // 4 + 1, 4 * T)])),
        ("unclamped", rng.randrange(T // 4 + 1, 4 * T)),
        ("upper-clamp", rng.choice([4 * T, 4 * T + 1, 4 * T + 2, rng.randrange(4 * T, 2 * 10**9)])),
    ]


def _bits_classes(rng):
    def canon(v):
        return ra.get_compact(v & ra.M256)

    size = rng.randrange(4, 33)
    return [
        ("mainnet-limit", 0x1D00FFFF),
        ("mainnet-history", rng.choice([0x1C05A3F4, 0x1C387F6F, 0x1B0404CB, 0x1A05DB8B, 0x1903A30C, 0x18009645, 0x17053894, 0x1701D936])),
        ("canonical-random", canon((rng.getrandbits(23) | 0x010000) << (8 * (size - 3)))),
        ("near-limit", canon((0xFFFF << 208) // rng.choice([1, 2, 3, 4, 5]) + rng.randrange(-3, 4) * (1 << 200))),
        ("sign-carry-result", canon(rng.choice([0x7FFFFF, 0x400000, 0x200000, 0x1FFFFF, 0x3FFFFF, 0x7FFFFE]) << (8 * rng.randrange(1, 26)))),
        ("tiny", rng.choice([0x01010000, 0x02010000, 0x03000001, 0x03012345, 0x0400FFFF, 0x02008000, 0x01000000, 0])),
        ("negative", (size << 24) | 0x800000 | rng.getrandbits(23)),
        ("noncanonical", (size << 24) | rng.getrandbits(16)),
        ("huge", canon((rng.getrandbits(23) | 0x400000) << (8 * rng.randrange(27, 30)))),
        ("regtest-limit", 0x207FFFFF),
    ]


def _retarget_window(ctx: Ctx, P: _PowLib, rng) -> None:
    """retarget_first_height against GetNextWorkRequired: the window of a period ending at h (the next height a multiple of
    2016) is measured from h - 2015. Every height of the first 120 periods, then periods far beyond today's chain."""
    f = getattr(P.pw, "retarget_first_height", None)
    if f is None:
        ctx.stat("retarget-window:function-absent")
        return
    heights = list(range(0, 2016 * (120 if ctx.tier == "quick" else 600)))
    for _ in range(4000):
        k = rng.choice([rng.randrange(1, 2**16), rng.randrange(1, 2**40), rng.randrange(2**20, 2**21)])
        heights += [2016 * k - 1 + d for d in (-2016, -2, -1, 0, 1, 2, 2015, 2016)]
    for h in heights:
        o = outcome(f, h)
        boundary = (h + 1) % 2016 == 0
        ctx.mon("retarget-window-vs-core")
        case = {"last_height": h}
        if o[0] == "raise":
            if not is_lib_exc(o[1]):
                ctx.violation(f"retarget-window:foreign-exception:{type(o[1]).__name__}", f"retarget_first_height({h}) raised {o[1]!r}", case)
            elif boundary:
                ctx.violation("retarget-window-refused-at-a-period-end", f"retarget_first_height({h}) raised {o[1]!r}; Core measures from {h - 2015}", case)
            else:
                ctx.stats["retarget-window:not-a-period-end-refused"] += 1
            continue
        if o[1] != h - 2015:
            ctx.violation("retarget-window-differs-from-core", f"retarget_first_height({h}) = {o[1]!r}; GetNextWorkRequired measures from nHeight - 2015 = {h - 2015}", case)
        if boundary:
            ctx.classes["retarget:window:period-end"] += 1
        else:
            ctx.stats["retarget-window:not-a-period-end-answered(not judged)"] += 1
    ctx.bulk("retarget:window", len(heights))
    ctx.exhaustive.append(f"retarget_first_height: every height below {heights[-32001] + 1 if len(heights) > 32000 else 0}")


def shard_retarget(ctx: Ctx) -> None:
    selftest_arith(ctx)
    if ctx.inconclusive:
        return
    P = _PowLib()
    reach = _install_reach(ctx)
    rng = ctx.rng
    limits = [("mainnet", None, ra.MAINNET_POW_LIMIT), ("regtest", bytes.fromhex("207fffff"), ra.REGTEST_POW_LIMIT),
              ("signet", bytes.fromhex("1e0377ae"), ra.SIGNET_POW_LIMIT)]
    _retarget_window(ctx, P, rng)
    rounds = 16000 if ctx.tier == "quick" else 400000
    for rnd in range(rounds):
        if ctx.out_of_time():
            break
        lims = list(limits)
        v = (rng.getrandbits(23) | 0x010000) << (8 * rng.randrange(1, 29))
        lims.append(("random", ra.get_compact(v).to_bytes(4, "big"), None))
        for bname, nc in _bits_classes(rng):
            for sname, span in _span_classes(rng):
                lname, lbits, true_limit = lims[rng.randrange(len(lims))] if rng.random() < 0.5 else lims[0]
                first = rng.randrange(GENESIS_TIME, 2**32 - 1)
                last = first + span
                if not 0 <= last < 2**32 + 2 * 10**9:
                    first = GENESIS_TIME + 10**9 if span < 0 else GENESIS_TIME
                    last = first + span
                b = nc.to_bytes(4, "big")
                kw = {} if lbits is None else {"pow_limit_bits": lbits}
                o = outcome(P.next_bits, b, _dt(first, rng), _dt(last, rng), **kw)
                val, _, over = ra.set_compact(nc)
                case = {"bits": b, "first_time": first, "last_time": last, "pow_limit_bits": lbits or "default", "bits_class": bname, "span_class": sname}
                if over:
                    ctx.stat("retarget:overflowing-bits-" + ("refused" if o[0] == "raise" else "answered"))
                    continue
                lim_compact = ra.set_compact(int.from_bytes(lbits, "big") if lbits else 0x1D00FFFF)[0]
                want = ra.calculate_next_work_required(nc, first, last, lim_compact)
                ctx.mon("next-bits-vs-core")
                clamp = max(min(span, 4 * T), T // 4)
                wraps = val * clamp > ra.M256
                hit = (val * clamp & ra.M256) // T > lim_compact
                if o[0] == "raise":
                    ctx.violation("next-bits-raised", f"next_bits({b.hex()}, span {span}s, limit {lname}) raised {o[1]!r}", case)
                else:
                    got = int.from_bytes(o[1], "big")
                    tag = "wrapping-product" if wraps else sname
                    if got != want:
                        ctx.violation(f"next-bits-differs-from-core:{tag}",
                                      f"next_bits({b.hex()}, timespan {span}s, limit {lname}) = {got:08x}; CalculateNextWorkRequired gives {want:08x}", case)
                    if true_limit is not None:
                        want2 = ra.calculate_next_work_required(nc, first, last, true_limit)
                        ctx.classes["retarget:true-powlimit"] += 1
                        if got != want2:
                            ctx.violation("next-bits-differs-from-core:true-powlimit",
                                          f"next_bits({b.hex()}, timespan {span}s) = {got:08x}; Core with the {lname} uint256 powLimit gives {want2:08x}", case)
                if rnd < 4000:
                    ctx.case(f"retarget:{sname}", (nc, first, last, lbits), sample=case)
                else:  # distinct by construction (fresh random times): keep the distinct-set small in the thorough tier
                    ctx.bulk(f"retarget:{sname}", 1)
                ctx.classes[f"retarget:bits:{bname}"] += 1
                if wraps:
                    ctx.classes["retarget:product-wraps"] += 1
                if hit:
                    ctx.classes["retarget:limit-hit"] += 1
    reach.stop()
    reach.report(ctx)


def _judge_work(ctx: Ctx, P: _PowLib, nc: int) -> None:
    b = nc.to_bytes(4, "big")
    want = ra.get_block_proof(nc)
    val, neg, over = ra.set_compact(nc)
    o = outcome(P.block_work, b)
    ctx.mon("work-vs-core")
    case = {"bits": b, "core_work": hex(want)}
    if want:
        ctx.classes["work:valid"] += 1
        if o[0] == "raise":
            ctx.violation("block-work-refuses-valid-target", f"block_work({b.hex()}) raised {o[1]!r}; GetBlockProof = {hex(want)}", case)
        elif o[1] != want:
            ctx.violation("block-work-differs", f"block_work({b.hex()}) = {o[1]!r}; GetBlockProof = {hex(want)}", case)
    else:
        ctx.classes["work:core-zero"] += 1
        if o[0] == "raise":
            _lib_raise_ok(ctx, o, "block_work", case)
            ctx.stat("work:core-zero-refused")
        elif o[1] != 0:
            kind = "overflow" if over else "negative" if neg else "zero"
            ctx.violation(f"block-work-{kind}-bits-credited",
                          f"block_work({b.hex()}) = {o[1]!r} but GetBlockProof is 0 for {kind} bits (SetCompact: value {hex(val)}, fNegative={neg}, fOverflow={over})", case)
        else:
            ctx.stat("work:core-zero-answered-zero")


def shard_work(ctx: Ctx) -> None:
    selftest_arith(ctx)
    if ctx.inconclusive:
        return
    P = _PowLib()
    reach = _install_reach(ctx)
    rng = ctx.rng
    n = 0
    for e in range(256):
        for hi in range(256):
            for lo in (0, 0xFFFF):
                _judge_work(ctx, P, (e << 24) | (hi << 16) | lo)
                n += 1
    ctx.bulk("work:leading-patterns", n)
    ctx.exhaustive.append("block_work: every (exponent, top significand byte) x tails {0000, ffff}")
    for _ in range(1_500_000 if ctx.tier == "quick" else 30_000_000):
        if ctx.out_of_time():
            break
        _judge_work(ctx, P, rng.getrandbits(32) if rng.random() < 0.5 else ((rng.randrange(1, 34) << 24) | rng.getrandbits(23)))
        ctx.evaluations += 1
    # cumulative work over sequences of creditable bits
    for _ in range(400 if ctx.tier == "quick" else 4000):
        seq = []
        while len(seq) < rng.randrange(0, 12):
            nc = (rng.randrange(3, 33) << 24) | rng.getrandbits(23)
            if ra.get_block_proof(nc):
                seq.append(nc)
        o = outcome(P.chain_work, [x.to_bytes(4, "big") for x in seq])
        want = sum(ra.get_block_proof(x) for x in seq)
        if o[0] == "raise" or o[1] != want:
            ctx.violation("chain-work-differs", f"chain_work over {len(seq)} headers = {o[1]!r}; sum of GetBlockProof = {want}", {"bits": [hex(x) for x in seq]})
        ctx.case("work:chain", tuple(seq))
    reach.stop()
    reach.report(ctx)


# ============================================================ block generator
def _script(rng, kind: str | None = None) -> bytes:
    kind = kind or rng.choice(["p2pkh", "p2sh", "p2wpkh", "p2wsh", "p2tr", "p2pk", "opreturn", "empty", "bare", "opreturn-bare", "long"])
    r = lambda n: rng.getrandbits(8 * n).to_bytes(n, "big") if n else b""  # noqa: E731
    if kind == "p2pkh":
        return b"\x76\xa9\x14" + r(20) + b"\x88\xac"
    if kind == "p2sh":
        return b"\xa9\x14" + r(20) + b"\x87"
    if kind == "p2wpkh":
        return b"\x00\x14" + r(20)
    if kind == "p2wsh":
        return b"\x00\x20" + r(32)
    if kind == "p2tr":
        return b"\x51\x20" + r(32)
    if kind == "p2pk":
        return b"\x21\x02" + r(32) + b"\xac"
    if kind == "opreturn":
        n = rng.randrange(0, 76)
        return b"\x6a" + bytes([n]) + r(n)
    if kind == "opreturn-bare":
        return b"\x6a"
    if kind == "empty":
        return b""
    if kind == "long":
        return r(rng.randrange(76, 400))
    return r(rng.randrange(1, 40))


class GenBlock:
    """A block written by the reference codec: raw transactions, the scripts they spend, header fields."""

    def __init__(self, txs, prev_scripts, prev_hash, time, version=0x20000000):
        self.txs, self.prev_scripts, self.prev_hash, self.time, self.version = txs, prev_scripts, prev_hash, time, version

    @property
    def segwit(self) -> bool:
        return any(t.has_witness for t in self.txs)


def _gen_spend(rng, segwit: bool, n_out: int | None = None, script_kinds=None) -> tuple[rm.RawTx, list[bytes]]:
    n_in = rng.choice([1, 1, 1, 2, 3])
    vin, prevs = [], []
    for _ in range(n_in):
        wit = []
        if segwit and rng.random() < 0.8:
            wit = [rng.getrandbits(8 * k).to_bytes(k, "big") if k else b"" for k in (rng.choice([0, 1, 32, 33, 64, 71, 72]) for _ in range(rng.randrange(1, 4)))]
            if not any(wit) and rng.random() < 0.5:
                wit = [b"\x01"]
        ss = b"" if wit and rng.random() < 0.7 else rng.getrandbits(8 * 20).to_bytes(20, "big")[:rng.randrange(0, 21)]
        vin.append((_h(rng), rng.randrange(0, 5), ss, rng.choice([0xFFFFFFFF, 0xFFFFFFFE, 0, rng.getrandbits(32)]), wit))
        prevs.append(_script(rng, rng.choice([None, None, "empty", "p2wpkh", "p2tr"])))
    if segwit and not any(i[4] for i in vin):
        vin[0] = vin[0][:4] + ([b"\x30" + _h(rng), b"\x02" + _h(rng)],)
    n_out = n_out or rng.choice([1, 1, 2, 2, 3, 5])
    vout = [(rng.randrange(0, 10**9), _script(rng, rng.choice(script_kinds) if script_kinds else None)) for _ in range(n_out)]
    return rm.RawTx(rng.choice([1, 2]), vin, vout, rng.choice([0, 0, rng.randrange(1, 800000)])), prevs


def _coinbase(rng, txs_after: list[rm.RawTx], segwit: bool, style: str = "normal", extra_out: int = 0) -> rm.RawTx:
    """``style``: normal | wrong | missing | first-right-last-wrong | first-wrong-last-right | short-prefix | trailing."""
    height = rng.randrange(17, 900000)
    hb = height.to_bytes(3, "little")
    en = rng.getrandbits(8 * 8).to_bytes(8, "big")[:rng.randrange(0, 9)]
    script_sig = b"\x03" + hb + bytes([len(en)]) + en
    nonce = _h(rng) if rng.random() < 0.5 else bytes(32)
    vout = [(50 * 10**8, _script(rng, rng.choice(["p2pkh", "p2wpkh", "p2tr", "p2pk"])))]
    for _ in range(extra_out):
        vout.append((0, _script(rng)))
    cb = rm.RawTx(rng.choice([1, 2]), [(bytes(32), 0xFFFFFFFF, script_sig, 0xFFFFFFFF, [nonce] if segwit else [])], vout, 0)
    if segwit or style != "normal":
        right = rm.witness_commitment([cb] + txs_after, nonce)
        wrong = bytes([right[0] ^ (1 << rng.randrange(8))]) + right[1:] if rng.random() < 0.5 else _h(rng)
        outs = {
            "normal": [rm.commitment_script(right)],
            "trailing": [rm.commitment_script(right, rng.getrandbits(32).to_bytes(4, "big"))],
            "wrong": [rm.commitment_script(wrong)],
            "missing": [],
            "short-prefix": [rm.commitment_script(right)[:37]],
            "first-right-last-wrong": [rm.commitment_script(right), rm.commitment_script(wrong)],
            "first-wrong-last-right": [rm.commitment_script(wrong), rm.commitment_script(right)],
        }[style]
        pos = rng.randrange(1, len(vout) + 1)
        vout[pos:pos] = [(0, s) for s in outs]
        cb = rm.RawTx(cb.version, cb.vin, vout, 0)
    return cb


def gen_block(rng, n_spend: int, segwit: bool, cb_style: str = "normal", script_kinds=None, big_out: int = 0) -> GenBlock:
    spends, prevs = [], []
    for k in range(n_spend):
        tx, p = _gen_spend(rng, segwit and (k == 0 or rng.random() < 0.6), n_out=big_out if (big_out and k == 0) else None,
                           script_kinds=script_kinds)
        spends.append(tx)
        prevs += p
    if segwit and not spends:
        pass  # a lone coinbase with a nonce witness and its commitment
    cb = _coinbase(rng, spends, segwit, cb_style if segwit else "normal", extra_out=rng.choice([0, 0, 1, 2]))
    return GenBlock([cb] + spends, prevs, _h(rng), rng.randrange(GENESIS_TIME, 2**32 - 1))


class _BlockLib:
    def __init__(self):
        from datetime import datetime, timezone

        from btclib.block import Block, BlockHeader, mining
        from btclib.block.block import merkle_root_and_mutated_from_transactions
        from btclib.block.proof_of_work import REGTEST_POW_LIMIT_BITS
        from btclib.tx import Tx

        self.Block, self.BlockHeader, self.mining, self.Tx = Block, BlockHeader, mining, Tx
        self.mrm_tx = merkle_root_and_mutated_from_transactions
        self.REGTEST = REGTEST_POW_LIMIT_BITS
        self.dt = lambda ts: datetime.fromtimestamp(ts, timezone.utc)

    def txs(self, raws):
        return [self.Tx.parse(t.serialize(True), check_validity=False) for t in raws]

    def mined_header(self, version, prev_internal, root_internal, time, bits=None, start_nonce=0):
        """A header carrying exactly this root (display order fields), solved by ``mining.mine``."""
        h = self.BlockHeader(version, prev_internal[::-1], root_internal[::-1], self.dt(time), bits or self.REGTEST, start_nonce)
        return self.mining.mine(h, 1 << 14)


def ref_commitments_ok(root_in_header: bytes, txs: list[rm.RawTx]) -> tuple[bool, str]:
    """Core's CheckBlock merkle part + BIP141 as far as the property reaches (see ASSUMPTIONS for the legacy view)."""
    root, mut = rm.block_merkle_root(txs)
    if root != root_in_header:
        return False, "root"
    if mut:
        return False, "mutated"
    if any(t.has_witness for t in txs):
        ci = rm.commitment_index(txs[0])
        if ci is None:
            return False, "unexpected-witness"
        stack = txs[0].vin[0][4]
        if len(stack) != 1 or len(stack[0]) != 32:
            return False, "nonce-size"
        if rm.witness_commitment(txs, stack[0]) != txs[0].vout[ci][1][6:38]:
            return False, "commitment"
    return True, ""


def _with_witness(tx: rm.RawTx, k: int, stack) -> rm.RawTx:
    vin = list(tx.vin)
    vin[k] = vin[k][:4] + (list(stack),)
    return rm.RawTx(tx.version, vin, tx.vout, tx.locktime)


# ===================================================================== blocks
def _assert_block(ctx: Ctx, B: _BlockLib, header, raws):
    blk = B.Block(header, B.txs(raws), check_validity=False)
    return outcome(blk.assert_valid, B.REGTEST)


def _tamper(ctx: Ctx, B: _BlockLib, kind: str, g: GenBlock, header, raws: list[rm.RawTx], root_internal: bytes | None, desc: dict) -> None:
    """One edited block.  ``root_internal`` None: keep the solved header; else re-mine a header carrying that root."""
    if root_internal is not None:
        header = B.mined_header(g.version, g.prev_hash, root_internal, g.time)
        if header is None:
            ctx.stat("block:mining-gave-up")
            return
    hdr_root = header.merkle_root[::-1]
    ok, why = ref_commitments_ok(hdr_root, raws)
    if ok:
        ctx.stat(f"block:edit-leaves-block-valid:{kind}")
        return
    o = _assert_block(ctx, B, header, raws)
    ctx.mon("tamper-must-raise")
    case = {**desc, "edit": kind, "reference_reason": why, "header": header.serialize(check_validity=False),
            "transactions": [t.serialize(True) for t in raws[:6]]}
    if o[0] == "ok":
        ctx.violation(f"invalid-block-accepted:{why}:{kind}",
                      f"Block.assert_valid accepts a block whose {why} does not hold after edit '{kind}' ({len(raws)} transactions)", case)
    else:
        _lib_raise_ok(ctx, o, "Block.assert_valid", case)
        ctx.stat("block:refusal:" + " ".join(str(o[1]).split()[:3]).rstrip(":"))
    ctx.case(f"block:tamper:{kind}", (kind, header.hash, tuple(t.wtxid for t in raws)), sample={**desc, "edit": kind, "reference_reason": why})


def _flip(b: bytes, rng) -> bytes:
    i = rng.randrange(len(b))
    return b[:i] + bytes([b[i] ^ (1 << rng.randrange(8))]) + b[i + 1:]


def _check_block(ctx: Ctx, B: _BlockLib, g: GenBlock) -> None:
    rng = ctx.rng
    raws = g.txs
    n = len(raws)
    root, mut = rm.block_merkle_root(raws)
    assert not mut
    desc = {"transactions": n, "segwit": g.segwit}
    txs = B.txs(raws)
    # the root the library derives from the transactions
    o = outcome(B.mrm_tx, txs)
    if o[0] == "raise" or o[1] != (root[::-1], False):
        ctx.violation("block-merkle-root-differs", f"merkle_root_and_mutated_from_transactions over {n} transactions: {o[1]!r}; Core: {root[::-1].hex()}",
                      {**desc, "transactions_raw": [t.serialize(True) for t in raws[:8]]})
    ctx.mon("root-vs-core")
    o = outcome(B.mining.candidate_block_header, g.prev_hash[::-1], txs, B.dt(g.time), B.REGTEST)
    if o[0] == "raise" or o[1].merkle_root != root[::-1]:
        ctx.violation("candidate-header-root-differs", f"candidate_block_header: {o[1]!r}", desc)
        return
    header = B.mining.mine(o[1], 1 << 14)
    if header is None:
        ctx.stat("block:mining-gave-up")
        return
    ok, why = ref_commitments_ok(root, raws)
    assert ok, why
    o = _assert_block(ctx, B, header, raws)
    if o[0] == "raise":
        ctx.inconclusive_(f"a generated block the reference holds valid is refused by Block.assert_valid: {o[1]!r}"[:280])
        ctx.stat("block:baseline-refused")
        return
    ctx.case("block:baseline", (header.hash,), sample={**desc, "block_hash": header.hash})
    blk = B.Block(header, txs, check_validity=False)
    if g.segwit:
        ctx.classes["block:baseline-segwit"] += 1
        ci = rm.commitment_index(raws[0])
        o = outcome(lambda: blk.witness_commitment)
        ctx.stat("block:witness_commitment-property-" + ("differs" if o[0] == "raise" or o[1] != raws[0].vout[ci][1][6:38] else "is-last-matching-output"))
    # wire round trip against the reference serialization
    o = outcome(blk.serialize, True, check_validity=False)
    want = rm.RawBlock(header.serialize(check_validity=False), raws).serialize(True)
    if o[0] == "raise" or o[1] != want:
        ctx.stat("block:serialization-differs-from-reference")

    T = lambda kind, rw, rt=None: _tamper(ctx, B, kind, g, header, rw, rt, desc)  # noqa: E731
    # --- header root
    T("header-root", raws, _flip(root, rng))
    T("header-root", raws, rm.dsha256(root))
    if n > 1:
        T("header-root", raws, rm.block_merkle_root(raws[:-1])[0])
    # --- transactions under an unchanged header
    k = rng.randrange(n)
    t = raws[k]
    vout = list(t.vout)
    j = rng.randrange(len(vout))
    vout[j] = (vout[j][0] ^ 1, vout[j][1])
    T("tx-edit", raws[:k] + [rm.RawTx(t.version, t.vin, vout, t.locktime)] + raws[k + 1:])
    if n > 2:
        a, b = rng.sample(range(1, n), 2)
        sw = list(raws)
        sw[a], sw[b] = sw[b], sw[a]
        T("tx-swap", sw)
    if n > 1:
        T("tx-drop", raws[:-1])
        T("tx-drop", raws[:1] + raws[2:])
    foreign, _ = _gen_spend(rng, False)
    T("tx-append", raws + [foreign])
    # duplicated tail: the same root as the header's, so only the mutation flag can refuse it.  The witness tree is
    # kept consistent (commitment recomputed would change the coinbase), so this is run on witness-free blocks
    if not g.segwit:
        ids = list(range(n))
        d = rm.duplicated_tail(ids)
        for _ in range(2):
            if d is None:
                break
            T("dup-tail", [raws[i] for i in d])
            d = rm.duplicated_tail(d)
    if not g.segwit:
        return
    # --- witnesses and the commitment
    wk = [i for i in range(1, n) if raws[i].has_witness]
    if wk:
        i = rng.choice(wk)
        t = raws[i]
        ins = [q for q in range(len(t.vin)) if t.vin[q][4]]
        q = rng.choice(ins)
        st = list(t.vin[q][4])
        e = rng.randrange(len(st))
        st[e] = _flip(st[e], rng) if st[e] else b"\x00"
        T("witness-edit", raws[:i] + [_with_witness(t, q, st)] + raws[i + 1:])
        T("witness-edit", raws[:i] + [_with_witness(t, q, list(t.vin[q][4]) + [b""])] + raws[i + 1:])
        stripped = t
        for q2 in ins:
            stripped = _with_witness(stripped, q2, [])
        T("witness-strip-one", raws[:i] + [stripped] + raws[i + 1:])
        if len(wk) > 1:
            i2 = rng.choice([x for x in wk if x != i])
            t2 = raws[i2]
            q2 = [z for z in range(len(t2.vin)) if t2.vin[z][4]][0]
            if t.vin[q][4] != t2.vin[q2][4]:
                T("witness-swap", [(_with_witness(t, q, t2.vin[q2][4]) if x == i else _with_witness(t2, q2, t.vin[q][4]) if x == i2 else raws[x])
                                   for x in range(n)])
    cb = raws[0]
    nonce = cb.vin[0][4][0]
    for st in ([_flip(nonce, rng)], [nonce[:31]], [nonce + b"\x00"], [nonce, nonce], [nonce, b""]):
        T("nonce", [_with_witness(cb, 0, st)] + raws[1:])
    if wk:
        T("nonce", [_with_witness(cb, 0, [])] + raws[1:])
    # coinbase edits move the header root: re-mined, so that the commitment is the only thing wrong
    ci = rm.commitment_index(cb)
    right = cb.vout[ci][1]

    def cb_with(outs_at_ci: list[bytes]) -> list[rm.RawTx]:
        vout = list(cb.vout)
        vout[ci:ci + 1] = [(0, s) for s in outs_at_ci]
        c2 = rm.RawTx(cb.version, cb.vin, vout, 0)
        return [c2] + raws[1:]

    wrong = right[:6] + _flip(right[6:38], rng) + right[38:]
    for kind, outs in (("commitment-wrong", [wrong]), ("commitment-wrong", [right[:6] + _h(rng)]), ("commitment-missing", []),
                       ("commitment-missing", [right[:37]]), ("commitment-missing", [b"\x6a\x24\xaa\x21\xa9\xee" + right[6:]]),
                       ("last-commitment-wrong", [right, wrong]), ("last-commitment-right", [wrong, right])):
        rw = cb_with(outs)
        if kind == "commitment-missing" and not wk:
            rw = [rw[0]] + raws[1:]  # the coinbase nonce alone is a witness: still unexpected
        T(kind, rw, rm.block_merkle_root(rw)[0])


def shard_blocks(ctx: Ctx) -> None:
    selftest_merkle(ctx)
    if ctx.inconclusive:
        return
    B = _BlockLib()
    reach = _install_reach(ctx)
    rng = ctx.rng
    quick = ctx.tier == "quick"
    counts = [0, 1, 2, 3, 4, 5, 6, 7, 8, 9, 11, 12, 15, 16, 17, 24, 31, 33]
    it = 0
    for rnd in range(60 if quick else 2000):
        for n_spend in counts:
            for segwit in (False, True):
                if ctx.out_of_time():
                    break
                style = "normal" if rng.random() < 0.7 else rng.choice(["trailing", "first-wrong-last-right"])
                g = gen_block(rng, n_spend, segwit, style)
                _check_block(ctx, B, g)
                it += 1
    if ctx.out_of_time():
        ctx.notes.append(f"{ctx.shard}: budget reached after {it} blocks")
    reach.stop()
    reach.report(ctx)


# ==================================================================== filters
def _check_filter(ctx: Ctx, B: _BlockLib, F, g: GenBlock, mined: bool, collide: bool = False) -> None:
    rng = ctx.rng
    raws = g.txs
    root = rm.block_merkle_root(raws)[0]
    if mined:
        header = B.mined_header(g.version, g.prev_hash, root, g.time)
        if header is None:
            return
    else:
        header = B.BlockHeader(g.version, g.prev_hash[::-1], root[::-1], B.dt(g.time), B.REGTEST, rng.getrandbits(32))
    h80 = header.serialize(check_validity=False)
    block_hash = rm.dsha256(h80)  # internal order
    blk = B.Block(header, B.txs(raws), check_validity=False)
    key = rg.key_from_block_hash(block_hash)
    if collide and len(g.prev_scripts) >= 2:
        # two *different* spent scripts that hash to one value of [0, N*M): BIP158 keeps both (the second as a delta of
        # zero). The key is the block hash, which the spent scripts are not part of, so a pair can be searched for
        def fresh():
            return b"\x76\xa9\x14" + rng.randbytes(20) + b"\x88\xac"
        g.prev_scripts[0], g.prev_scripts[1] = fresh(), fresh()
        n0 = len(rg.basic_filter_elements(raws, g.prev_scripts))
        seen: dict[int, bytes] = {}
        for _ in range(60000):
            c = fresh()
            v = rg.hash_to_range(c, n0 * rg.BASIC_M, key)
            if v in seen and seen[v] != c:
                g.prev_scripts[0], g.prev_scripts[1] = seen[v], c
                ctx.classes["filter:two-scripts-one-hashed-value"] += 1
                break
            seen[v] = c
    items = rg.basic_filter_elements(raws, g.prev_scripts)
    want = rg.serialized_filter(items, block_hash)
    n = len(items)
    all_scripts = [s for t in raws for _, s in t.vout] + list(g.prev_scripts)
    excluded = [s for s in all_scripts if not s or s[0] == 0x6A]
    desc = {"elements": n, "block": h80 + rm.ser_compact_size(len(raws)) + b"".join(t.serialize(True) for t in raws[:4]),
            "prev_scripts": g.prev_scripts[:6]}
    o = outcome(F.BasicBlockFilter.from_block, blk, list(g.prev_scripts))
    if o[0] == "raise":
        ctx.violation("filter-construction-raised", f"BasicBlockFilter.from_block raised {o[1]!r} ({n} elements)", desc)
        return
    f = o[1]
    ser = outcome(f.serialize)
    ctx.mon("filter-vs-ref")
    if ser[0] == "raise" or ser[1] != want or f.element_count != n:
        how = "count" if f.element_count != n else "bytes"
        ctx.violation(f"filter-differs-from-bip158:{how}",
                      f"from_block: N={f.element_count}, {ser[1]!r:.200}; BIP158 reference: N={n}, {want.hex()[:160]}", {**desc, "reference": want})
    ctx.case("filter:bytes-vs-ref", (block_hash,), sample={"elements": n, "filter": want[:64]})
    if n == 0:
        ctx.classes["filter:empty"] += 1
    if excluded:
        ctx.classes["filter:opreturn-or-empty-script-excluded"] += 1
    if f.block_hash != block_hash[::-1]:
        ctx.stat("filter:block_hash-field-differs")
    # every inserted element matches
    for it in items:
        o = outcome(f.match, it)
        ctx.mon("filter-must-match")
        if o[0] == "raise" or o[1] is not True:
            ctx.violation("filter-false-negative", f"filter built from the block does not match its own script {it.hex()[:80]} -> {o[1]!r}", {**desc, "element": it})
    ctx.bulk("filter:match-inserted", n)
    if n:
        some = rng.sample(sorted(items), min(3, n))
        o = outcome(f.match_any, [_script(rng, "p2tr"), _script(rng, "p2pkh")] + some[:1])
        ctx.mon("filter-must-match")
        if o[0] == "raise" or o[1] is not True:
            ctx.violation("filter-false-negative:match_any", f"match_any with an inserted script among strangers -> {o[1]!r}", {**desc, "element": some[0]})
        # many strangers around one member (the member with the smallest and the largest hash, and a random one): the
        # walk over the two sorted sequences has to pass every stranger hashing below the member
        by_hash = sorted(items, key=lambda e: rg.hash_to_range(e, n * rg.BASIC_M, key))
        for member in {by_hash[0], by_hash[-1], rng.choice(by_hash)}:
            for k in (2, 7, 40):
                kinds = ("p2tr", "p2pkh", "p2wsh", "p2wpkh")
                query = [_script(rng, kinds[j % 4]) for j in range(k)] + [member]
                rng.shuffle(query)
                o = outcome(f.match_any, query)
                ctx.mon("filter-must-match")
                if o[0] == "raise" or o[1] is not True:
                    ctx.violation("filter-false-negative:match_any", f"match_any({k} strangers + one inserted script) -> {o[1]!r} ({n} elements)",
                                  {**desc, "element": member, "strangers": k})
        ctx.bulk("filter:match_any-among-strangers", 9)
        # strangers only: the exact verdict is the reference's (a false positive is an answer the filter is entitled to)
        query = [_script(rng, "p2wsh") for _ in range(25)]
        hs = set(rg.hashed_set_construct(items, key))
        want_any = any(rg.hash_to_range(q, n * rg.BASIC_M, key) in hs for q in query)
        o = outcome(f.match_any, query)
        if o[0] == "raise" or o[1] is not want_any:
            ctx.violation("filter-match_any-differs-from-bip158", f"match_any(25 strangers) -> {o[1]!r}, BIP158 reference says {want_any}", desc)
    o = outcome(f.match, _script(rng, "p2wsh"))
    ctx.stat("filter:stranger-" + ("matches(false-positive)" if o[0] == "ok" and o[1] else "rejected"))
    for s in excluded[:2]:
        if s and s not in items:
            o = outcome(f.match, s)
            ctx.stat("filter:excluded-script-" + ("matches" if o[0] == "ok" and o[1] else "rejected"))
    # decodes to the set it encodes
    hashed = sorted(rg.hashed_set_construct(items, key))
    o = outcome(lambda: f.element_hashes)
    if o[0] == "raise" or list(o[1]) != hashed:
        ctx.violation("filter-decodes-to-another-set", f"element_hashes {str(o[1])[:200]} != reference hashed set {str(hashed)[:200]}", desc)
    ctx.bulk("filter:decoded-set", 1)
    deltas = [b - a for a, b in zip([0] + hashed, hashed)]
    if any(d >> rg.BASIC_P >= 2 for d in deltas):
        ctx.classes["filter:quotient>=2"] += 1
    if any(d >> rg.BASIC_P >= 8 for d in deltas):
        ctx.stat("filter:filters-with-a-quotient>=8")
    # parse(serialize) gives the same filter, and the reference bytes parse to it as well
    for src in ([ser[1]] if ser[0] == "ok" else []) + [want]:
        o = outcome(F.BasicBlockFilter.parse, src, block_hash[::-1])
        if o[0] == "raise":
            ctx.violation("filter-roundtrip", f"BasicBlockFilter.parse raised {o[1]!r} on {'its own' if src is not want else 'the reference'} serialization", {**desc, "serialized": src})
            continue
        g2 = o[1]
        if src is not want and g2 != f:
            ctx.violation("filter-roundtrip", f"parse(serialize(filter)) != filter: {g2!r:.200}", {**desc, "serialized": src})
        if src is want:
            for it in rng.sample(sorted(items), min(4, n)):
                o = outcome(g2.match, it)
                ctx.mon("filter-must-match")
                if o[0] == "raise" or o[1] is not True:
                    ctx.violation("filter-false-negative:reference-bytes", f"the BIP158 reference filter, parsed, does not match {it.hex()[:80]}", {**desc, "element": it})
            o = outcome(lambda: g2.element_hashes)
            if o[0] == "raise" or list(o[1]) != hashed:
                ctx.violation("filter-decodes-to-another-set:reference-bytes", f"decoding the reference bytes gives {str(o[1])[:200]}", desc)
    ctx.bulk("filter:roundtrip", 2)
    # filter header chain and the cfilter message
    prev = _h(rng)
    o = outcome(f.header, prev[::-1])
    ctx.stat("filter:bip157-header-" + ("differs" if o[0] == "raise" or o[1] != rg.filter_header(want, prev)[::-1] else "agrees"))
    o = outcome(lambda: F.CFilter(0, block_hash[::-1], want).basic_filter)
    if o[0] == "raise" or o[1] != f:
        ctx.stat("filter:cfilter-reading-differs")
    ctx.bulk("filter:header", 1)


def shard_filters(ctx: Ctx) -> None:
    selftest_merkle(ctx, heavy=False)
    selftest_gcs(ctx)
    if ctx.inconclusive:
        return
    B = _BlockLib()

    class F:
        from btclib.block.block_filter import BasicBlockFilter
        from btclib.p2p.block_filters import CFilter

    reach = _install_reach(ctx)
    rng = ctx.rng
    quick = ctx.tier == "quick"
    it = 0
    for rnd in range(36 if quick else 1000):
        plans = [(0, False, ["opreturn", "empty", "opreturn-bare"], 0), (0, False, None, 0), (1, False, None, 0), (1, True, None, 0),
                 (2, True, None, 0), (3, False, ["p2pkh", "p2pkh", "empty", "opreturn"], 0), (5, True, None, 0), (9, False, None, 0),
                 (17, True, None, 0), (40, True, None, 0), (3, False, None, 150 if quick else 400), (2, True, None, 1200 if quick else 6000),
                 (120 if quick else 500, False, None, 0)]
        for n_spend, segwit, kinds, big in plans:
            if ctx.out_of_time():
                break
            g = gen_block(rng, n_spend, segwit, "normal", kinds, big)
            if kinds and "empty" in kinds and n_spend == 0:
                # nothing at all to insert: coinbase paying to OP_RETURN / empty scripts only
                cb = g.txs[0]
                g.txs[0] = rm.RawTx(cb.version, cb.vin, [(v, _script(rng, rng.choice(kinds))) for v, _ in cb.vout], 0)
            if rng.random() < 0.3 and g.prev_scripts:
                # a spent script equal to an output script, and a repeated one: the set holds each once
                outs = [s for t in g.txs for _, s in t.vout if s]
                if outs:
                    g.prev_scripts[0] = rng.choice(outs)
                if len(g.prev_scripts) > 1:
                    g.prev_scripts[-1] = g.prev_scripts[0]
            _check_filter(ctx, B, F, g, mined=(it % 5 == 0), collide=(n_spend in (1, 2, 3, 5, 17) and it % 3 == 1))
            it += 1
    if ctx.out_of_time():
        ctx.notes.append(f"{ctx.shard}: budget reached after {it} filters")
    reach.stop()
    reach.report(ctx)


# ============================================================= compact blocks
def _check_cmpct(ctx: Ctx, B: _BlockLib, C, g: GenBlock, weak_bits: int | None) -> None:
    """One block -> compact block -> several pools.  ``weak_bits``: short ids cut to that many bits (injected collisions)."""
    rng = ctx.rng
    raws = g.txs
    n = len(raws)
    root = rm.block_merkle_root(raws)[0]
    header = B.mined_header(g.version, g.prev_hash, root, g.time)
    if header is None:
        return
    h80 = header.serialize(check_validity=False)
    txs = B.txs(raws)
    block = B.Block(header, txs, check_validity=False)
    want_bytes = rm.RawBlock(h80, raws).serialize(True)
    nonce = rng.choice([0, 1, (1 << 64) - 1, rng.getrandbits(64)])
    mask = (1 << weak_bits) - 1 if weak_bits else 0xFFFFFFFFFFFF
    sid = lambda t: rg.short_id(h80, nonce, t.wtxid) & mask  # noqa: E731
    arm = "siphash:weak-injected" if weak_bits else "siphash:real"
    # which transactions ride prefilled
    style = rng.choice(["coinbase-only", "coinbase-only", "some", "all", "none"])
    pre = {"coinbase-only": {0}, "some": {0} | {i for i in range(1, n) if rng.random() < 0.3}, "all": set(range(n)),
           "none": set()}[style]
    short_ids = [sid(raws[i]) for i in range(n) if i not in pre]
    desc = {"transactions": n, "prefilled": sorted(pre), "nonce": nonce, "arm": arm, "segwit": g.segwit, "header": h80}
    pf = [C.PrefilledTransaction(i, txs[i]) for i in sorted(pre)]
    o = outcome(C.CmpctBlock, header, nonce, short_ids, pf)
    if o[0] == "raise":
        ctx.violation("cmpct-construction-raised", f"CmpctBlock(...) raised {o[1]!r}", desc)
        return
    cb = o[1]
    if not weak_bits:
        # the library's own short ids against BIP152
        for i in range(n):
            o = outcome(cb.short_id, txs[i].hash)
            if o[0] == "raise" or o[1] != sid(raws[i]):
                how = "segwit-tx" if raws[i].has_witness else "legacy-tx"
                ctx.violation(f"short-id-differs-from-bip152:{how}", f"CmpctBlock.short_id(wtxid) = {o[1]!r}; BIP152 gives {sid(raws[i])}",
                              {**desc, "tx": raws[i].serialize(True)})
        ctx.bulk("cmpct:short-id", n)
        o = outcome(lambda: C.CmpctBlock.parse(cb.serialize()))
        if o[0] == "raise" or o[1] != cb:
            ctx.stat("cmpct:wire-roundtrip-differs")
        else:
            cb = o[1]  # what a peer would hold after the wire
        ctx.bulk("cmpct:wire-roundtrip", 1)
    if len(set(short_ids)) != len(short_ids):
        o = outcome(C.reconstruct, cb, txs)
        ctx.stat("cmpct:duplicate-short-ids-in-block-" + ("refused(re-request)" if o[0] == "raise" else "answered"))
        return
    needed = [i for i in range(n) if i not in pre]
    foreign_raw = [_gen_spend(rng, rng.random() < 0.5)[0] for _ in range(rng.choice([0, 3, 12, 40]) if not weak_bits else 60)]
    # a witness-malleated copy of a needed segwit transaction: same txid, other wtxid
    mall = []
    for i in needed:
        if raws[i].has_witness and rng.random() < 0.5:
            q = [z for z in range(len(raws[i].vin)) if raws[i].vin[z][4]][0]
            mall.append(_with_witness(raws[i], q, list(raws[i].vin[q][4]) + [b"\x01"]))
    foreign_raw += mall
    foreign = B.txs(foreign_raw)
    pools = [("exact-pool", [i for i in needed], [])]
    order = list(needed)
    rng.shuffle(order)
    pools.append(("superset-shuffled", order + sorted(pre), list(range(len(foreign)))))
    if needed:
        keep = [i for i in needed if rng.random() < 0.6]
        pools.append(("lacking", keep, list(range(len(foreign)))[: len(foreign) // 2]))
        pools.append(("lacking", [], []))
        pools.append(("duplicates-in-pool", needed + needed[:2], []))
    for pname, own, fidx in pools:
        pool = [(txs[i], raws[i]) for i in own] + [(foreign[k], foreign_raw[k]) for k in fidx]
        if pname != "exact-pool":
            rng.shuffle(pool)
        # reference expectation per short-id slot
        cand: dict[int, set[bytes]] = {}
        for _, r in pool:
            cand.setdefault(sid(r), set()).add(r.wtxid)
        expect_filled, expect_missing, undecided = [], [], []
        for i in needed:
            c = cand.get(sid(raws[i]), set())
            if c == {raws[i].wtxid}:
                expect_filled.append(i)
            elif not c:
                expect_missing.append(i)
            else:
                undecided.append(i)  # a stranger shares the short id: BIP152 leaves it to the merkle check / getblocktxn
        o = outcome(C.reconstruct, cb, [t for t, _ in pool])
        ctx.arm(arm)
        case = {**desc, "pool": pname, "pool_size": len(pool), "expected_missing": expect_missing, "collided": undecided}
        if o[0] == "raise":
            ctx.violation("cmpct-reconstruct-raised", f"reconstruct raised {o[1]!r} ({pname})", case)
            continue
        partial = o[1]
        missing = list(partial.missing_indexes)
        ctx.mon("reconstruct-must-equal")
        unused = [i for i in expect_filled if i in missing]
        if unused:
            how = "segwit-tx" if any(raws[i].has_witness for i in unused) else "legacy-tx"
            ctx.violation(f"cmpct-pool-tx-not-used:{how}",
                          f"{pname}: the pool holds transactions {unused} (unique short id) yet reconstruct leaves them missing {missing}", case)
        phantom = [i for i in expect_missing if i not in missing]
        if phantom:
            ctx.violation("cmpct-slot-filled-from-nowhere", f"{pname}: slots {phantom} have no candidate in the pool but are not reported missing", case)
        wrong_prefilled = [i for i in pre if partial.transactions[i] is None or partial.transactions[i].hash != txs[i].hash]
        if wrong_prefilled:
            ctx.violation("cmpct-prefilled-misplaced", f"{pname}: prefilled positions {wrong_prefilled} do not hold their transaction", case)
        # supply what is reported missing, as a blocktxn answer would
        o = outcome(partial.fill, [txs[i] for i in missing], check_validity=False)
        if o[0] == "raise":
            ctx.violation("cmpct-fill-raised", f"{pname}: fill({len(missing)} transactions) raised {o[1]!r}", case)
            continue
        rebuilt = o[1]
        same = outcome(rebuilt.serialize, True, check_validity=False)
        equal = same[0] == "ok" and same[1] == want_bytes
        if equal and rebuilt != block:
            ctx.stat("cmpct:bytes-equal-but-objects-differ")
        if not equal:
            strangers = [i for i in undecided if i not in missing]
            held = [i for i in strangers if raws[i].wtxid in cand.get(sid(raws[i]), set())]
            v = outcome(rebuilt.assert_valid, B.REGTEST)
            if held:
                ctx.violation("cmpct-collision-mishandled",
                              f"{pname}: slots {held} collide with a stranger while the pool also holds the right transaction; "
                              f"neither used nor reported missing, the rebuilt block differs ({v[1]!r})", case)
            elif strangers and v[0] == "raise":
                ctx.stat("cmpct:stranger-in-slot-caught-by-validation")
            elif v[0] == "ok":
                ctx.violation("cmpct-wrong-block-accepted", f"{pname}: the rebuilt block differs from the original and passes assert_valid", case)
            else:
                ctx.violation("cmpct-reconstruction-differs", f"{pname}: every missing transaction supplied, yet the block differs from the original ({v[1]!r})", case)
        ctx.case(f"cmpct:{pname}", (h80, nonce, pname, len(pool), weak_bits), sample=case)
        if undecided:
            ctx.classes["cmpct:collision-injected" if weak_bits else "cmpct:collision-real"] += 1
        if any(raws[i].has_witness for i in own if i in needed):
            ctx.classes["cmpct:segwit-tx-in-pool"] += 1
        if mall and fidx:
            ctx.classes["cmpct:witness-malleated-copy-in-pool"] += 1


def shard_cmpct(ctx: Ctx) -> None:
    selftest_merkle(ctx, heavy=False)
    selftest_gcs(ctx)
    if ctx.inconclusive:
        return
    B = _BlockLib()
    from btclib.p2p import compact_blocks as C

    reach = _install_reach(ctx)
    rng = ctx.rng
    quick = ctx.tier == "quick"
    it = 0
    for rnd in range(130 if quick else 4000):
        for n_spend in (0, 1, 2, 3, 5, 8, 13, 21, 40):
            for segwit in (True, False):
                if ctx.out_of_time():
                    break
                g = gen_block(rng, n_spend, segwit)
                _check_cmpct(ctx, B, C, g, None)
                it += 1
                if n_spend and n_spend <= 13:
                    # collisions cannot be found at 48 bits: cut siphash inside compact_blocks to a few bits
                    bits = rng.choice([4, 6, 8, 10])
                    real = C.siphash
                    with patched(C, "siphash", lambda k0, k1, data, _r=real, _m=(1 << bits) - 1: _r(k0, k1, data) & _m):
                        _check_cmpct(ctx, B, C, gen_block(rng, n_spend, segwit), bits)
    if ctx.out_of_time():
        ctx.notes.append(f"{ctx.shard}: budget reached after {it} blocks")
    reach.stop()
    reach.report(ctx)
