"""C14 - descriptors and wallets derive what they describe and recognise only their own.

Reference-model monitor.  Descriptors are generated as *data* (``rv.ref.scripts``) from a
grammar over every function and legal nesting, written to text by the model's own writer
and handed to ``descriptors.parse``; the scripts the library derives at an index are
compared with BIP32 derivation (``rv.ref.bip32``), BIP327/328/390 aggregation
(``rv.ref.bip390``), BIP341 commitments (``rv.ref.taproot``) and hand-written script
templates.  Around that: text round trip, BIP380 checksum against ``rv.ref.descsum``,
exhaustive single-character corruption, BIP389 expansion, ``normalized`` / ``at_index``,
``index_of`` and the four wallet kinds' ``position_of`` / ``assert_derives``.
"""

from __future__ import annotations

import json
import os

from ..ctx import Ctx, is_lib_exc, outcome, tb_origin
from ..hooks import Reach

PROPERTY = "C14"
RULE = (
    "descriptors generated from a grammar over pk, pkh, wpkh, combo, sh, wsh, multi, sortedmulti, tr (trees to depth 4 with pk, "
    "multi_a, sortedmulti_a leaves), rawtr, addr, raw and musig() keys, in every legal nesting; keys are hex (compressed, "
    "uncompressed, x-only, upper case), WIF, xpub/xprv at depth 0..3 with origins, fixed paths, /* and /*h wildcards, both hardened "
    "markers; five networks; indexes {0,1,2,999,1000,2^31-1,uniform}; every descriptor is parsed, derived, written back, "
    "checksummed, normalized, fixed at an index and asked for the index of own and foreign scripts. Corruption: every substitution "
    "(95 charset characters + 5 outside) at every position and every deletion of sampled checksummed descriptors. Multipath: <a;b;..> "
    "steps in one or several keys. Wallets: Key, BIP32Key, Descriptor and Script-template wallets over random branches/indexes. "
    "Distinct = distinct (descriptor text, network, index, operation); every case compares with the reference (non-trivial)."
)
ASSUMPTIONS = [
    "rv/ref/descsum.py is BIP380's reference checksum (checked on the 18 published descriptor checksums on every run)",
    "rv/ref/scripts.py + bip32.py + bip390.py + taproot.py derive what a descriptor describes: checked on every run against Bitcoin "
    "Core's descriptor vectors, the BIP387, BIP390, BIP328, BIP67 and BIP327 key-aggregation vectors and the BIP341 wallet vectors",
    "the network tables (btclib/_data/<network>.json) are the definition of the five networks' version bytes and HRPs",
    "an admissible descriptor that the library refuses at parse time is outside the property (counted, not judged); a parsed one "
    "that it refuses to derive is judged unless the refusal is a documented policy (more than 16 keys, network of an extended key, "
    "script size)",
]
VEC = os.path.join(os.path.dirname(os.path.dirname(os.path.dirname(os.path.abspath(__file__)))), "vectors")
HARD = 0x80000000
NETS = ["mainnet", "testnet", "regtest", "signet", "testnet4"]
FUNCTIONS = ["pk", "pkh", "wpkh", "combo", "sh", "wsh", "multi", "sortedmulti", "tr", "rawtr", "addr", "raw", "multi_a",
             "sortedmulti_a", "musig"]
OUTSIDE = ["é", "\n", "\t", "\x00", "€"]

MECH = [
    "btclib.descriptors.descriptors:checksum", "btclib.descriptors.descriptors:strip_checksum", "btclib.descriptors.descriptors:add_checksum",
    "btclib.descriptors.descriptors:parse", "btclib.descriptors.descriptors:_parse_expression", "btclib.descriptors.descriptors:_parse_tree",
    "btclib.descriptors.descriptors:_parse_multi", "btclib.descriptors.descriptors:_parse_multi_a", "btclib.descriptors.key_expression:_parse_key",
    "btclib.descriptors.key_expression:_parse_musig", "btclib.descriptors.key_expression:KeyExpression.sec",
    "btclib.descriptors.key_expression:KeyExpression.aggregate", "btclib.descriptors.key_expression:KeyExpression.participant_keys",
    "btclib.descriptors.key_expression:KeyExpression.__str__", "btclib.descriptors.descriptors:MultiDescriptor._pub_keys",
    "btclib.descriptors.descriptors:MultiA._script", "btclib.descriptors.descriptors:MultiA._pub_keys",
    "btclib.descriptors.descriptors:_taproot_script_tree", "btclib.descriptors.descriptors:TrDescriptor._scripts",
    "btclib.descriptors.descriptors:ComboDescriptor._scripts", "btclib.descriptors.descriptors:normalized",
    "btclib.descriptors.descriptors:_normalized_key", "btclib.descriptors.descriptors:multipath_descriptors",
    "btclib.descriptors.descriptors:at_index", "btclib.descriptors.descriptors:account_descriptors",
    "btclib.descriptors.descriptors:Descriptor.index_of", "btclib.wallet.wallet:RangedWallet.position_of",
    "btclib.wallet.wallet:RangedWallet.assert_derives", "btclib.wallet.key_wallet:BIP32KeyWallet._address",
    "btclib.wallet.key_wallet:KeyWallet.add", "btclib.wallet.descriptor_wallet:DescriptorWallet.position_of",
    "btclib.wallet.descriptor_wallet:DescriptorWallet._script_pub_key", "btclib.wallet.script_wallet:ScriptWallet._script",
    "btclib.wallet.script_wallet:ScriptWallet._derived_sec", "btclib.wallet.script_wallet:ScriptWallet._quorum",
    "btclib.core_import:import_request",
]


def plan(tier: str, seed: int) -> list[dict]:
    q = tier == "quick"
    specs = [{"name": "oracle-selftest", "fn": "shard_selftest", "_budget_s": 120, "_timeout_s": 600}]
    for i in range(7 if q else 14):
        specs.append({"name": f"derive-{i}", "fn": "shard_derive", "cases": 100000, "focus": None,
                      "_budget_s": 62 if q else 600, "_timeout_s": 500 if q else 2400})
    for i in range(2 if q else 4):
        specs.append({"name": f"sorted-{i}", "fn": "shard_derive", "cases": 100000, "focus": "sorted",
                      "_budget_s": 55 if q else 500, "_timeout_s": 500 if q else 2400})
    for i in range(3 if q else 6):
        specs.append({"name": f"corrupt-{i}", "fn": "shard_corrupt", "descriptors": 14 if q else 150,
                      "_budget_s": 60 if q else 600, "_timeout_s": 500 if q else 2400})
    specs.append({"name": "multipath-0", "fn": "shard_multipath", "cases": 100000,
                  "_budget_s": 50 if q else 400, "_timeout_s": 500 if q else 2400})
    for i in range(3 if q else 6):
        specs.append({"name": f"wallet-{i}", "fn": "shard_wallet", "cases": 100000,
                      "_budget_s": 60 if q else 600, "_timeout_s": 500 if q else 2400})
    return specs


def finalize(m: dict, tier: str) -> list[str]:
    out = []
    st = m["selftest"]
    for k in ("descriptor_checksums.json", "core-descriptor-vectors", "bip387", "bip390", "bip328", "bip67", "bip327-key-agg",
              "bip341-wallet-vectors", "multipath-vector"):
        if not st.get(k):
            out.append(f"oracle self-test {k} did not run")
    c, r, s, mo = m["classes"], m["reached"], m["stats"], m["monitors"]
    for f in FUNCTIONS:
        if not s.get(f"parsed:{f}"):
            out.append(f"descriptor function {f}() never parsed")
        if not s.get(f"derived:{f}"):
            out.append(f"no script of a descriptor holding {f}() was ever compared")
    for k in ("flip:sortedmulti", "flip:sortedmulti_a"):
        if not s.get(k):
            out.append(f"no {k.split(':')[1]} key order flip between indexes occurred")
    for net in NETS:
        if not s.get(f"network:{net}"):
            out.append(f"network {net} never used")
    for k in ("index:0", "index:1", "index:2", "index:999", "index:1000", "index:2147483647", "index:uniform"):
        if not s.get(k):
            out.append(f"derivation {k} never compared")
    for k in ("key:hex", "key:hex-uncompressed", "key:hex-xonly", "key:wif", "key:wif-uncompressed", "key:xpub", "key:xprv", "key:origin",
              "key:wildcard", "key:hardened-wildcard", "key:hardened-step", "key:musig", "key:musig-derived",
              "derive:hardened-wildcard-with-prv-keys", "derive:cannot-derive-refused"):
        if not s.get(k):
            out.append(f"key class {k} never exercised")
    for k in ("scripts", "address", "from_address", "roundtrip", "checksum", "import_request", "index_of:own", "index_of:foreign", "index_of:beyond-range", "normalized", "at_index",
              "corrupt:substitution", "corrupt:deletion", "multipath:expansion", "multipath:scripts", "multipath:corrupt",
              "wallet:BIP32KeyWallet:position_of", "wallet:DescriptorWallet:position_of", "wallet:ScriptWallet:position_of",
              "wallet:BIP32KeyWallet:foreign", "wallet:DescriptorWallet:foreign", "wallet:ScriptWallet:foreign",
              "wallet:BIP32KeyWallet:script", "wallet:DescriptorWallet:script", "wallet:ScriptWallet:script", "wallet:KeyWallet:address",
              "wallet:KeyWallet:foreign", "wallet:assert_derives:own", "wallet:assert_derives:wrong"):
        if not mo.get(k):
            out.append(f"monitor {k} never evaluated")
    for k in ("corrupt:body", "corrupt:hash", "corrupt:checksum", "corrupt:outside-charset"):
        if not c.get(k):
            out.append(f"corruption class {k} never evaluated")
    for f in ("checksum", "strip_checksum", "parse", "_parse_expression", "_parse_tree", "_parse_multi", "_parse_multi_a", "_parse_key",
              "_parse_musig", "KeyExpression.sec", "KeyExpression.aggregate", "KeyExpression.__str__", "MultiDescriptor._pub_keys",
              "MultiA._script", "_taproot_script_tree", "normalized", "multipath_descriptors", "at_index", "account_descriptors",
              "Descriptor.index_of", "RangedWallet.position_of", "RangedWallet.assert_derives", "BIP32KeyWallet._address",
              "DescriptorWallet.position_of", "ScriptWallet._script", "ScriptWallet._derived_sec", "KeyWallet.add"):
        if not r.get(f):
            out.append(f"mechanism {f} never entered")
    return out


# ---------------------------------------------------------------- self-test
def shard_selftest(ctx: Ctx) -> None:
    """The oracles against the published vectors; the library is not consulted."""
    from ..ref import base58 as r58
    from ..ref import bip32 as rb
    from ..ref import bip390 as r390
    from ..ref import descsum as rd
    from ..ref import scripts as rs
    from ..ref import taproot as rt

    n = bad = 0
    for v in json.load(open(os.path.join(VEC, "descriptor_checksums.json"))):
        n += 1
        if rd.descsum_create(v["desc"]) != v["checksum"]:
            bad += 1
            ctx.oracle_broken("descriptor_checksums.json", v["desc"][:60])
    ctx.oracle_ok("descriptor_checksums.json", n - bad)

    V = json.load(open(os.path.join(VEC, "descriptor_vectors.json")))
    dv = rs.Deriver()

    def run(name, items, texts):
        n = bad = 0
        for v in items:
            for text in texts(v):
                if text is None:
                    continue
                try:
                    node = rs.read(text)
                except rs.Unsupported:
                    ctx.stat(f"selftest:{name}:miniscript-skipped")
                    continue
                if rs.write(node) != text:
                    bad += 1
                    ctx.oracle_broken(name, f"writer: {text[:60]}")
                for i, want in enumerate(v["scripts"]):
                    want = want if isinstance(want, list) else [want]
                    try:
                        got = [x.hex() for x in rs.scripts(dv, node, i)]
                    except rs.CannotDerive as e:
                        got = [f"cannot derive: {e}"]
                    n += 1
                    if got != want:
                        bad += 1
                        ctx.oracle_broken(name, f"{text[:60]} at {i}")
        ctx.oracle_ok(name, n - bad)

    run("core-descriptor-vectors", V["core"], lambda v: (v["private"], v["public"]))
    run("bip387", V["bip387"], lambda v: (v["descriptor"],))
    run("bip390", V["bip390"], lambda v: (v["descriptor"],))
    # BIP389 through Core's CheckMultipath vector
    mp = V["multipath"]
    body = mp["descriptor"]
    node = rs.read(body.replace("<1;3>", "1"))
    node[1].path[0] = (1, 3)
    good = rs.write(node) == body and [rs.write(rs.choose(node, j)) for j in range(2)] == mp["expansions"]
    for j in range(2):
        got = [rs.scripts(dv, rs.choose(node, j), i)[0].hex() for i in range(3)]
        good = good and got == mp["scripts"][j]
    if not good:
        ctx.oracle_broken("multipath-vector", "Core CheckMultipath")
    ctx.oracle_ok("multipath-vector", 1 if good else 0)
    n = bad = 0
    for v in V["bip328"]:
        agg = r390.aggregate_plain([bytes.fromhex(k) for k in v["keys"]])
        n += 1
        if agg.hex() != v["aggregate"] or rb.XKey(*r390.synthetic_xpub_fields(agg)).b58() != v["xpub"]:
            bad += 1
            ctx.oracle_broken("bip328", v["xpub"][:20])
    ctx.oracle_ok("bip328", n - bad)
    d = json.load(open(os.path.join(VEC, "key_agg_vectors.json")))
    pks = [bytes.fromhex(x) for x in d["pubkeys"]]
    n = bad = 0
    for tc in d["valid_test_cases"]:
        n += 1
        if r390.key_agg([pks[k] for k in tc["key_indices"]])[0].to_bytes(32, "big").hex().upper() != tc["expected"].upper():
            bad += 1
            ctx.oracle_broken("bip327-key-agg", str(tc["key_indices"]))
    ks = json.load(open(os.path.join(VEC, "key_sort_vectors.json")))
    n += 1
    if [x.hex().upper() for x in r390.key_sort([bytes.fromhex(x) for x in ks["pubkeys"]])] != [x.upper() for x in ks["sorted_pubkeys"]]:
        bad += 1
        ctx.oracle_broken("bip327-key-agg", "key_sort")
    ctx.oracle_ok("bip327-key-agg", n - bad)
    n = bad = 0
    for keys, addr in json.load(open(os.path.join(VEC, "bip67_test_vectors.json"))).values():
        n += 1
        spk = rs.t_sh(rs.t_sortedmulti(2, [bytes.fromhex(k) for k in keys]))
        if r58.check_encode(b"\x05" + spk[2:22]) != addr:
            bad += 1
            ctx.oracle_broken("bip67", addr)
    ctx.oracle_ok("bip67", n - bad)
    okn, fails = rt.selftest(json.load(open(os.path.join(VEC, "taproot_test_vector.json"))))
    for f in fails:
        ctx.oracle_broken("bip341-wallet-vectors", f)
    ctx.oracle_ok("bip341-wallet-vectors", okn)
    ctx.case("selftest", "vectors", nontrivial=False)


# ---------------------------------------------------------------- generator
class World:
    """Keys, networks and the descriptor grammar (reference side only)."""

    def __init__(self, ctx: Ctx):
        from ..ref import addr as ra
        from ..ref import bip32 as rb
        from ..ref import descsum as rd
        from ..ref import scripts as rs

        self.ra, self.rb, self.rd, self.rs = ra, rb, rd, rs
        self.ctx = ctx
        self.rng = r = ctx.rng
        self.nd = ra.NetData()
        self.dv = rs.Deriver()
        self._exp_node, self._exp = None, {}
        self.scalars = [r.randrange(1, rb.N) for _ in range(9)] + [1]
        self.points = [rb.point(k) for k in self.scalars]
        self.roots = {nt: [rb.root(bytes(r.randrange(256) for _ in range(32)), rb.VERSIONS[(nt, "p2pkh")][0]) for _ in range(3)]
                      for nt in ("main", "test")}

    # -- keys
    def nettype(self, net: str) -> str:
        return "main" if net == "mainnet" else "test"

    def pub33(self, j: int) -> bytes:
        return self.rb.ser_p(self.points[j])

    def pub65(self, j: int) -> bytes:
        Q = self.points[j]
        return b"\x04" + Q[0].to_bytes(32, "big") + Q[1].to_bytes(32, "big")

    def step(self, hardened: bool) -> int:
        r = self.rng
        i = r.choice([0, 1, 2, 3, 5, 44, 86, 1000, HARD - 1, r.randrange(HARD), r.randrange(50)])
        return i + (HARD if hardened else 0)

    def marks(self) -> str:
        return self.rng.choice(["h", "'", "h", "'", "h'", "'h"])

    def origin(self):
        r = self.rng
        if r.random() > 0.35:
            return None
        fp = "".join(r.choice("0123456789abcdef") for _ in range(8))
        if r.random() < 0.2:
            fp = fp.upper()
        return (fp, [self.step(r.random() < 0.5) for _ in range(r.randrange(0, 4))])

    def xkey(self, net: str, private: bool, *, ranged=None, hardened_ok=True, force_hardened_wildcard=False):
        """An extended key expression; hardened steps only below a private key."""
        r, rb, rs = self.rng, self.rb, self.rs
        root = r.choice(self.roots[self.nettype(net)])
        depth = r.choice([0, 0, 1, 2, 3])
        x = self.dv.derive(root, [self.step(r.random() < 0.4) for _ in range(depth)])
        if not private:
            x = rb.neuter(x)
        # a hardened step below a public key (rare): BIP32 has no answer, and the library must have none either
        lost = (not private) and hardened_ok and r.random() < 0.04
        path = [self.step(hardened_ok and (private or lost) and r.random() < 0.35) for _ in range(r.choice([0, 0, 1, 1, 2, 3]))]
        if ranged is None:
            ranged = r.random() < 0.65
        wildcard = None
        if ranged:
            wildcard = HARD if (private and hardened_ok and (force_hardened_wildcard or r.random() < 0.3)) else 0
        return rs.Key("xkey", x.b58(), xkey=x, path=path, wildcard=wildcard, origin=self.origin(), marks=self.marks())

    def fixed_key(self, kind: str):
        """hex / HEX / xonly / wif / wif-u / hex-u"""
        r, rs, ra = self.rng, self.rs, self.ra
        j = r.randrange(len(self.scalars))
        if kind in ("hex", "HEX"):
            t = self.pub33(j).hex()
            return rs.Key("hex", t.upper() if kind == "HEX" else t, self.pub33(j), origin=self.origin(), marks=self.marks())
        if kind == "xonly":
            x = self.pub33(j)[1:]
            return rs.Key("hex", x.hex(), b"\x02" + x, True, origin=self.origin(), marks=self.marks())
        if kind == "hex-u":
            return rs.Key("hex", self.pub65(j).hex(), self.pub65(j), origin=self.origin(), marks=self.marks())
        compressed = kind == "wif"
        text = ra.encode_wif(self.nd, self.scalars[j], r.choice(NETS), compressed)
        return rs.Key("wif", text, self.pub33(j) if compressed else self.pub65(j), origin=self.origin(), marks=self.marks())

    def musig(self, net: str):
        r, rs = self.rng, self.rs
        n = r.choice([1, 2, 2, 3, 3, 4])
        derived = r.random() < 0.5
        parts = []
        for _ in range(n):
            if derived or r.random() < 0.5:
                parts.append(self.xkey(net, r.random() < 0.3, ranged=False if derived else None))
            else:
                parts.append(self.fixed_key(r.choice(["hex", "wif", "HEX"])))
        if r.random() < 0.15 and len(parts) > 1:
            parts[-1] = parts[0]  # BIP390: participants may repeat
        path, wildcard = [], None
        if derived:
            path = [self.step(False) for _ in range(r.choice([0, 1, 1, 2]))]
            wildcard = 0 if (r.random() < 0.7 or not path) else None
        return rs.Key("musig", participants=parts, path=path, wildcard=wildcard, marks=self.marks())

    def key(self, net: str, *, uncompressed=False, taproot=False, musig=False, ranged=None):
        r = self.rng
        kinds = ["hex"] * 3 + ["HEX", "wif", "wif"] + ["xpub"] * 6 + ["xprv"] * 5
        if ranged is True:
            kinds = ["xpub"] * 3 + ["xprv"] * 2
        if uncompressed and not ranged:
            kinds += ["hex-u", "hex-u", "wif-u", "wif-u"]
        if taproot and not ranged:
            kinds += ["xonly"] * 4
        if musig:
            kinds += ["musig"] * 3
        k = r.choice(kinds)
        if k == "musig":
            return self.musig(net)
        if k in ("xpub", "xprv"):
            return self.xkey(net, k == "xprv", ranged=ranged)
        return self.fixed_key(k)

    # -- nodes
    def multi_keys(self, net: str, n: int, **kw) -> list:
        r = self.rng
        keys = [self.key(net, **kw) for _ in range(n)]
        if n > 6:  # long quorums: mostly fixed keys (cost), one ranged
            keys = [self.fixed_key("hex") for _ in range(n - 1)] + [self.key(net, **kw)]
            r.shuffle(keys)
        return keys

    def script_node(self, net: str, ctx_: str, focus=None):
        """A SCRIPT expression legal in ``ctx_`` ('top', 'sh', 'wsh')."""
        r = self.rng
        unc = ctx_ in ("top", "sh")
        if focus == "sorted":
            opts = ["sortedmulti"]
        else:
            opts = ["pk", "pkh", "multi", "sortedmulti"]
            if ctx_ in ("top", "sh"):
                opts += ["wpkh", "wsh"]
            if ctx_ == "top":
                opts += ["sh", "sh"]
        f = r.choice(opts)
        if f in ("pk", "pkh"):
            return (f, self.key(net, uncompressed=unc))
        if f == "wpkh":
            return (f, self.key(net))
        if f in ("sh", "wsh"):
            return (f, self.script_node(net, f))
        n = r.choice([1, 2, 2, 3, 3, 3, 4, 5, 15, 16] if ctx_ != "top" else [1, 2, 2, 3, 3, 3, 4, 16])
        if ctx_ == "wsh" and r.random() < 0.04:
            n = 20  # BIP383 allows it inside wsh(); the library stops at 16 (counted, not judged)
        if focus == "sorted":
            n = r.choice([2, 2, 3, 3, 4, 5])
        k = r.choice([1, n, r.randrange(1, n + 1)])
        keys = self.multi_keys(net, n, uncompressed=unc, ranged=True if (focus == "sorted" and r.random() < 0.8) else None)
        return (f, k, keys)

    def tree(self, net: str, depth: int, focus=None):
        r = self.rng
        if depth < 4 and r.random() < (0.45 if depth else 0.6):
            return [self.tree(net, depth + 1, focus), self.tree(net, depth + 1, focus)]
        f = r.choice(["pk", "pk", "multi_a", "sortedmulti_a"] if focus != "sorted" else ["sortedmulti_a"])
        if f == "pk":
            return ("pk", self.key(net, taproot=True, musig=True))
        n = r.choice([1, 2, 2, 3, 3, 4, 5, 20] if focus != "sorted" else [2, 2, 3, 3, 4])
        k = r.choice([1, n, r.randrange(1, n + 1)])
        if n == 20:
            k = r.choice([17, 20, 1])
        return (f, k, self.multi_keys(net, n, taproot=True, musig=True,
                                      ranged=True if (focus == "sorted" and r.random() < 0.8) else None))

    def address_text(self, net: str):
        """An address of a random standard script on ``net`` and the script it stands for."""
        r, ra = self.rng, self.ra
        h20, h32 = bytes(r.randrange(256) for _ in range(20)), bytes(r.randrange(256) for _ in range(32))
        kind = r.choice(["p2pkh", "p2sh", "p2wpkh", "p2wsh", "p2tr"])
        spk = {"p2pkh": ra.spk_p2pkh(h20), "p2sh": ra.spk_p2sh(h20), "p2wpkh": ra.spk_witness(0, h20),
               "p2wsh": ra.spk_witness(0, h32), "p2tr": ra.spk_witness(1, self.pub33(0)[1:])}[kind]
        a = ra.address_of_script(self.nd, spk, net)
        if kind in ("p2wpkh", "p2wsh", "p2tr") and r.random() < 0.25:
            a = a.upper()
        return a, spk

    def descriptor(self, net: str, focus=None):
        r = self.rng
        if focus == "sorted":
            f = r.choice(["sortedmulti", "wsh", "sh", "tr"])
        else:
            f = r.choice(["pk", "pkh", "wpkh", "combo", "sh", "sh", "wsh", "wsh", "multi", "sortedmulti", "tr", "tr", "tr", "tr",
                          "rawtr", "addr", "raw"])
        if f in ("pk", "pkh"):
            return (f, self.key(net, uncompressed=True))
        if f == "wpkh":
            return (f, self.key(net))
        if f == "combo":
            return (f, self.key(net, uncompressed=True))
        if f in ("sh", "wsh"):
            return (f, self.script_node(net, f, focus))
        if f in ("multi", "sortedmulti"):
            n = r.choice([1, 2, 3, 3, 4, 16]) if focus != "sorted" else r.choice([2, 3, 3, 4])
            k = r.choice([1, n, r.randrange(1, n + 1)])
            return (f, k, self.multi_keys(net, n, uncompressed=focus != "sorted",
                                          ranged=True if (focus == "sorted" and r.random() < 0.8) else None))
        if f == "tr":
            internal = self.key(net, taproot=True, musig=True)
            return ("tr", internal, self.tree(net, 0, focus) if (focus == "sorted" or r.random() < 0.7) else None)
        if f == "rawtr":
            return (f, self.key(net, taproot=True, musig=True))
        if f == "addr":
            return ("addr", self.address_text(r.choice(NETS))[0])
        n = r.choice([0, 1, 5, 22, 23, 25, 34, 40, 80])
        hx = bytes(r.randrange(256) for _ in range(n)).hex()
        return ("raw", hx.upper() if r.random() < 0.2 else hx)

    # -- reference answers
    def decode_addr(self, a: str) -> bytes:
        return self.ra.decode_address(self.nd, a)[0]

    def expected(self, node, index: int, neutered: bool, family=None):
        """The scripts at ``index``, or None where BIP32 / BIP341 have no answer (memoised per descriptor object)."""
        k = (id(node), index, neutered)
        if self._exp_node is not node:
            self._exp_node, self._exp = node, {}
        if k not in self._exp:
            # the private keys a parse hands back serve every key expression that names the same key publicly
            self.dv.known = {} if neutered else {self.rb.neuter(x.xkey): x.xkey for n in (family or [node])
                                                  for x in all_keys(self.rs, n) if x.kind == "xkey" and x.xkey.is_private}
            try:
                self._exp[k] = self.rs.scripts(self.dv, node, index, self.decode_addr, neutered)
            except self.rs.CannotDerive:
                self._exp[k] = None
        return self._exp[k]

    def full(self, text: str) -> str:
        return text + "#" + self.rd.descsum_create(text)


def all_keys(rs, node) -> list:
    out = []
    for k in rs.node_keys(node):
        out.append(k)
        out += list(k.participants)
    return out


def functions_of(rs, node) -> set:
    f = node[0]
    out = {f}
    if f in ("sh", "wsh"):
        out |= functions_of(rs, node[1])
    if f == "tr" and node[2] is not None:
        def walk(t):
            if isinstance(t, list):
                walk(t[0])
                walk(t[1])
            else:
                out.add(t[0])
        walk(node[2])
    if any(k.kind == "musig" for k in rs.node_keys(node)):
        out.add("musig")
    return out


def key_classes(rs, node) -> set:
    out = set()
    for k in all_keys(rs, node):
        if k.origin is not None:
            out.add("key:origin")
        if k.kind == "hex":
            out.add("key:hex-xonly" if k.xonly else ("key:hex" if len(k.pub) == 33 else "key:hex-uncompressed"))
        elif k.kind == "wif":
            out.add("key:wif" if len(k.pub) == 33 else "key:wif-uncompressed")
        elif k.kind == "xkey":
            out.add("key:xprv" if k.xkey.is_private else "key:xpub")
            if k.wildcard == 0:
                out.add("key:wildcard")
            if k.wildcard == HARD:
                out.add("key:hardened-wildcard")
            if any(s >= HARD for s in k.path if isinstance(s, int)):
                out.add("key:hardened-step")
        else:
            out.add("key:musig")
            if k.path or k.wildcard is not None:
                out.add("key:musig-derived")
    return out


def needs_prv(rs, node) -> bool:
    """Does deriving from the public halves fail (a hardened step below an extended key)?"""
    for k in all_keys(rs, node):
        if k.kind == "xkey" and (k.wildcard == HARD or any(s >= HARD for s in k.path)):
            return True
    return False


def roundtrip_cause(rs, node) -> str:
    """Classifier for a written text that does not parse back to an equal descriptor: keyed on the input feature.

    A WIF standing directly in a taproot key position (internal key, leaf key, rawtr key) whose public key has an
    odd y is kept as 03||x with the x-only flag set, written back as the 32-byte x-only hex, and read again as 02||x.
    """
    if node[0] not in ("tr", "rawtr"):
        return ""
    if any(k.kind == "wif" and k.pub[0] == 3 for k in rs.node_keys(node)):
        return ":taproot-wif-odd-y-written-x-only"
    return ""


def policy_excuse(rs, node) -> str | None:
    """A documented reason for which the library may refuse to derive a parsed descriptor."""
    f = node[0]
    if f in ("sh", "wsh"):
        return policy_excuse(rs, node[1])
    if f in ("multi", "sortedmulti") and len(node[2]) > 16:
        return "more-than-16-keys"
    return None


# ------------------------------------------------------------------ monitors
def lib_exc_or_violation(ctx: Ctx, what: str, o, case) -> bool:
    """True when ``o`` is a refusal with a library exception; a foreign exception is a violation of its own."""
    if o[0] != "raise":
        return False
    if not is_lib_exc(o[1]):
        ctx.violation(f"{what}:foreign-exception:{type(o[1]).__name__}@{tb_origin(o[1])}", f"{what} raised {o[1]!r}", case)
    return True


def sort_perm(keys: list[bytes]) -> tuple:
    return tuple(sorted(range(len(keys)), key=lambda j: keys[j]))


def note_flips(ctx: Ctx, w: World, node, indexes) -> None:
    """Did the sorted order of a sortedmulti / sortedmulti_a change between the indexes compared?"""
    rs = w.rs

    def visit(n):
        if n[0] in ("sh", "wsh"):
            visit(n[1])
        elif n[0] == "sortedmulti":
            probe("sortedmulti", n[2], 0)
        elif n[0] == "tr" and n[2] is not None:
            walk(n[2])

    def walk(t):
        if isinstance(t, list):
            walk(t[0])
            walk(t[1])
        elif t[0] == "sortedmulti_a":
            probe("sortedmulti_a", t[2], 1)

    def probe(name, keys, cut):
        perms = set()
        for i in indexes:
            try:
                perms.add(sort_perm([w.dv.sec(k, i)[cut:] for k in keys]))
            except rs.CannotDerive:
                return
        if len(perms) > 1:
            ctx.stat(f"flip:{name}")
        if len(keys) > 1 and sort_perm([w.dv.sec(k, indexes[0])[cut:] for k in keys]) != tuple(range(len(keys))):
            ctx.stat(f"unsorted-as-written:{name}")

    visit(node)


def check_descriptor(ctx: Ctx, w: World, D, node, net: str, focus=None) -> None:
    rs, ra, r = w.rs, w.ra, ctx.rng
    text = rs.write(node)
    with_sum = r.random() < 0.8
    given = w.full(text) if with_sum else text
    case = {"descriptor": given, "network": net}
    funcs = functions_of(rs, node)
    klass = "desc:" + node[0] + (":" + node[1][0] if node[0] in ("sh", "wsh") else "")
    ranged = rs.is_ranged(node)
    prv: dict = {}
    po = outcome(D.parse, given, net, prv)
    ctx.stat(f"network:{net}")
    if po[0] == "raise":
        if lib_exc_or_violation(ctx, "parse", po, case):
            # is it the checksum that the library disputes?  that much the property states
            co = outcome(D.checksum, text)
            if co[0] == "ok" and co[1] != w.rd.descsum_create(text):
                ctx.violation("checksum-differs-from-bip380", f"checksum({text[:80]}) = {co[1]}, BIP380 reference {w.rd.descsum_create(text)}", case)
            elif with_sum and outcome(D.parse, text, net, {})[0] == "ok":
                ctx.violation("valid-checksum-refused", f"{given[:120]} refused ({po[1]}), accepted without its checksum", case)
            else:
                ctx.stat(f"refused-at-parse:{node[0]}")
                ctx.sample("refused-at-parse", {**case, "error": str(po[1])[:200]})
        ctx.case(klass, ("parse", given, net))
        return
    d = po[1]
    for f in funcs:
        ctx.stat(f"parsed:{f}")
    for kc in key_classes(rs, node):
        ctx.stat(kc)
    has_prv = bool(prv)
    hardened = needs_prv(rs, node)
    # (a) scripts and addresses at the indexes
    if ranged:
        indexes = [0, 1, 2, 999, 1000, HARD - 1, r.randrange(3, HARD)]
        if focus == "sorted":
            indexes = [0, 1, 2, 3, 4, 999, r.randrange(3, HARD)]
    else:
        indexes = [0]
    note_flips(ctx, w, node, indexes)
    o = outcome(lambda: d.is_ranged)
    ctx.stat("is_ranged:" + ("agrees" if o[0] == "ok" and o[1] == ranged else "differs"))  # not part of the statement
    compared = 0
    use_prv_modes = [True, False] if (has_prv and r.random() < 0.5) else [has_prv]
    for idx_n, i in enumerate(indexes):
        for use_prv in (use_prv_modes if idx_n < 2 else use_prv_modes[:1]):
            want = w.expected(node, i, neutered=not use_prv)
            so = outcome(d.script_pub_keys, i, prv if use_prv else None)
            c2 = {**case, "index": i, "prv_keys_passed": use_prv}
            tagi = f"index:{i}" if idx_n < 6 and focus != "sorted" else "index:uniform"
            if want is None:
                ctx.stat("derive:cannot-derive-expected")
                if so[0] == "ok":
                    ctx.violation("answered-where-bip32-cannot-derive",
                                  f"{text[:100]} at {i} answered {[x.script.hex() for x in so[1]]} where a hardened step has no private key", c2)
                elif lib_exc_or_violation(ctx, "script_pub_keys", so, c2):
                    ctx.stat("derive:cannot-derive-refused")
                continue
            if so[0] == "raise":
                if lib_exc_or_violation(ctx, "script_pub_keys", so, c2):
                    ex = policy_excuse(rs, node)
                    if ex:
                        ctx.stat(f"refused-by-policy:{ex}")
                    else:
                        ctx.violation(f"derivation-refused:{node[0]}", f"{text[:100]} parsed but refused at index {i}: {so[1]}", c2)
                continue
            got = [bytes(x.script) for x in so[1]]
            compared += 1
            ctx.mon("scripts")
            ctx.stat(tagi)
            if use_prv and hardened:
                ctx.stat("derive:hardened-wildcard-with-prv-keys" if any(k.wildcard == HARD for k in all_keys(rs, node)) else "derive:hardened-step-with-prv-keys")
            if got != want:
                ctx.violation(f"script-differs-from-hand-assembly:{node[0]}",
                              f"{text[:100]} at index {i}: library {[g.hex() for g in got]}, BIP32 + template {[x.hex() for x in want]}",
                              {**c2, "library": [g.hex() for g in got], "reference": [x.hex() for x in want]})
                continue
            # addresses of the standard types
            # the addresses are those of the network the descriptor was read for; an addr() carries its own
            dnet = net
            if node[0] == "addr":
                nets = ra.decode_address(w.nd, node[1])[1]
                dnet = d.network if d.network in nets else sorted(nets)[0]
            for x, spk in zip(so[1], want):
                if ra.script_type(spk) in ("p2pkh", "p2sh", "p2wpkh", "p2wsh", "p2tr"):
                    wa = ra.address_of_script(w.nd, spk, dnet)
                    ao = outcome(lambda: x.address)
                    ctx.mon("address")
                    if ao[0] == "raise" or ao[1] != wa:
                        ctx.violation("address-differs", f"{text[:80]} at {i} on {dnet}: address {ao[1]!r}, reference {wa}", {**c2, "script": spk.hex()})
            # from_address: the addr() descriptor of an address the reference derived is that text under BIP380's checksum,
            # and reads back to the very script
            if idx_n in (0, 2) and hasattr(D, "from_address"):
                for spk in want[:2]:
                    if ra.script_type(spk) not in ("p2pkh", "p2sh", "p2wpkh", "p2wsh", "p2tr"):
                        continue
                    wa = ra.address_of_script(w.nd, spk, dnet)
                    fo = outcome(D.from_address, wa)
                    ctx.mon("from_address")
                    wt = f"addr({wa})#" + w.rd.descsum_create(f"addr({wa})")
                    if fo[0] == "raise" or fo[1] != wt:
                        ctx.violation("from-address-differs", f"from_address({wa}) = {fo[1]!r}, BIP380 gives {wt}", {**c2, "address": wa})
                        continue
                    bo = outcome(lambda: [bytes(x.script) for x in D.parse(fo[1], dnet).script_pub_keys(0)])
                    if bo[0] == "raise" or bo[1] != [spk]:
                        ctx.violation("from-address-does-not-read-back", f"parse(from_address({wa})) on {dnet} gives {bo[1]!r}, the address was made from {spk.hex()}", {**c2, "address": wa})
            # the list spelling: one address per script, in order, those of the standard types equal to the reference's
            if idx_n in (0, 3):
                lo = outcome(d.addresses, i, prv if use_prv else None)
                std = [ra.address_of_script(w.nd, spk, dnet) if ra.script_type(spk) in ("p2pkh", "p2sh", "p2wpkh", "p2wsh", "p2tr") else None for spk in want]
                ctx.mon("addresses")
                if lo[0] == "raise" or len(lo[1]) != len(want) or any(wa is not None and ga != wa for ga, wa in zip(lo[1], std)):
                    ctx.violation("address-differs", f"Descriptor.addresses({i}) = {lo[1]!r}, reference {std}", c2)
            if len(want) == 1 and idx_n in (0, 5):
                ao = outcome(d.address, i, prv if use_prv else None)
                wa = ra.address_of_script(w.nd, want[0], dnet) if ra.script_type(want[0]) in ("p2pkh", "p2sh", "p2wpkh", "p2wsh", "p2tr") else None
                if wa is not None and (ao[0] == "raise" or ao[1] != wa):
                    ctx.violation("address-differs", f"Descriptor.address({i}) = {ao[1]!r}, reference {wa}", c2)
            ctx.case(klass, ("derive", given, net, i, use_prv), sample={**c2, "scripts": [x.hex() for x in want]})
    if compared:
        for f in funcs:
            ctx.stat(f"derived:{f}")
    if not ranged:
        o = outcome(d.script_pub_keys, r.choice([1, 5, HARD - 1]), prv or None)
        ctx.stat("not-ranged:index>0:" + ("refused" if o[0] == "raise" else "answered"))
    # (b) text round trip and checksum
    so = outcome(str, d)
    if so[0] == "raise":
        lib_exc_or_violation(ctx, "str", so, case)
        ctx.violation("str-raised", f"str() of the parsed {text[:100]} raised {so[1]!r}", case)
        return
    s = so[1]
    c3 = {**case, "written": s}
    ro = outcome(D.parse, s, net)
    ctx.mon("roundtrip")
    if ro[0] == "raise":
        lib_exc_or_violation(ctx, "parse(str)", ro, c3)
        ctx.violation("written-text-does-not-parse", f"str(parse(x)) = {s[:120]} is refused: {ro[1]}", c3)
    else:
        if ro[1] != d:
            ctx.violation("roundtrip-not-equal" + roundtrip_cause(rs, node), f"parse(str(d)) != d for {s[:120]}", c3)
        i = indexes[min(1, len(indexes) - 1)]
        want = w.expected(node, i, neutered=True)
        if want is not None and not policy_excuse(rs, node):
            o2 = outcome(ro[1].script_pub_keys, i)
            if o2[0] == "raise" or [bytes(x.script) for x in o2[1]] != want:
                ctx.violation("written-text-derives-other-scripts", f"{s[:100]} at {i}: {o2[1]!r}", {**c3, "index": i})
        ctx.case("roundtrip", ("rt", given, net))
    wsum = w.rd.descsum_create(s)
    ctx.mon("checksum")
    if wsum is None:
        ctx.violation("written-text-outside-charset", f"str() wrote a character outside BIP380's charset: {s!r}"[:300], c3)
    else:
        co = outcome(D.checksum, s)
        if co[0] == "raise" or co[1] != wsum:
            ctx.violation("checksum-differs-from-bip380", f"checksum({s[:80]}) = {co[1]!r}, BIP380 reference {wsum}", c3)
        ao = outcome(D.add_checksum, s)
        if ao[0] == "raise" or ao[1] != s + "#" + wsum:
            ctx.violation("add_checksum-differs-from-bip380", f"add_checksum -> {ao[1]!r}"[:300], c3)
        ao = outcome(D.strip_checksum, s + "#" + wsum)
        if ao[0] == "raise" or ao[1] != s:
            ctx.violation("valid-checksum-refused", f"strip_checksum({s[:60]}#{wsum}) -> {ao[1]!r}"[:300], c3)
        ctx.case("checksum", ("sum", s))
        # core_import: the text a Core import request carries is the checksummed written form
        from btclib import core_import as CI

        io = outcome(CI.import_request, d, 0, active=ranged, key_range=(0, 999) if ranged else None)
        ctx.mon("import_request")
        if io[0] == "raise":
            if lib_exc_or_violation(ctx, "import_request", io, c3):
                ctx.stat("import_request:refused")  # a refusal is not a wrong checksum
        elif io[1].get("desc") != s + "#" + wsum:
            ctx.violation("import_request-descriptor-differs", f"import_request desc = {io[1].get('desc')!r}"[:300], c3)
    # (c) index_of
    pk = prv or None
    if compared and w.expected(node, 0, neutered=not has_prv) is not None:
        L = r.choice([3, 8, 20])
        j = r.randrange(0, L + 1) if ranged else 0
        wantj = w.expected(node, j, neutered=not has_prv) or []
        first = {}
        for q in range(j + 1):  # an earlier index deriving the same script is as good an answer
            for spk in ((w.expected(node, q, neutered=not has_prv) or []) if ranged else wantj):
                first.setdefault(spk, q)
        for spk in wantj:
            io = outcome(d.index_of, spk, L, pk)
            ctx.mon("index_of:own")
            c4 = {**case, "script": spk.hex(), "derived_at": j, "last_index": L}
            if io[0] == "raise":
                lib_exc_or_violation(ctx, "index_of", io, c4)
                ctx.violation("index_of-raised-on-own-script", f"index_of raised {io[1]!r}", c4)
            elif io[1] != first[spk]:
                ctx.violation("index_of-not-inverse-of-derivation", f"{text[:80]}: script derived at {j}, index_of(last_index={L}) = {io[1]!r}", c4)
            ctx.case("index_of:own", ("io", given, net, j, spk))
        if ranged:
            jj = L + 1 + r.randrange(3)
            far = w.expected(node, jj, neutered=not has_prv)
            near = {spk for q in range(L + 1) for spk in (w.expected(node, q, neutered=not has_prv) or [])}
            if far is not None and far[0] not in near:
                io = outcome(d.index_of, far[0], L, pk)
                ctx.mon("index_of:beyond-range")
                if io[0] == "raise" or io[1] is not None:
                    ctx.violation("index_of-claims-beyond-range", f"script of index {jj} searched up to {L}: {io[1]!r}", {**case, "index": jj, "last_index": L})
        else:
            near = set(wantj)
        # foreign scripts: the same template on another key / another network's address / a one-bit neighbour
        foreign = []
        own0 = wantj[0] if wantj else b"\x51"
        flipped = bytearray(own0 or b"\x51")
        flipped[-1 if len(flipped) < 4 else len(flipped) // 2] ^= 1
        foreign.append(bytes(flipped))
        foreign.append(rs.t_wpkh(w.pub33(r.randrange(len(w.scalars))) + b"x"))
        foreign.append(rs.t_pk(w.pub33(0))[:-1] + b"\xad")
        for spk in foreign:
            if spk in near or not spk:
                continue
            io = outcome(d.index_of, spk, L, pk)
            ctx.mon("index_of:foreign")
            c4 = {**case, "foreign_script": spk.hex(), "last_index": L}
            if io[0] == "raise":
                if lib_exc_or_violation(ctx, "index_of", io, c4):
                    ctx.stat("index_of:foreign-refused")
            elif io[1] is not None:
                ctx.violation("index_of-claims-foreign-script", f"{text[:80]}: index_of(foreign) = {io[1]!r}", c4)
            ctx.case("index_of:foreign", ("iof", given, net, spk))
    # (d) normalized and at_index
    if compared:
        no = outcome(D.normalized, d, pk)
        xpub_hardened = any(k.kind == "xkey" and not k.xkey.is_private and any(s >= HARD for s in k.path) for k in all_keys(rs, node))
        if no[0] == "raise":
            if lib_exc_or_violation(ctx, "normalized", no, case):
                ctx.stat("normalized:refused" + (":no-private-key" if (xpub_hardened or (hardened and not has_prv)) else ""))
        else:
            i = indexes[-1]
            hw = any(k.wildcard == HARD for k in all_keys(rs, node))
            want = w.expected(node, i, neutered=not has_prv)
            o2 = outcome(no[1].script_pub_keys, i, pk if hw else None)
            ctx.mon("normalized")
            c5 = {**case, "normalized": str(no[1])[:300], "index": i}
            if want is not None and (o2[0] == "raise" or [bytes(x.script) for x in o2[1]] != want):
                ctx.violation("normalized-derives-other-scripts", f"normalized({text[:80]}) at {i}: {o2[1]!r}"[:400], c5)
            o3 = outcome(lambda: D.parse(str(no[1]), net) == no[1])
            if o3[0] == "raise" or not o3[1]:
                ctx.violation("normalized-roundtrip-not-equal" + roundtrip_cause(rs, node), f"parse(str(normalized)) -> {o3[1]!r}"[:300], c5)
            ctx.case("normalized", ("norm", given, net, i))
        i = r.choice(indexes)
        ao = outcome(D.at_index, d, i)
        want = w.expected(node, i, neutered=not has_prv)
        c6 = {**case, "index": i}
        if ao[0] == "raise":
            lib_exc_or_violation(ctx, "at_index", ao, c6)
            ctx.violation("at_index-raised", f"at_index({text[:80]}, {i}) raised {ao[1]!r}", c6)
        elif want is not None:
            o2 = outcome(ao[1].script_pub_keys, 0, pk)
            ctx.mon("at_index")
            if o2[0] == "raise" or [bytes(x.script) for x in o2[1]] != want or ao[1].is_ranged:
                ctx.violation("at_index-derives-other-scripts", f"at_index({text[:80]}, {i}) -> {str(ao[1])[:120]}: {o2[1]!r}"[:500], c6)
            o3 = outcome(lambda: D.parse(str(ao[1]), net) == ao[1])
            if o3[0] == "raise" or not o3[1]:
                ctx.violation("at_index-roundtrip-not-equal" + roundtrip_cause(rs, node), f"parse(str(at_index)) -> {o3[1]!r}"[:300], c6)
            ctx.case("at_index", ("at", given, net, i))


def _reach():
    reach = Reach()
    for d in MECH:
        reach.watch_path(d)
    reach.start()
    return reach


def shard_derive(ctx: Ctx) -> None:
    from btclib.descriptors import descriptors as D

    reach = _reach()
    w = World(ctx)
    focus = ctx.params.get("focus")
    for it in range(ctx.params["cases"]):
        if ctx.out_of_time():
            ctx.notes.append(f"{ctx.shard}: budget reached after {it} descriptors")
            break
        net = NETS[it % 5]
        node = w.descriptor(net, focus)
        check_descriptor(ctx, w, D, node, net, focus)
    reach.stop()
    reach.report(ctx)


# --------------------------------------------------------------- corruption
def shard_corrupt(ctx: Ctx) -> None:
    """Every single-character substitution and deletion of checksummed descriptors must be refused."""
    from btclib.descriptors import descriptors as D

    reach = _reach()
    w = World(ctx)
    rd, rs, r = w.rd, w.rs, ctx.rng
    charset = rd.INPUT_CHARSET
    done = 0
    it = 0
    while done < ctx.params["descriptors"] and not ctx.out_of_time():
        it += 1
        net = NETS[it % 5]
        node = w.descriptor(net)
        text = rs.write(node)
        if len(text) > (300 if ctx.tier == "quick" else 1000):
            continue
        full = w.full(text)
        if outcome(D.parse, full, net)[0] != "ok":
            ctx.stat("corrupt:base-refused")
            continue
        done += 1
        hash_at = len(text)
        stats = {"sub": 0, "del": 0}

        def judge(mut: str, kind: str, pos: int):
            where = "body" if pos < hash_at else ("hash" if pos == hash_at else "checksum")
            body, sep, tail = mut.partition("#")
            if sep and "#" not in tail and rd.descsum_create(body) == tail:
                ctx.stat("corrupt:checksum-collision-not-judged")  # 2^-40: the code cannot see this one
                return
            o = outcome(D.parse, mut, net)
            case = {"original": full, "mutated": mut, "position": pos, "kind": kind, "network": net}
            if o[0] == "ok":
                ctx.violation(f"corrupted-descriptor-accepted:{kind}:{where}",
                              f"{kind} at {pos} ({where}) of {full[:80]} was accepted", case)
            elif not is_lib_exc(o[1]):
                ctx.violation(f"corrupted-descriptor:foreign-exception:{type(o[1]).__name__}@{tb_origin(o[1])}",
                              f"{kind} at {pos}: {o[1]!r}", case)
            ctx.classes[f"corrupt:{where}"] += 1
            stats["sub" if kind == "substitution" else "del"] += 1

        for pos in range(len(full)):
            if ctx.out_of_time():
                break
            for c in charset:
                if c != full[pos]:
                    judge(full[:pos] + c + full[pos + 1:], "substitution", pos)
            for c in OUTSIDE:
                judge(full[:pos] + c + full[pos + 1:], "substitution", pos)
                ctx.classes["corrupt:outside-charset"] += 1
            judge(full[:pos] + full[pos + 1:], "deletion", pos)
        ctx.bulk("corrupt:substitution", stats["sub"])
        ctx.bulk("corrupt:deletion", stats["del"])
        ctx.mon("corrupt:substitution", stats["sub"])
        ctx.mon("corrupt:deletion", stats["del"])
        ctx.sample("corrupt", {"descriptor": full, "substitutions": stats["sub"], "deletions": stats["del"]})
        if not ctx.out_of_time():
            ctx.exhaustive.append("every single-character substitution (BIP380 charset + 5 outside) and deletion of each sampled checksummed descriptor")
    reach.stop()
    reach.report(ctx)


# ---------------------------------------------------------------- multipath
def shard_multipath(ctx: Ctx) -> None:
    from btclib.descriptors import descriptors as D

    reach = _reach()
    w = World(ctx)
    rs, r = w.rs, ctx.rng
    for it in range(ctx.params["cases"]):
        if ctx.out_of_time():
            break
        net = NETS[it % 5]
        node = w.descriptor(net)
        xs = [k for k in all_keys(rs, node) if k.kind in ("xkey", "musig") and (k.kind == "xkey" or k.path)]
        if not xs:
            continue
        n = r.choice([2, 2, 3, 4])
        for k in all_keys(rs, node):
            k.marks = k.marks[0]  # one marker per key: an expansion is a textual substitution
        for k in r.sample(xs, r.randrange(1, len(xs) + 1)):
            private = k.kind == "xkey" and k.xkey.is_private
            alts = set()
            while len(alts) < n:
                alts.add(w.step(private and r.random() < 0.3))
            alts = tuple(alts)
            if k.path and r.random() < 0.6:
                k.path[r.randrange(len(k.path))] = alts
            else:
                k.path.insert(r.randrange(len(k.path) + 1), alts)
        text = rs.write(node)
        given = w.full(text) if r.random() < 0.7 else text
        want = [w.full(rs.write(rs.choose(node, j))) for j in range(n)]
        case = {"descriptor": given, "network": net, "reference": want}
        o = outcome(D.multipath_descriptors, given)
        ctx.mon("multipath:expansion")
        if o[0] == "raise":
            lib_exc_or_violation(ctx, "multipath_descriptors", o, case)
            ctx.violation("multipath-refused", f"multipath_descriptors({text[:100]}) raised {o[1]!r}", case)
            continue
        if list(o[1]) != want:
            ctx.violation("multipath-expansion-wrong", f"{text[:100]} -> {[x[:60] for x in o[1]]}", {**case, "library": list(o[1])})
            continue
        # the multipath text itself is not a descriptor; each expansion is, and derives what its own path says
        ctx.stat("multipath:parse-of-the-multipath-text:" + ("answered" if outcome(D.parse, given, net)[0] == "ok" else "refused"))
        for j, single in enumerate(o[1]):
            prv: dict = {}
            po = outcome(D.parse, single, net, prv)
            if po[0] == "raise":
                lib_exc_or_violation(ctx, "parse", po, case)
                ctx.stat("multipath:expansion-refused-at-parse")
                continue
            nj = rs.choose(node, j)
            for i in ([0, r.randrange(HARD)] if rs.is_ranged(nj) else [0]):
                wantj = w.expected(nj, i, neutered=not prv)
                so = outcome(po[1].script_pub_keys, i, prv or None)
                if wantj is None:
                    if so[0] == "ok":
                        ctx.violation("answered-where-bip32-cannot-derive", f"{single[:100]} at {i}", {**case, "expansion": j, "index": i})
                    continue
                if so[0] == "raise":
                    if lib_exc_or_violation(ctx, "script_pub_keys", so, case) and not policy_excuse(rs, nj):
                        ctx.violation(f"derivation-refused:{nj[0]}", f"{single[:100]} at {i}: {so[1]}", {**case, "expansion": j, "index": i})
                    continue
                ctx.mon("multipath:scripts")
                if [bytes(x.script) for x in so[1]] != wantj:
                    ctx.violation("multipath-expansion-derives-other-scripts", f"expansion {j} of {text[:80]} at {i}",
                                  {**case, "expansion": j, "index": i, "reference_scripts": [x.hex() for x in wantj]})
        ctx.case("multipath", ("mp", given, net), sample=case)
        # a corrupted multipath text is a corrupted descriptor string: the expansion entry must refuse it too
        if "#" in given:
            for _ in range(6):
                pos = r.randrange(len(given))
                c = r.choice(w.rd.INPUT_CHARSET)
                mut = given[:pos] + c + given[pos + 1:] if r.random() < 0.8 else given[:pos] + given[pos + 1:]
                body, sep, tail = mut.partition("#")
                if mut == given or (sep and "#" not in tail and w.rd.descsum_create(body) == tail):
                    continue
                where = "body" if pos < len(text) else ("hash" if pos == len(text) else "checksum")
                mo = outcome(D.multipath_descriptors, mut)
                ctx.mon("multipath:corrupt")
                ctx.classes[f"multipath:corrupt:{where}"] += 1
                mcase = {"original": given, "mutated": mut, "position": pos, "network": net}
                # the expansion is textual and each result "a descriptor to be parsed on its own": a text whose '#' is
                # gone carries no checksum to verify, and is refused where its expansions are parsed
                if mo[0] == "ok" and any(outcome(D.parse, x, net)[0] == "ok" for x in mo[1]):
                    ctx.violation(f"corrupted-multipath-descriptor-accepted:{where}",
                                  f"character {pos} ({where}) of {given[:80]} changed and multipath_descriptors answered", mcase)
                elif mo[0] == "raise" and not is_lib_exc(mo[1]):
                    ctx.violation(f"corrupted-descriptor:foreign-exception:{type(mo[1]).__name__}@{tb_origin(mo[1])}",
                                  f"multipath_descriptors: {mo[1]!r}", mcase)
        # BIP389's shape rules, as statistics: the property is about what an expansion yields
        if it % 10 == 0:
            bad = text.replace(">", ";7>", 1) if text.count("<") > 1 else None
            if bad:
                ctx.stat("multipath:unequal-lengths:" + ("refused" if outcome(D.multipath_descriptors, bad)[0] == "raise" else "answered"))
    reach.stop()
    reach.report(ctx)


# ------------------------------------------------------------------ wallets
SCRIPT_TYPES = ["p2pkh", "p2wpkh-p2sh", "p2wpkh", "p2tr"]


def single_key_script(rs, rt, script_type: str, pub33: bytes) -> bytes:
    if script_type == "p2pkh":
        return rs.t_pkh(pub33)
    if script_type == "p2wpkh":
        return rs.t_wpkh(pub33)
    if script_type == "p2wpkh-p2sh":
        return rs.t_sh(rs.t_wpkh(pub33))
    return rt.taproot_output_script(pub33[1:], None)  # BIP86: key path only


def check_ranged_wallet(ctx: Ctx, w: World, kind: str, wallet, expected_at, branches, max_index: int, case: dict) -> None:
    """script_pub_key / position_of / assert_derives of one wallet against ``expected_at(b, i) -> bytes | None``."""
    r = ctx.rng
    for _ in range(3):
        b = r.choice(branches)
        L = r.choice([2, 5, 5, 12, 30])
        i = r.choice([0, 1, L, r.randrange(L + 1)])
        want = expected_at(b, i)
        if want is None:
            continue
        c2 = {**case, "branch": b, "index": i, "last_index": L}
        so = outcome(wallet.script_pub_key, b, i)
        ctx.mon(f"wallet:{kind}:script")
        if so[0] == "raise":
            lib_exc_or_violation(ctx, f"{kind}.script_pub_key", so, c2)
            ctx.violation(f"wallet-derivation-refused:{kind}", f"script_pub_key({b},{i}) raised {so[1]!r}", c2)
            continue
        if bytes(so[1].script) != want:
            ctx.violation(f"wallet-script-differs-from-hand-assembly:{kind}",
                          f"{kind}.script_pub_key({b},{i}) = {bytes(so[1].script).hex()}, BIP32 + template {want.hex()}", {**c2, "reference": want.hex()})
            continue
        ctx.case(f"wallet:{kind}:script", (kind, case.get("id"), b, i))
        # position_of is the inverse (or an earlier position that derives the same script)
        earlier = None
        for bb, ii in ((bb, ii) for bb in branches for ii in range(L + 1)):
            if (bb, ii) == (b, i):
                break
            if expected_at(bb, ii) == want:
                earlier = (bb, ii)
                break
        po = outcome(wallet.position_of, so[1] if r.random() < 0.5 else want, L)
        ctx.mon(f"wallet:{kind}:position_of")
        if po[0] == "raise":
            lib_exc_or_violation(ctx, f"{kind}.position_of", po, c2)
            ctx.violation(f"position_of-raised-on-own-script:{kind}", f"position_of raised {po[1]!r}", c2)
        elif po[1] != (earlier or (b, i)):
            ctx.violation(f"position_of-not-inverse-of-derivation:{kind}", f"script of ({b},{i}) searched to {L}: {po[1]!r}", c2)
        ctx.case(f"wallet:{kind}:position_of", (kind, case.get("id"), b, i, L))
        # a foreign script: a neighbour of an own one, and the script one step past the searched range
        flipped = bytearray(want or b"\x51")
        flipped[len(flipped) // 2] ^= 0x10
        past = expected_at(b, L + 1) if L + 1 <= max_index else None
        own = {expected_at(bb, ii) for bb in branches for ii in range(L + 1)}
        for spk, what in ((bytes(flipped), "neighbour"), (past, "past-range")):
            if spk is None or spk in own:
                continue
            po = outcome(wallet.position_of, spk, L)
            ctx.mon(f"wallet:{kind}:foreign")
            c3 = {**c2, "foreign": spk.hex(), "what": what}
            if po[0] == "raise":
                if lib_exc_or_violation(ctx, f"{kind}.position_of", po, c3):
                    ctx.stat(f"wallet:{kind}:foreign-refused")
            elif po[1] is not None:
                ctx.violation(f"position_of-claims-foreign-script:{kind}", f"position_of({what}) = {po[1]!r}", c3)
            ctx.case(f"wallet:{kind}:foreign", (kind, case.get("id"), spk, L))
        # assert_derives
        first = r.choice([0, i])
        cnt = r.choice([1, 2, 4])
        if first + cnt - 1 > max_index:
            continue
        own_list = [expected_at(b, first + k) for k in range(cnt)]
        if None in own_list or len(set(own_list)) != cnt:
            continue
        ao = outcome(wallet.assert_derives, own_list, b, first)
        ctx.mon("wallet:assert_derives:own")
        c4 = {**c2, "first_index": first, "scripts": [x.hex() for x in own_list]}
        if ao[0] == "raise":
            lib_exc_or_violation(ctx, f"{kind}.assert_derives", ao, c4)
            ctx.violation(f"assert_derives-refuses-own-scripts:{kind}", f"assert_derives raised {ao[1]!r}", c4)
        wrong = list(own_list)
        k = r.randrange(cnt)
        wrong[k] = bytes(flipped) if (cnt == 1 or r.random() < 0.5) else own_list[(k + 1) % cnt]
        if wrong != own_list:
            ao = outcome(wallet.assert_derives, wrong, b, first)
            ctx.mon("wallet:assert_derives:wrong")
            if ao[0] == "ok":
                ctx.violation(f"assert_derives-accepts-foreign-script:{kind}", f"assert_derives accepted a list with a script not derived at its place", {**c4, "wrong": [x.hex() for x in wrong]})
            else:
                lib_exc_or_violation(ctx, f"{kind}.assert_derives", ao, c4)
        ctx.case("wallet:assert_derives", (kind, case.get("id"), b, first, cnt))


def shard_wallet(ctx: Ctx) -> None:
    from btclib.descriptors import descriptors as D
    from btclib.wallet.descriptor_wallet import DescriptorWallet
    from btclib.wallet.key_wallet import BIP32KeyWallet, KeyWallet
    from btclib.wallet.script_wallet import KeyGroup, ScriptWallet

    from ..ref import taproot as rt

    reach = _reach()
    w = World(ctx)
    rs, rb, ra, r = w.rs, w.rb, w.ra, ctx.rng
    for it in range(ctx.params["cases"]):
        if ctx.out_of_time():
            break
        net = NETS[it % 5]
        nt = w.nettype(net)
        kind = ("BIP32KeyWallet", "DescriptorWallet", "ScriptWallet", "KeyWallet", "DescriptorWallet")[it % 5]
        if kind == "BIP32KeyWallet":
            root = r.choice(w.roots[nt])
            st = r.choice(SCRIPT_TYPES)
            purpose = {"p2pkh": 44, "p2wpkh-p2sh": 49, "p2wpkh": 84, "p2tr": 86}[st]
            explicit = r.random() < 0.5
            if explicit:
                purpose = r.choice([44, 49, 84, 86, 0, 7])
            apath = [purpose + HARD, r.choice([0, 1, 5]) + HARD, r.choice([0, 1, 2, HARD - 1]) + HARD]
            acct = w.dv.derive(root, apath)
            form = r.choice(["root-xprv", "account-xprv", "account-xpub", "depth1-xprv"])
            given = {"root-xprv": root, "account-xprv": acct, "account-xpub": rb.neuter(acct), "depth1-xprv": w.dv.derive(root, apath[:1])}[form]
            pstr = "m/" + "/".join(f"{s - HARD}h" for s in apath)
            case = {"id": it, "wallet": kind, "key": given.b58(), "der_path": pstr, "script_type": st if explicit else None, "form": form}
            o = outcome(BIP32KeyWallet, given.b58(), pstr, st if explicit else None)
            if o[0] == "raise":
                if lib_exc_or_violation(ctx, "BIP32KeyWallet", o, case):
                    ctx.stat("wallet:BIP32KeyWallet:construction-refused")
                    ctx.sample("wallet-refused", {**case, "error": str(o[1])[:200]})
                continue
            base = acct if given.is_private else rb.neuter(acct)

            def expected_at(b, i, base=base, st=st):
                try:
                    return single_key_script(rs, rt, st, rb.xkey_pubkey(w.dv.derive(base, [b, i])))
                except (rs.CannotDerive, rt.Fail):
                    return None

            check_ranged_wallet(ctx, w, kind, o[1], expected_at, [0, 1], 0xFFFF, case)
            # the address is the script's, on the key's network
            b, i = r.choice([0, 1]), r.choice([0, 1, 7, 0xFFFF])
            want = expected_at(b, i)
            ao = outcome(o[1].address, b, i)
            if want is not None:
                wa = ra.address_of_script(w.nd, want, "mainnet" if nt == "main" else "testnet")
                if ao[0] == "raise" or ao[1] != wa:
                    ctx.violation("wallet-address-differs:BIP32KeyWallet", f"address({b},{i}) = {ao[1]!r}, reference {wa}", {**case, "branch": b, "index": i})
        elif kind == "DescriptorWallet":
            mode = r.choice(["list", "multipath", "account"])
            if mode == "account":
                root = r.choice(w.roots[nt])
                st = r.choice(SCRIPT_TYPES)
                purpose = {"p2pkh": 44, "p2wpkh-p2sh": 49, "p2wpkh": 84, "p2tr": 86}[st]
                apath = [purpose + HARD, (0 if nt == "main" else 1) + HARD, r.choice([0, 1, 9]) + HARD]
                acct = w.dv.derive(root, apath)
                form = r.choice(["root-xprv", "account-xpub"])
                given = root if form == "root-xprv" else rb.neuter(acct)
                pstr = "m/" + "/".join(f"{s - HARD}h" for s in apath)
                fp = rb.fingerprint(root)
                case = {"id": it, "wallet": kind, "mode": mode, "key": given.b58(), "der_path": pstr, "fingerprint": fp.hex()}
                o = outcome(DescriptorWallet.from_account, given.b58(), pstr, fp)
                pub = rb.neuter(acct)

                def expected_at(b, i, pub=pub, st=st):
                    try:
                        return single_key_script(rs, rt, st, w.dv.derive(pub, [b, i]).key)
                    except (rs.CannotDerive, rt.Fail):
                        return None

                branches = [0, 1]
            else:
                node = None
                while node is None or node[0] == "combo" or not rs.is_ranged(node):
                    node = w.descriptor(net)
                if mode == "multipath":
                    xs = [k for k in all_keys(rs, node) if k.kind == "xkey"]
                    n = r.choice([2, 2, 3])
                    for k in all_keys(rs, node):
                        k.marks = k.marks[0]
                    for k in xs:
                        alts = tuple(r.sample(range(0, 40), n))
                        k.path.insert(r.randrange(len(k.path) + 1), alts)
                    if not xs:
                        continue
                    nodes = [rs.choose(node, j) for j in range(n)]
                    text = w.full(rs.write(node))
                    prv: dict = {}
                    case = {"id": it, "wallet": kind, "mode": mode, "descriptor": text, "network": net}
                    o = outcome(DescriptorWallet.from_descriptor, text, net, prv)
                else:
                    nodes = [node]
                    if r.random() < 0.6:
                        n2 = None
                        while n2 is None or n2[0] == "combo":
                            n2 = w.descriptor(net)
                        nodes.append(n2)
                    prv = {}
                    case = {"id": it, "wallet": kind, "mode": mode, "descriptors": [rs.write(x) for x in nodes], "network": net}
                    ds = [outcome(D.parse, rs.write(x), net, prv) for x in nodes]
                    if any(x[0] == "raise" for x in ds):
                        ctx.stat("wallet:DescriptorWallet:descriptor-refused-at-parse")
                        continue
                    if len({x[1].network for x in ds}) != 1:
                        continue  # an addr() of another network: the wallet refuses the mix by design
                    o = outcome(DescriptorWallet, [x[1] for x in ds], prv or None)
                branches = list(range(len(nodes)))
                has_prv = bool(prv)

                def expected_at(b, i, nodes=nodes, has_prv=has_prv):
                    if i and not rs.is_ranged(nodes[b]):
                        return None
                    e = w.expected(nodes[b], i, neutered=not has_prv, family=nodes)
                    return None if e is None else e[0]

                if any(policy_excuse(rs, x) for x in nodes) or any(expected_at(b, 0) is None for b in branches):
                    continue
            if o[0] == "raise":
                if lib_exc_or_violation(ctx, "DescriptorWallet", o, case):
                    ctx.stat("wallet:DescriptorWallet:construction-refused")
                    ctx.sample("wallet-refused", {**case, "error": str(o[1])[:200]})
                continue
            check_ranged_wallet(ctx, w, kind, o[1], expected_at, branches, HARD - 1, case)
        elif kind == "ScriptWallet":
            st = r.choice(["p2sh", "p2wsh", "p2sh-p2wsh"])
            order = r.choice(["none", "account", "derived"])
            shape = r.choice(["quorum", "quorum", "verify+quorum", "if-else-csv"])

            def group(n):
                keys = []
                for _ in range(n):
                    root = r.choice(w.roots[nt])
                    # an account key is a hardened child (the library's own rule for derive_from_account_)
                    steps = [w.step(r.random() < 0.5) for _ in range(r.choice([0, 1, 1, 3]))]
                    if r.random() < 0.95:
                        steps = steps or [w.step(True)]
                        steps[-1] |= HARD
                    x = w.dv.derive(root, steps)
                    keys.append(x if r.random() < 0.3 else rb.neuter(x))
                return keys

            n1 = r.choice([1, 2, 3, 3, 5])
            g1 = group(n1)
            k1 = r.randrange(1, n1 + 1)
            template_lib, template_ref = [], []
            if shape == "quorum":
                template_lib = [KeyGroup(k1, [x.b58() for x in g1])]
                template_ref = [("group", k1, g1, False)]
            elif shape == "verify+quorum":
                g2 = group(2)
                template_lib = [KeyGroup(k1, [x.b58() for x in g1], True), KeyGroup(1, [x.b58() for x in g2])]
                template_ref = [("group", k1, g1, True), ("group", 1, g2, False)]
            else:
                g2 = group(1)
                template_lib = ["OP_IF", KeyGroup(k1, [x.b58() for x in g1]), "OP_ELSE", 144, "OP_CHECKSEQUENCEVERIFY", "OP_DROP",
                                KeyGroup(1, [x.b58() for x in g2]), "OP_ENDIF"]
                template_ref = [("raw", b"\x63"), ("group", k1, g1, False), ("raw", b"\x67" + b"\x02\x90\x00" + b"\xb2\x75"),
                                ("group", 1, g2, False), ("raw", b"\x68")]
            case = {"id": it, "wallet": kind, "script_type": st, "order": order, "shape": shape, "network": net,
                    "groups": [[x.b58() for x in t[2]] for t in template_ref if t[0] == "group"]}
            o = outcome(ScriptWallet, template_lib, st, order, None, net)
            if o[0] == "raise":
                if lib_exc_or_violation(ctx, "ScriptWallet", o, case):
                    ctx.stat("wallet:ScriptWallet:construction-refused")
                    ctx.sample("wallet-refused", {**case, "error": str(o[1])[:200]})
                continue

            def expected_at(b, i, template_ref=template_ref, order=order, st=st):
                out = b""
                for t in template_ref:
                    if t[0] == "raw":
                        out += t[1]
                        continue
                    _, k, keys, verify = t
                    if order == "account":
                        keys = sorted(keys, key=lambda x: rb.xkey_pubkey(x))
                    try:
                        secs = [rb.xkey_pubkey(w.dv.derive(rb.neuter(x) if x.is_private else x, [b, i])) for x in keys]
                    except rs.CannotDerive:
                        return None
                    if order == "derived":
                        secs.sort()
                    out += rs.small_int(k) + b"".join(rs.push(s) for s in secs) + rs.small_int(len(secs)) + (b"\xaf" if verify else b"\xae")
                return {"p2sh": rs.t_sh(out), "p2wsh": rs.t_wsh(out), "p2sh-p2wsh": rs.t_sh(rs.t_wsh(out))}[st]

            check_ranged_wallet(ctx, w, kind, o[1], expected_at, [0, 1], 0xFFFF, case)
        else:
            st = r.choice(SCRIPT_TYPES)
            wo = outcome(KeyWallet, (), st, net)
            if wo[0] == "raise":
                ctx.violation("KeyWallet-construction-raised", f"KeyWallet((), {st}, {net}) raised {wo[1]!r}", {"script_type": st, "network": net})
                continue
            kw = wo[1]
            mine = []
            for _ in range(r.randrange(1, 5)):
                j = r.randrange(len(w.scalars))
                form = r.choice(["wif", "hex", "int", "bytes", "xpub", "wif-uncompressed"])
                compressed = form != "wif-uncompressed"
                pub = w.pub33(j)
                if form == "wif":
                    key = ra.encode_wif(w.nd, w.scalars[j], net, True)
                elif form == "wif-uncompressed":
                    key = ra.encode_wif(w.nd, w.scalars[j], net, False)
                    pub = w.pub65(j)
                elif form == "hex":
                    key = pub.hex()
                elif form == "bytes":
                    key = pub
                elif form == "int":
                    key = w.scalars[j]
                else:
                    x = rb.neuter(w.dv.derive(r.choice(w.roots[nt]), [r.randrange(5)]))
                    key, pub = x.b58(), x.key
                case = {"wallet": kind, "script_type": st, "network": net, "key_form": form, "key": key if not isinstance(key, bytes) else key.hex()}
                ao = outcome(kw.add, key)
                if not compressed and st != "p2pkh":
                    if ao[0] == "ok":
                        ctx.stat("wallet:KeyWallet:uncompressed-segwit-answered")
                    continue
                if ao[0] == "raise":
                    if lib_exc_or_violation(ctx, "KeyWallet.add", ao, case):
                        ctx.stat("wallet:KeyWallet:add-refused")
                        ctx.sample("wallet-refused", {**case, "error": str(ao[1])[:200]})
                    continue
                spk = rs.t_pkh(pub) if st == "p2pkh" else single_key_script(rs, rt, st, pub)
                wa = ra.address_of_script(w.nd, spk, net)
                ctx.mon("wallet:KeyWallet:address")
                if ao[1] != wa:
                    ctx.violation("wallet-address-differs:KeyWallet", f"add({form}) on {net} as {st} -> {ao[1]!r}, reference {wa}", case)
                elif outcome(lambda: wa in kw and kw.address_info(wa).address == wa)[1] is not True:
                    ctx.violation("KeyWallet-does-not-recognise-own-address", f"{wa} not in the wallet it was added to", case)
                mine.append(wa)
                ctx.case("wallet:KeyWallet:address", (kind, st, net, form, j))
            h20 = bytes(r.randrange(256) for _ in range(20))
            for foreign in (ra.address_of_script(w.nd, ra.spk_p2pkh(h20), net), ra.address_of_script(w.nd, ra.spk_witness(0, h20), net)):
                if foreign in mine:
                    continue
                o = outcome(lambda: foreign in kw)
                ctx.mon("wallet:KeyWallet:foreign")
                if o[0] == "raise" or o[1]:
                    ctx.violation("KeyWallet-claims-foreign-address", f"{foreign} in wallet -> {o[1]!r}", {"wallet": kind, "mine": mine, "foreign": foreign})
                ctx.case("wallet:KeyWallet:foreign", (kind, foreign))
    reach.stop()
    reach.report(ctx)
