"""C20 - nonces sign once, wiped signers stay dead, the wallet ledger, history independence.

History checkers: random call sequences on a secret nonce, on signer objects and on
wallets are recorded at the client boundary and checked against small sequential
models.  History independence: a battery of pure calls is answered once in a quiet
process (golden) and then again in shuffled order, after cache clears and overflows,
with the backend switched between and during the calls, and from several threads
under yield injection; every answer must equal the golden one.
"""

from __future__ import annotations

import hashlib
import threading
import time

from ..ctx import Ctx, is_lib_exc, outcome
from ..hooks import YieldInjector, backend_available, set_backend

PROPERTY = "C20"
RULE = (
    "histories: random operation sequences of length 5..60 over {nonce_gen, sign, sign again, other session, wrong key, broken "
    "session, deterministic_sign} / {sign, wipe, exit, close, sign} / {address(b,i), next_address(b), position_of, address_info, "
    "in, len} with fresh keys per history; distinct = distinct operation sequence (with its arguments). Schedules: multi-threaded "
    "runs of a pure-call battery with seeded yield injection and a backend-toggling thread; distinct = distinct hash of the observed "
    "switch sequence. Concurrent nonce rounds: 2..6 threads released by a barrier call musig2.sign on one secret nonce (same or "
    "different sessions, sometimes one wrong key) at interpreter switch intervals 5 ms .. 1 us, no yield injected; the history is "
    "the multiset of outcomes and at most one may be a signature. A history is non-trivial when it contains at least one successful "
    "signature / handed-out address."
)
ASSUMPTIONS = [
    "CPython's GIL makes statement-level interleaving the relevant granularity; interleavings inside a C call of the bindings are not controllable",
    "a copy of a secret nonce made by the caller before signing is the caller's protocol violation and is not exercised",
]

N = 0xFFFFFFFFFFFFFFFFFFFFFFFFFFFFFFFEBAAEDCE6AF48A03BBFD25E8CD0364141


def H(*a) -> bytes:
    return hashlib.sha256(repr(a).encode()).digest()


def plan(tier: str, seed: int) -> list[dict]:
    q = tier == "quick"
    specs = []
    for i in range(3 if q else 6):
        specs.append({"name": f"nonce-{i}", "fn": "shard_nonce", "histories": 500 if q else 12000, "_budget_s": 60 if q else 900, "_timeout_s": 500 if q else 2400})
    for i in range(2 if q else 6):
        specs.append({"name": f"nonce-threads-{i}", "fn": "shard_nonce_threads", "rounds": 1500 if q else 40000, "_budget_s": 60 if q else 900, "_timeout_s": 500 if q else 2400})
    for i in range(2 if q else 4):
        specs.append({"name": f"signer-{i}", "fn": "shard_signer", "histories": 500 if q else 12000, "_budget_s": 150 if q else 900, "_timeout_s": 500 if q else 2400})
    for i in range(3 if q else 6):
        specs.append({"name": f"wallet-{i}", "fn": "shard_wallet", "histories": 250 if q else 5000, "_budget_s": 150 if q else 900, "_timeout_s": 500 if q else 2400})
    specs.append({"name": "independence", "fn": "shard_independence", "rounds": 6 if q else 80, "_budget_s": 150 if q else 900, "_timeout_s": 500 if q else 2400})
    specs.append({"name": "publication", "fn": "shard_publication", "_budget_s": 100 if q else 400, "_timeout_s": 500 if q else 1500})
    for i in range(6 if q else 10):
        specs.append({"name": f"threads-{i}", "fn": "shard_threads", "schedules": 5 if q else 200, "threads": 4 + i % 5,
                      "_budget_s": 150 if q else 1000, "_timeout_s": 600 if q else 2400})
    return specs


def finalize(m: dict, tier: str) -> list[str]:
    out = []
    s, c = m["stats"], m["classes"]
    need_stats = ["nonce:success", "nonce:refused-after-use", "nonce-threads:signers-that-signed:1", "nonce:psbt-partial_sign:success", "signer:dsa:signed", "signer:ssa:signed",
                  "signer:software:signed", "signer:refused-when-dead", "wallet:next_address", "wallet:address", "wallet:kind:BIP32KeyWallet",
                  "wallet:kind:DescriptorWallet", "wallet:kind:ScriptWallet", "wallet:kind:KeyWallet", "independence:after-cache-clear",
                  "independence:after-cache-overflow", "independence:backend-switched", "independence:after-the-caller-edited-an-answer", "cache:hit:_cached_base58_decode",
                  "cache:miss:_cached_base58_decode", "cache:hit:_cached_fixed_base_multiples", "cache:miss:_cached_fixed_base_multiples"]
    for k in need_stats:
        if not s.get(k):
            out.append(f"monitor/statistic {k} never observed")
    if s.get("threads:switches", 0) < 1000:
        out.append(f"fewer than 1000 thread switches observed inside the anchored files ({s.get('threads:switches', 0)})")
    if not c.get("schedule"):
        out.append("no multi-threaded schedule was run")
    if not s.get("publication:reader-at-a-publication-point"):
        out.append("no reader was run at a publication point of the lazily loaded word lists")
    return out


# =================================================================== nonce
def shard_nonce(ctx: Ctx) -> None:
    from btclib.curves.curve import mult
    from btclib.curves.sec_point import bytes_from_point
    from btclib.ecc import musig2, ssa

    r = ctx.rng
    psbt_env = _PsbtMusig(ctx)
    for h in range(ctx.params["histories"]):
        if ctx.out_of_time():
            break
        if backend_available():
            set_backend(r.random() < 0.5)
        n_signers = r.choice([1, 2, 2, 3])
        sks = [int.from_bytes(H("sk", ctx.shard, h, j), "big") % (N - 1) + 1 for j in range(n_signers)]
        pks = [bytes_from_point(mult(k)) for k in sks]
        msg = H("msg", h)[: r.choice([0, 32, 32, 20])]
        me = 0
        # model: per nonce object -> number of successful signatures; spent scalars
        nonces: list[tuple[bytearray, bytes]] = []
        successes: dict[int, int] = {}
        history = []
        spent_scalars: set[bytes] = set()
        others = [musig2.nonce_gen(k, pk, None, msg, None) for k, pk in zip(sks[1:], pks[1:])]

        def session(variant=0, pub_nonce=None):
            pubs = [pub_nonce] + [o[1] for o in others]
            agg = musig2.nonce_agg(pubs)
            tweaks = [H("tw", h, variant)] if variant else []
            return musig2.SessionContext(agg, list(pks), tweaks, [bool(variant % 2)] * len(tweaks), msg if variant < 3 else msg + b"x")

        for step in range(r.randrange(5, 40)):
            op = r.choice(["nonce_gen", "sign", "sign", "sign-again", "other-session", "wrong-key", "broken-session", "deterministic",
                           "switch-backend", "unrelated"])
            if op == "nonce_gen" or not nonces:
                sn, pn = musig2.nonce_gen(sks[me], pks[me], None, msg, H("extra", h, step))
                nonces.append((sn, pn))
                successes[len(nonces) - 1] = 0
                history.append(("nonce_gen", len(nonces) - 1))
                continue
            if op == "switch-backend":
                if backend_available():
                    set_backend(r.random() < 0.5)
                history.append(("switch-backend",))
                continue
            if op == "unrelated":
                ssa.sign_(msg or b"\x00", sks[me], bytes(32))
                history.append(("unrelated",))
                continue
            if op == "deterministic" and n_signers > 1:
                o = outcome(musig2.deterministic_sign, sks[me], musig2.nonce_agg([o_[1] for o_ in others]), list(pks), [], [], msg, bytes(32))
                history.append(("deterministic", o[0]))
                continue
            i = r.randrange(len(nonces))
            sn, pn = nonces[i]
            before = bytes(sn[:64])
            variant = {"sign": 0, "sign-again": 0, "other-session": r.choice([1, 2, 3]), "wrong-key": 0, "broken-session": 0}.get(op, 0)
            key = sks[me]
            if op == "wrong-key":
                key = (sks[me] + 1) % N or 1
            if op == "broken-session":
                o = outcome(lambda: musig2.sign(sn, key, musig2.SessionContext(b"\x02" + bytes(32) + b"\x02" + bytes(32), list(pks), [], [], msg)))
            else:
                sess = session(variant, pn)
                o = outcome(musig2.sign, sn, key, sess)
            history.append((op, i, o[0] if o[0] == "ok" else type(o[1]).__name__))
            ctx.mon("M5:musig2.sign")
            if o[0] == "ok":
                successes[i] += 1
                ctx.stat("nonce:success")
                if before in spent_scalars or successes[i] > 1:
                    ctx.violation("nonce-signed-twice", f"musig2.sign returned a second partial signature for one secret nonce (history of {len(history)} ops)",
                                  {"history": history, "nonce_index": i})
                spent_scalars.add(before)
                if bytes(sn[:64]) != bytes(64):
                    ctx.violation("nonce-not-zeroed-after-signing", "the secret nonce still holds its scalars after a successful musig2.sign",
                                  {"history": history})
                # the signature must be a valid partial signature of that session (so that 'success' means what it says)
                if not musig2.partial_sig_verify_(o[1], pn, pks[me], sess):
                    ctx.violation("partial-signature-invalid", "musig2.sign returned a partial signature that does not verify", {"history": history})
            else:
                if not is_lib_exc(o[1]):
                    ctx.violation(f"nonce:foreign-exception:{type(o[1]).__name__}", f"musig2.sign raised {o[1]!r}", {"history": history})
                if successes[i] >= 1:
                    ctx.stat("nonce:refused-after-use")
        ctx.case("nonce-history", tuple(history), nontrivial=any(v for v in successes.values()), sample={"history": history[:12], "signers": n_signers})
        # the same through psbt.musig2 (BIP373 roles)
        if h % 4 == 0:
            psbt_env.history(h)
    if backend_available():
        set_backend(True)


def shard_nonce_threads(ctx: Ctx) -> None:
    """One secret nonce handed to several threads at once: at most one of them signs.

    Each round a fresh nonce and 2..6 threads released by a barrier, each calling ``musig2.sign`` with the same
    bytearray (same or different sessions, right and wrong keys mixed in); the history is the multiset of outcomes.
    No yields are injected: the interpreter's own preemption, at switch intervals a program may set, is the schedule.
    """
    import sys
    import threading

    from btclib.curves.curve import mult
    from btclib.curves.sec_point import bytes_from_point
    from btclib.ecc import musig2

    r = ctx.rng
    old_interval = sys.getswitchinterval()
    try:
        for h in range(ctx.params["rounds"]):
            if ctx.out_of_time():
                break
            interval = r.choice([5e-3, 1e-4, 1e-5, 1e-5, 1e-6])
            sys.setswitchinterval(interval)
            if backend_available():
                set_backend(h % 5 != 4)
            nthreads = r.choice([2, 3, 4, 4, 6])
            sks = [int.from_bytes(H("tsk", ctx.shard, h, j), "big") % (N - 1) + 1 for j in range(2)]
            pks = [bytes_from_point(mult(k)) for k in sks]
            msg = H("tmsg", h)
            other = musig2.nonce_gen(sks[1], pks[1], None, msg, None)
            sn, pn = musig2.nonce_gen(sks[0], pks[0], None, msg, H("textra", h))
            agg = musig2.nonce_agg([pn, other[1]])
            same_session = h % 3 == 0
            sessions = [musig2.SessionContext(agg, list(pks), [], [], msg if same_session else msg + bytes([i])) for i in range(nthreads)]
            wrong = r.randrange(nthreads) if h % 4 == 1 else -1     # one caller picks up the wrong key
            bar = threading.Barrier(nthreads)
            res: list = [None] * nthreads

            def run(i):
                key = sks[0] if i != wrong else (sks[0] + 1) % N or 1
                bar.wait()
                res[i] = outcome(musig2.sign, sn, key, sessions[i])
            ths = [threading.Thread(target=run, args=(i,)) for i in range(nthreads)]
            for t in ths:
                t.start()
            for t in ths:
                t.join(60)
            if any(t.is_alive() for t in ths) or any(x is None for x in res):
                ctx.stat("nonce-threads:round-abandoned")
                continue
            signed = [i for i, x in enumerate(res) if x[0] == "ok"]
            ctx.mon("M5:musig2.sign:concurrent", nthreads)
            ctx.stat(f"nonce-threads:signers-that-signed:{len(signed)}")
            ctx.stat(f"nonce-threads:switch-interval:{interval}")
            case = {"threads": nthreads, "switch_interval": interval, "same_session": same_session, "wrong_key_thread": wrong,
                    "outcomes": [x[0] if x[0] == "ok" else type(x[1]).__name__ for x in res]}
            if len(signed) > 1:
                ctx.violation("nonce-signed-twice:concurrent-callers",
                              f"{len(signed)} of {nthreads} threads handed one secret nonce each got a partial signature from musig2.sign", case)
            for x in res:
                if x[0] == "raise" and not is_lib_exc(x[1]):
                    ctx.violation(f"nonce:foreign-exception:{type(x[1]).__name__}", f"concurrent musig2.sign raised {x[1]!r}", case)
            if signed and bytes(sn[:64]) != bytes(64):
                ctx.violation("nonce-not-zeroed-after-signing", "the secret nonce still holds its scalars after concurrent musig2.sign calls", case)
            ctx.case("nonce-threads", (nthreads, interval, same_session, wrong, tuple(case["outcomes"])), nontrivial=bool(signed), sample=case)
    finally:
        sys.setswitchinterval(old_interval)
        if backend_available():
            set_backend(True)


class _PsbtMusig:
    """partial_sign twice on one secret nonce through btclib.psbt.musig2."""

    def __init__(self, ctx: Ctx):
        self.ctx = ctx

    def history(self, h: int) -> None:
        from btclib.curves.curve import mult
        from btclib.curves.sec_point import bytes_from_point
        from btclib.ecc import musig2
        from btclib.psbt import musig2 as pm
        from btclib.psbt.psbt import Psbt
        from btclib.psbt.psbt_in import PsbtIn
        from btclib.script import ScriptPubKey
        from btclib.tx import OutPoint, Tx, TxIn, TxOut

        ctx, r = self.ctx, self.ctx.rng
        sks = [int.from_bytes(H("psk", ctx.shard, h, j), "big") % (N - 1) + 1 for j in range(2)]
        pks = [bytes_from_point(mult(k)) for k in sks]
        o = outcome(musig2.key_agg, pks)
        if o[0] == "raise":
            ctx.stat("nonce:psbt-setup-refused")
            return
        kac = o[1]
        Q = getattr(kac, "Q", None)
        if Q is None:
            ctx.stat("nonce:psbt-setup-unavailable")
            return
        agg = bytes_from_point(Q)
        spk = b"\x51\x20" + Q[0].to_bytes(32, "big")   # the aggregate key itself as the output key (no tweak)
        fund_out = TxOut(50000, ScriptPubKey(spk, check_validity=False))
        tx = Tx(2, 0, [TxIn(OutPoint(H("f", h), 0), b"", 0xFFFFFFFD)], [TxOut(40000, ScriptPubKey(b"\x00\x14" + bytes(20)))])

        def setup():
            psbt = Psbt.from_tx(tx.__class__.parse(tx.serialize(include_witness=False)))
            psbt.inputs[0].witness_utxo = fund_out
            psbt.inputs[0].musig2_participant_pub_keys[agg] = list(pks)
            return psbt
        so = outcome(setup)
        if so[0] == "raise":
            ctx.stat(f"nonce:psbt-setup-failed:{type(so[1]).__name__}")
            return
        psbt = so[1]
        hist = []
        no = outcome(pm.nonce_gen, psbt, 0, sks[0], agg)
        if no[0] == "raise":
            ctx.stat(f"nonce:psbt-nonce_gen-refused:{str(no[1])[:40]}")
            return
        sn = no[1]
        outcome(pm.nonce_gen, psbt, 0, sks[1], agg)
        ok = 0
        for step in range(r.randrange(2, 6)):
            before = bytes(sn[:64])
            o = outcome(pm.partial_sign, psbt, 0, sn, sks[0], agg)
            hist.append(("partial_sign", o[0] if o[0] == "ok" else type(o[1]).__name__ + ":" + str(o[1])[:40]))
            ctx.mon("M5:psbt.musig2.partial_sign")
            if o[0] == "ok":
                ok += 1
                ctx.stat("nonce:psbt-partial_sign:success")
                if ok > 1:
                    ctx.violation("nonce-signed-twice:psbt.partial_sign", "psbt.musig2.partial_sign signed twice with one secret nonce", {"history": hist})
                if bytes(sn[:64]) != bytes(64) and before != bytes(64):
                    ctx.violation("nonce-not-zeroed-after-signing:psbt.partial_sign", "secret nonce intact after partial_sign", {"history": hist})
            elif not is_lib_exc(o[1]):
                ctx.violation(f"nonce:foreign-exception:{type(o[1]).__name__}", f"partial_sign raised {o[1]!r}", {"history": hist})
            elif ok:
                ctx.stat("nonce:refused-after-use")
            if r.random() < 0.3:   # a fresh session over the same psbt in between
                outcome(pm.nonce_gen, psbt, 0, sks[1], agg)
        ctx.case("nonce-history:psbt", tuple(hist), nontrivial=ok > 0)


# ================================================================== signers
def shard_signer(ctx: Ctx) -> None:
    from btclib.bip32 import bip32
    from btclib.ecc import dsa, ssa
    from btclib.psbt_signer import SoftwareSigner, request_signatures

    r = ctx.rng
    flow = _WpkhPsbt()
    for h in range(ctx.params["histories"]):
        if ctx.out_of_time():
            break
        kind = ("dsa", "ssa", "software")[h % 3]
        key = int.from_bytes(H("k", ctx.shard, h), "big") % (N - 1) + 1
        history = []
        if backend_available():
            set_backend(r.random() < 0.5)
        if kind == "software":
            root = bip32.rootxprv_from_seed(H("seed", ctx.shard, h))
            signer = SoftwareSigner(root)
            psbt = flow.psbt(root)
        else:
            signer = (dsa if kind == "dsa" else ssa).Signer(key)
        alive = True
        signed = 0
        for step in range(r.randrange(4, 25)):
            op = r.choice(["sign", "sign", "sign_", "kill", "switch-backend", "enter-exit", "other-entry"])
            if op == "switch-backend":
                if backend_available():
                    set_backend(r.random() < 0.5)
                history.append(("switch-backend",))
                continue
            if op == "kill":
                how = r.choice(["wipe", "exit", "close"])
                if kind == "software":
                    signer.close()
                    how = "close"
                elif how == "exit":
                    signer.__exit__(None, None, None)
                else:
                    signer.wipe()
                alive = False
                history.append((how,))
                continue
            if op == "enter-exit" and kind != "software":
                if alive and r.random() < 0.5:
                    o = outcome(lambda: signer.__enter__())
                    history.append(("enter", o[0]))
                continue
            msg = H("m", h, step)
            if kind == "software":
                if op == "other-entry":
                    which = r.randrange(6)
                    if which < 2:     # the KeyManager face of the same object: psbt.sign(psbt, signer) and its callbacks
                        from btclib.psbt.psbt import sign as psbt_sign
                        pin = psbt.inputs[0]
                        (pk, origin), = list(pin.hd_key_paths.items())[:1]
                        call = (lambda: psbt_sign(psbt, signer)[0]) if which == 0 else (lambda: signer.sign_ecdsa(pk, origin, msg))
                        entry = "sign_psbt" if which == 0 else "sign_ecdsa"
                    else:
                        call = [lambda: signer.sign_message(msg, "m/84h/0h/0h/0/5"), lambda: signer.xpub("m/84h/0h/0h"),
                                lambda: signer.capabilities, lambda: signer.master_fingerprint][which - 2]
                        entry = "sign_message" if which == 2 else "other"
                else:
                    call, entry = (lambda: request_signatures(signer, psbt)) if r.random() < 0.5 else (lambda: signer.sign_psbt(psbt)), "sign_psbt"
            elif kind == "dsa":
                call, entry = ((lambda: signer.sign_(msg)), "sign_") if op != "sign" else ((lambda: signer.sign(msg)), "sign")
            else:
                call, entry = ((lambda: signer.sign_(msg, bytes(32))), "sign_") if op != "sign" else ((lambda: signer.sign(msg, bytes(32))), "sign")
            o = outcome(call)
            history.append((entry, o[0] if o[0] == "ok" else type(o[1]).__name__))
            ctx.mon(f"signer-model:{kind}")
            if alive and kind in ("dsa", "ssa") and entry in ("sign", "sign_"):
                # a live signer is a pure function of (key, message): whatever was switched, entered or signed before,
                # it answers, and it answers what the module-level function answers for the same key
                mod = dsa if kind == "dsa" else ssa
                free = getattr(mod, entry)
                want = outcome(lambda: free(msg, key) if kind == "dsa" else free(msg, key, bytes(32)))
                ctx.mon(f"signer-vs-function:{kind}")
                if o[0] == "raise" and want[0] == "ok":
                    ctx.violation(f"live-signer-refused:{kind}:{type(o[1]).__name__}", f"{kind}.Signer.{entry} raised {o[1]!r} while alive; history {history[-6:]}",
                                  {"history": history})
                elif o[0] == "ok" and want[0] == "ok":
                    a, b = _canon(o[1]), _canon(want[1].serialize() if hasattr(want[1], "serialize") and not hasattr(o[1], "serialize") else want[1])
                    if a != b:
                        ctx.violation(f"signer-answer-depends-on-history:{kind}", f"{kind}.Signer.{entry} = {str(a)[:100]}, {kind}.{entry} = {str(b)[:100]}; history {history[-6:]}",
                                      {"history": history})
            signing_entry = entry in ("sign", "sign_", "sign_psbt", "sign_ecdsa", "sign_message")
            if o[0] == "ok" and entry == "sign_ecdsa" and o[1] is None:
                continue   # "not my key": no signature was made
            if o[0] == "ok":
                if not alive and signing_entry:
                    ctx.violation(f"dead-signer-signed:{kind}", f"{kind} signer answered {entry} after {history[-2] if len(history) > 1 else ''}",
                                  {"history": history})
                if alive and signing_entry:
                    signed += 1
                    ctx.stat(f"signer:{kind}:signed")
            else:
                if not is_lib_exc(o[1]):
                    ctx.violation(f"signer:foreign-exception:{type(o[1]).__name__}", f"{kind}.{entry} raised {o[1]!r}", {"history": history})
                if not alive:
                    ctx.stat("signer:refused-when-dead")
                elif signing_entry:
                    ctx.stat(f"signer:{kind}:refused-while-alive")
        ctx.case(f"signer-history:{kind}", (kind, tuple(history)), nontrivial=signed > 0, sample={"kind": kind, "history": history[:12]})
    if backend_available():
        set_backend(True)


def _is_signature(v) -> bool:
    return isinstance(v, str) and len(v) >= 80


class _WpkhPsbt:
    def psbt(self, root):
        from btclib.bip32.bip32 import derive, fingerprint, xpub_from_xprv
        from btclib.descriptors import parse
        from btclib.descriptors.descriptors import add_checksum
        from btclib.psbt.psbt import Psbt
        from btclib.script import ScriptPubKey
        from btclib.tx import OutPoint, Tx, TxIn, TxOut

        fp = fingerprint(root).hex()
        acc = derive(root, "m/84h/0h/0h")
        desc = parse(add_checksum(f"wpkh([{fp}/84h/0h/0h]{xpub_from_xprv(acc)}/0/*)"))
        spk = desc.script_pub_key(5)
        fund = Tx(2, 0, [TxIn(OutPoint(b"\x07" * 32, 1), b"", 0xFFFFFFFE)], [TxOut(50000, spk)])
        tx = Tx(2, 0, [TxIn(OutPoint(fund.id, 0), b"", 0xFFFFFFFD)], [TxOut(40000, ScriptPubKey(b"\x00\x14" + b"\x22" * 20))])
        psbt = Psbt.from_tx(tx)
        psbt.inputs[0].witness_utxo = fund.vout[0]
        return desc.update_psbt_input(psbt, 0, 5)


# ================================================================== wallets
def shard_wallet(ctx: Ctx) -> None:
    from btclib.bip32 import bip32
    from btclib.descriptors import parse
    from btclib.descriptors.descriptors import add_checksum
    from btclib.wallet.descriptor_wallet import DescriptorWallet
    from btclib.wallet.key_wallet import BIP32KeyWallet, KeyWallet
    from btclib.wallet.script_wallet import KeyGroup, ScriptWallet

    r = ctx.rng
    for h in range(ctx.params["histories"]):
        if ctx.out_of_time():
            break
        root = bip32.rootxprv_from_seed(H("wseed", ctx.shard, h))
        kind = ("BIP32KeyWallet", "DescriptorWallet", "ScriptWallet", "KeyWallet")[h % 4]
        try:
            if kind == "BIP32KeyWallet":
                w = BIP32KeyWallet(root, script_type=r.choice(["p2pkh", "p2wpkh", "p2wpkh-p2sh", "p2tr"]) if r.random() < 0.8 else None)
            elif kind == "DescriptorWallet":
                fp = bip32.fingerprint(root).hex()
                acc = bip32.xpub_from_xprv(bip32.derive(root, "m/84h/0h/0h"))
                descs = [parse(add_checksum(f"wpkh([{fp}/84h/0h/0h]{acc}/{b}/*)")) for b in (0, 1)]
                w = DescriptorWallet(descs)
            elif kind == "ScriptWallet":
                xs = [bip32.xpub_from_xprv(bip32.derive(root, f"m/48h/0h/{j}h")) for j in range(3)]
                w = ScriptWallet([KeyGroup(2, xs)], "p2wsh", order=r.choice(["none", "account", "derived"]))
            else:
                w = KeyWallet((), r.choice(["p2pkh", "p2wpkh"]))
        except Exception as e:  # noqa: BLE001
            if not is_lib_exc(e):
                raise
            ctx.stat(f"wallet:setup-refused:{kind}:{str(e)[:50]}")
            continue
        ctx.stat(f"wallet:kind:{kind}")
        if kind == "KeyWallet":
            _keywallet_history(ctx, w, h)
            continue
        branches = list(w.branches)[:2] or [0]
        high: dict[int, int] = {}          # model: per-branch high-water mark (next index)
        ledger: list[str] = []             # model: ordered, no duplicates
        where: dict[str, tuple[int, int]] = {}
        history = []
        for step in range(r.randrange(5, 45)):
            op = r.choice(["address", "address", "next", "next", "next", "position_of", "info", "foreign", "bad-branch"])
            b = r.choice(branches)
            if op == "address":
                base = high.get(b, 0)
                i = r.choice([0, 1, base, base + 1, base + 3, max(0, base - 1), r.randrange(0, 12)])
                o = outcome(w.address, b, i)
                history.append(("address", b, i, o[0]))
                if o[0] == "ok":
                    ctx.stat("wallet:address")
                    a = o[1]
                    high[b] = max(high.get(b, 0), i + 1)
                    if a in where and where[a] != (b, i):
                        ctx.stat("wallet:same-address-two-positions")
                    if a not in where:
                        ledger.append(a)
                        where[a] = (b, i)
                elif not is_lib_exc(o[1]):
                    ctx.violation(f"wallet:foreign-exception:{type(o[1]).__name__}", f"address({b},{i}) raised {o[1]!r}", {"history": history})
            elif op == "next":
                want_i = high.get(b, 0)
                o = outcome(w.next_address, b)
                history.append(("next_address", b, o[0]))
                if o[0] == "ok":
                    ctx.stat("wallet:next_address")
                    a = o[1]
                    exp = outcome(w._address, b, want_i)   # the address at the model's index, computed without recording
                    if exp[0] == "ok" and exp[1] != a:
                        ctx.violation("next-address-not-lowest-unused", f"{kind}.next_address({b}) returned an address other than the one at index {want_i}, "
                                      f"the lowest above every index handed out on the branch", {"history": history, "kind": kind, "expected_index": want_i})
                    high[b] = want_i + 1
                    if a not in where:
                        ledger.append(a)
                        where[a] = (b, want_i)
                    elif where[a][0] == b and where[a][1] < want_i:
                        ctx.violation("next-address-repeats-an-earlier-one", f"{kind}.next_address({b}) returned an address already handed out at {where[a]}",
                                      {"history": history})
                elif not is_lib_exc(o[1]):
                    ctx.violation(f"wallet:foreign-exception:{type(o[1]).__name__}", f"next_address({b}) raised {o[1]!r}", {"history": history})
            elif op == "position_of" and ledger:
                a = r.choice(ledger)
                o = outcome(w.position_of, a, 40)
                history.append(("position_of", o[0]))
                if o[0] == "ok" and o[1] is not None and where[a][1] <= 40:
                    got = tuple(o[1])
                    # the first position paying to the script wins; ours must derive the same address
                    if got != where[a] and outcome(w._address, *got) != ("ok", a):
                        ctx.violation("position_of-wrong", f"position_of gives {got} for an address handed out at {where[a]}", {"history": history})
                elif o[0] == "ok" and o[1] is None and where[a][1] <= 40:
                    ctx.violation("position_of-misses-own-address", f"position_of does not find an address handed out at {where[a]}", {"history": history})
            elif op == "info" and ledger:
                a = r.choice(ledger)
                o = outcome(w.address_info, a)
                if o[0] == "raise":
                    ctx.violation("ledger-lost-an-address", f"address_info raises for an address handed out: {o[1]!r}", {"history": history})
                elif (o[1].branch, o[1].index) != where[a] and outcome(w._address, o[1].branch, o[1].index) != ("ok", a):
                    ctx.violation("ledger-wrong-position", f"address_info says {(o[1].branch, o[1].index)}, handed out at {where[a]}", {"history": history})
            elif op == "foreign":
                o = outcome(lambda: "bc1qw508d6qejxtdg4y5r3zarvary0c5xw7kv8f3t4" in w)
                if o == ("ok", True) and "bc1qw508d6qejxtdg4y5r3zarvary0c5xw7kv8f3t4" not in where:
                    ctx.violation("ledger-claims-foreign-address", "an address never handed out is reported as in the wallet", {"history": history})
            elif op == "bad-branch":
                o = outcome(w.next_address, r.choice([-1, 7, 2**31]))
                if o[0] == "ok" and kind != "BIP32KeyWallet":
                    ctx.stat("wallet:odd-branch-answered")
                elif o[0] == "raise" and not is_lib_exc(o[1]):
                    ctx.violation(f"wallet:foreign-exception:{type(o[1]).__name__}", f"next_address(bad branch) raised {o[1]!r}", {"history": history})
            # invariants after every operation
            got = list(w.addresses)
            if got != ledger:
                dup = len(got) != len(set(got))
                ctx.violation("ledger-differs-from-model" + (":duplicate" if dup else ""),
                              f"{kind}.addresses has {len(got)} entries, the model {len(ledger)}; first difference at "
                              f"{next((k for k, (x, y) in enumerate(zip(got, ledger)) if x != y), min(len(got), len(ledger)))}",
                              {"history": history, "kind": kind})
                break
            if len(w) != len(ledger):
                ctx.violation("ledger-length-differs", f"len(wallet)={len(w)} model={len(ledger)}", {"history": history})
            ctx.mon("wallet-model")
        ctx.case(f"wallet-history:{kind}", (kind, tuple(history)), nontrivial=bool(ledger), sample={"kind": kind, "history": history[:10]})


def _keywallet_history(ctx: Ctx, w, h: int) -> None:
    r = ctx.rng
    ledger: list[str] = []
    history = []
    for step in range(r.randrange(3, 15)):
        k = int.from_bytes(H("kw", ctx.shard, h, r.randrange(6)), "big") % (N - 1) + 1
        o = outcome(w.add, k)
        history.append(("add", o[0]))
        if o[0] == "ok":
            a = o[1] if isinstance(o[1], str) else None
            if a is not None and a not in ledger:
                ledger.append(a)
        elif not is_lib_exc(o[1]):
            ctx.violation(f"wallet:foreign-exception:{type(o[1]).__name__}", f"KeyWallet.add raised {o[1]!r}", {"history": history})
        got = list(w.addresses)
        if len(got) != len(set(got)):
            ctx.violation("ledger-differs-from-model:duplicate", "KeyWallet.addresses holds an address twice", {"history": history})
        if ledger and got != ledger and all(isinstance(x, str) for x in ledger):
            ctx.violation("ledger-differs-from-model", f"KeyWallet.addresses {len(got)} vs model {len(ledger)}", {"history": history})
        ctx.mon("wallet-model")
    ctx.case("wallet-history:KeyWallet", ("KeyWallet", tuple(history), h), nontrivial=bool(ledger))


# ======================================================= history independence
def build_battery(seed: int):
    """Pure calls over every memoized or dispatching path; each returns a canonical value."""
    from btclib.bip32 import bip32
    from btclib.curves.curve import CURVES, PreparedPoint, double_mult_var, mult, multi_mult_var, secp256k1
    from btclib.curves.sec_point import bytes_from_point
    from btclib.ecc import dsa, musig2, ssa
    from btclib.mnemonic import bip39
    from btclib.script import taproot

    n = secp256k1.n
    root = bip32.rootxprv_from_seed(H("battery", seed))
    xpub = bip32.xpub_from_xprv(bip32.derive(root, "m/0h"))
    set_backend(True)
    battery = []
    ec2 = CURVES["secp256r1"]
    for i in range(24):
        k = int.from_bytes(H("k", seed, i), "big") % n or 1
        Pt = mult(k)
        m32 = H("m", seed, i)
        battery += [
            ("mult-G", lambda k=k: mult(k)),
            ("mult-P", lambda k=k, Pt=Pt: mult(k + 1, Pt)),
            ("double", lambda k=k, Pt=Pt: double_mult_var(k, Pt, k + 3, secp256k1.G)),
            ("multi", lambda k=k, Pt=Pt: multi_mult_var([k, k + 1, k + 2], [Pt, secp256k1.G, mult(3)])),
            ("prepared", lambda k=k, Pt=Pt: PreparedPoint(Pt).mult(k + 5)),
            ("other-curve", lambda k=k: mult(k % ec2.n or 1, None, ec2)),
            ("dsa.sign_", lambda k=k, m32=m32: dsa.sign_(m32, k).serialize()),
            ("ssa.sign_", lambda k=k, m32=m32: ssa.sign_(m32, k, bytes(32)).serialize()),
            ("dsa.verify_", lambda k=k, Pt=Pt, m32=m32: dsa.verify_(m32, Pt, dsa.sign_(m32, k))),
            ("bip32-prv", lambda i=i: bip32.derive(root, f"m/{i}h/{i}/1")),
            ("bip32-pub", lambda i=i: bip32.derive(xpub, f"m/{i}/7")),
            ("taproot", lambda Pt=Pt: taproot.output_pubkey_from_merkle_root(Pt[0].to_bytes(32, "big"), H("r"))),
            ("bip39", lambda i=i: bip39.mnemonic_from_entropy(H("e", i)[:16], ("en", "it", "es", "fr")[i % 4])),
        ]
    # answers that are mutable containers: what a caller does to its own copy must not reach the next caller
    from btclib.bip32 import der_path as dp
    from btclib.script import script as sc

    for i, text in enumerate(("m/84h/0h/0h/0/5", "m/44'/0'/1'/1/2147483647", "m/0H/1/2H", f"m/{seed % 1000}h/7", "m")):
        battery += [("der_path.indexes", lambda text=text: dp.indexes_from_der_path(text)),
                    ("der_path.indexes-of-ints", lambda i=i: dp.indexes_from_der_path([i, 2**31 + i, 5])),
                    ("derive-by-text", lambda text=text: bip32.derive(root, text))]
        if hasattr(dp, "hardenings_from_der_path"):
            battery.append(("der_path.hardenings", lambda text=text: dp.hardenings_from_der_path(text)))
    for raw in (b"\x76\xa9\x14" + bytes(20) + b"\x88\xac", b"\x51\x20" + bytes(range(32)), b"\x00\x63\x51\x67\x52\x68", b""):
        battery.append(("script.parse", lambda raw=raw: sc.parse(raw)))
    # the other public functions that answer with a list: lookups a caller may well consume as it reads them
    from btclib import b32, b58, network as nw
    from btclib.mnemonic import mnemonic as mnm
    from btclib.number_theory import mod_inv_batch_var
    from btclib.script import script_pub_key as spkm

    addr_b58 = b58.p2pkh(bytes_from_point(mult(7 + seed)))
    addr_b32 = b32.p2wpkh(bytes_from_point(mult(7 + seed)))
    wif = b58.wif_from_prv_key(7 + seed)
    for field, prefix in (("p2pkh", b"\x00"), ("p2pkh", b"\x6f"), ("p2sh", b"\x05"), ("wif", b"\xef"), ("hrp", "tb"), ("hrp", "bc")):
        battery.append(("network.networks_from_key_value", lambda field=field, prefix=prefix: nw.networks_from_key_value(field, prefix)))
    for net in ("mainnet", "testnet", "regtest"):
        battery += [("network.xpubversions", lambda net=net: nw.xpubversions_from_network(net)),
                    ("network.xprvversions", lambda net=net: nw.xprvversions_from_network(net))]
    battery += [("network.networks_from_xkeyversion", lambda: nw.networks_from_xkeyversion(bytes.fromhex("043587cf"))),
                ("address-read-back:b58", lambda: b58.h160_from_address(addr_b58)), ("address-read-back:b32", lambda: b32.witness_from_address(addr_b32)),
                ("address-read-back:wif", lambda: b58.prv_keyinfo_from_wif(wif) if hasattr(b58, "prv_keyinfo_from_wif") else None),
                ("script_pub_key.addresses", lambda: spkm.addresses(b"\x76\xa9\x14" + bytes(20) + b"\x88\xac")),
                ("mnemonic.indexes", lambda: mnm.indexes_from_mnemonic("abandon zoo about", "en")),
                ("musig2.key_sort", lambda: musig2.key_sort([bytes_from_point(mult(9)), bytes_from_point(mult(3)), bytes_from_point(mult(5))])),
                ("mod_inv_batch_var", lambda: mod_inv_batch_var([3, 5, 7, 11], 10007)),
                ("dsa.recover_pub_keys_", lambda: dsa.recover_pub_keys_(H("m", seed), dsa.sign_(H("m", seed), 11 + seed)))]
    # one MuSig2 session object verified repeatedly (per-session caches)
    sks = [5 + seed, 7 + seed]
    pks = [bytes_from_point(mult(s)) for s in sks]
    nn = [musig2.nonce_gen(s, p, None, b"m" * 32, None) for s, p in zip(sks, pks)]
    sess = musig2.SessionContext(musig2.nonce_agg([x[1] for x in nn]), pks, [], [], b"m" * 32)
    psig = musig2.sign(bytearray(nn[0][0]), sks[0], sess)
    battery.append(("musig2-verify", lambda: musig2.partial_sig_verify_(psig, nn[0][1], pks[0], sess)))
    battery.append(("musig2-verify-bad", lambda: musig2.partial_sig_verify_(psig, nn[1][1], pks[1], sess)))
    return battery


def _canon(v):
    from .c04 import canon
    return canon(v)


def _answer(f):
    o = outcome(f)
    return ("ok", _canon(o[1])) if o[0] == "ok" else ("raise", type(o[1]).__name__)


def _caches():
    from btclib.bip32 import bip32
    from btclib.curves import curve_group as cg

    out = {}
    for name in ("_cached_multiples", "_cached_multiples_fixwind", "_cached_odd_multiples_aff", "_cached_fixed_base_multiples"):
        f = getattr(cg, name, None)
        if f is not None and hasattr(f, "cache_info"):
            out[name] = f
    f = getattr(bip32, "_cached_base58_decode", None)
    if f is not None and hasattr(f, "cache_info"):
        out["_cached_base58_decode"] = f
    return out


def shard_independence(ctx: Ctx) -> None:
    from btclib.bip32 import bip32
    from btclib.curves.curve import mult

    r = ctx.rng
    battery = build_battery(ctx.seed)
    set_backend(True)
    golden = [_answer(f) for _, f in battery]
    caches = _caches()

    def compare(tag: str, order=None):
        order = order if order is not None else range(len(battery))
        for j in order:
            got = _answer(battery[j][1])
            if got != golden[j]:
                ctx.violation(f"answer-depends-on-history:{battery[j][0]}:{tag}",
                              f"{battery[j][0]} answered {str(got)[:120]} {tag}, {str(golden[j])[:120]} in a quiet process", {"call": battery[j][0], "situation": tag})
            ctx.case(f"independence:{tag}", (tag, j, ctx.evaluations), nontrivial=True)
        ctx.stat(f"independence:{tag}")

    def edit(v) -> bool:
        """Spoil a mutable answer in place, as a caller walking, trimming or reusing its own copy would."""
        if isinstance(v, list):
            v.append(v[0] if v else 0)
            v.reverse()
            if len(v) > 1:
                v.pop(0)
                v[0] = v[0] + 1 if isinstance(v[0], int) and not isinstance(v[0], bool) else v[0]
            return True
        if isinstance(v, (dict, set)):
            v.clear()
            return True
        if isinstance(v, bytearray):
            v[:] = b"\xff" * (len(v) + 1)
            return True
        return False

    for rnd in range(ctx.params["rounds"]):
        if ctx.out_of_time():
            break
        order = list(range(len(battery)))
        r.shuffle(order)
        compare("shuffled", order)
        # an answer edited by its caller, then the same question again
        for j in order:
            o = outcome(battery[j][1])
            if o[0] == "ok" and edit(o[1]):
                got = _answer(battery[j][1])
                ctx.case("independence:after-the-caller-edited-an-answer", ("edit", j, ctx.evaluations))
                ctx.stat("independence:after-the-caller-edited-an-answer")
                if got != golden[j]:
                    ctx.violation(f"answer-depends-on-history:{battery[j][0]}:a-caller-edited-an-earlier-answer",
                                  f"{battery[j][0]} answered {str(got)[:120]} after a caller edited the list it had been given, {str(golden[j])[:120]} before",
                                  {"call": battery[j][0], "situation": "the returned container is shared with a cache"})
                compare("after-an-edited-answer", [x for x in order if battery[x][0].startswith(("derive-by-text", "der_path", "bip32", "address-read-back", "network."))][:16])
        for c in caches.values():
            c.cache_clear()
        compare("after-cache-clear", order[: len(order) // 2])
        # overflow the caches with unrelated entries
        for j in range(2100 if rnd == 0 else 300):
            bip32.derive(bip32.rootxprv_from_seed(H("of", rnd, j)), "m/1")
        for j in range(40):
            mult(j + 2, mult(j + 11))
        compare("after-cache-overflow", order[len(order) // 2:])
        if backend_available():
            for j in order[:60]:
                set_backend(r.random() < 0.5)
                got = _answer(battery[j][1])
                if got != golden[j]:
                    ctx.violation(f"answer-depends-on-history:{battery[j][0]}:backend-switched", f"{battery[j][0]} changed after a backend switch",
                                  {"call": battery[j][0]})
                ctx.case("independence:backend-switched", ("bs", j, ctx.evaluations))
            ctx.stat("independence:backend-switched")
            set_backend(True)
    for name, c in caches.items():
        info = c.cache_info()
        if info.hits:
            ctx.stat(f"cache:hit:{name}", info.hits)
        if info.misses:
            ctx.stat(f"cache:miss:{name}", info.misses)
    ctx.sample("independence", {"battery": len(battery), "caches": list(caches)})


def shard_threads(ctx: Ctx) -> None:
    import sys

    r = ctx.rng
    battery = build_battery(ctx.seed)
    set_backend(True)
    golden = [_answer(f) for _, f in battery]
    files = ("btclib/curves/curve_group.py", "btclib/curves/curve_group_2.py", "btclib/curves/curve.py", "btclib/bip32/bip32.py",
             "btclib/ecc/dsa.py", "btclib/ecc/ssa.py", "btclib/ecc/musig2.py", "btclib/mnemonic/mnemonic.py", "btclib/script/taproot.py")
    nthreads = ctx.params["threads"]
    sched_ids = set()
    for s in range(ctx.params["schedules"]):
        if ctx.out_of_time():
            break
        if s % 3 == 0:
            for c in _caches().values():
                c.cache_clear()
        inj = YieldInjector(files, seed=r.getrandbits(30), one_in=r.choice([3, 5, 7, 11]))
        bad: list = []
        stop = [False]

        def toggler():
            st = True
            while not stop[0]:
                st = not st
                set_backend(st)
                time.sleep(0)

        def worker(wseed: int):
            import random as _random
            rr = _random.Random(wseed)
            order = rr.sample(range(len(battery)), k=min(len(battery), 60))
            for j in order:
                got = _answer(battery[j][1])
                if got != golden[j]:
                    bad.append((battery[j][0], str(got)[:100], str(golden[j])[:100]))

        ths = [threading.Thread(target=worker, args=(r.getrandbits(30),)) for _ in range(nthreads)]
        tg = threading.Thread(target=toggler) if backend_available() else None
        inj.start()
        try:
            if tg:
                tg.start()
            for t in ths:
                t.start()
            for t in ths:
                t.join()
        finally:
            stop[0] = True
            if tg:
                tg.join()
            inj.stop()
            set_backend(True)
        for name, got, want in bad[:5]:
            ctx.violation(f"answer-depends-on-concurrency:{name}", f"{name} answered {got} under {nthreads} concurrent callers, {want} sequentially",
                          {"call": name, "threads": nthreads, "yield_seed": inj.seed, "one_in": inj.one_in})
        sched_ids.add(inj.sched)
        ctx.stats["threads:switches"] += inj.switches
        ctx.stats["threads:line-events"] += inj.events
        ctx.stats["threads:distinct-switch-points"] = max(ctx.stats["threads:distinct-switch-points"], len(inj.points))
        ctx.case("schedule", ("sched", inj.sched, s, ctx.shard), nontrivial=inj.switches > 0,
                 sample={"threads": nthreads, "switches": inj.switches, "switch_points": len(inj.points), "schedule_id": hex(inj.sched)})
    ctx.stats["threads:distinct-schedules"] += len(sched_ids)
    sys.setswitchinterval(0.005)


# ===================================================== publication points
def shard_publication(ctx: Ctx) -> None:
    """The lazily loaded word lists are the one shared structure of the library that is *published* step by step
    (words, index, count) while other threads may read it. A loader is parked at each publication step -- inside the
    assignment itself, by a dict that calls back -- and every public read is asked from another thread at that point:
    it must either wait for the loader or answer what the word-list file says, never an answer made of half a
    publication. Deterministic injected delay at the points where the structure changes, not a race to be won."""
    import threading

    from btclib.mnemonic import mnemonic as mn

    r = ctx.rng
    langs = [lang for lang in mn.WORDLISTS.languages]
    r.shuffle(langs)

    def truth(wl, lang):
        return wl._read_wordlist(mn.data_file(f"{lang}.txt")) if hasattr(mn, "data_file") else None

    for lang in langs[: 4 if ctx.tier == "quick" else len(langs)]:
        if ctx.out_of_time():
            break
        ref = mn.WordLists()
        words = outcome(lambda: list(ref.wordlist(lang)))      # a quiet, single-threaded load is the source of truth
        if words[0] == "raise":
            ctx.stat("publication:language-not-loadable")
            continue
        words = words[1]
        probes = [words[0], words[-1], words[len(words) // 2]]
        wl = mn.WordLists()
        findings: list = []
        pending: list = []

        class Parking(dict):
            def __init__(self, name, src):
                super().__init__(src)
                self.name = name

            def __setitem__(self, k, v):
                super().__setitem__(k, v)
                if k != lang or threading.current_thread() is not loader_thread[0]:
                    return
                for op, call, want in reads:
                    box = {}

                    def run(call=call, box=box):
                        try:
                            box["ok"] = call()
                        except Exception as e:  # noqa: BLE001
                            box["exc"] = e
                    t = threading.Thread(target=run, daemon=True)
                    t.start()
                    t.join(0.15)
                    ctx.stat("publication:reader-at-a-publication-point")
                    if t.is_alive():
                        ctx.stat("publication:reader-waited-for-the-loader")
                        pending.append((self.name, op, t, box, want))
                    else:
                        findings.append((self.name, op, box, want, "during"))

        reads = [("index(first)", lambda: wl.index(probes[0], lang), 0), ("index(last)", lambda: wl.index(probes[1], lang), len(words) - 1),
                 ("index(middle)", lambda: wl.index(probes[2], lang), len(words) // 2), ("language_length", lambda: wl.language_length(lang), len(words)),
                 ("wordlist[last]", lambda: wl.wordlist(lang)[-1], words[-1]), ("langs_of_words", lambda: lang in wl.langs_of_words(probes), True),
                 ("indexes_from_mnemonic", lambda: mn.indexes_from_mnemonic(" ".join(probes), lang, wl), [0, len(words) - 1, len(words) // 2])]
        loader_thread = [None]
        for attr in ("_index", "_wordlist", "_language_length"):
            cur = getattr(wl, attr, None)
            if isinstance(cur, dict):
                setattr(wl, attr, Parking(attr, cur))
            else:
                ctx.stat(f"publication:attribute-absent:{attr}")

        def load():
            loader_thread[0] = threading.current_thread()
            wl.load_lang(lang)
        lt = threading.Thread(target=load, daemon=True)
        lt.start()
        lt.join(60)
        if lt.is_alive():
            ctx.inconclusive_(f"publication: the parked loader of {lang} did not finish")
            return
        for name, op, t, box, want in pending:
            t.join(10)
            if t.is_alive():
                ctx.violation("publication:reader-never-returned", f"{op} asked while {lang} was being published at {name} never returned", {"lang": lang, "op": op, "at": name})
            else:
                findings.append((name, op, box, want, "after-waiting"))
        for name, op, box, want, when in findings:
            case = {"lang": lang, "op": op, "published-so-far": name, "when": when}
            ctx.case("publication:read", (lang, name, op, when), sample=case)
            if "exc" in box:
                ctx.violation(f"publication:reader-refused-a-valid-word:{op.split('(')[0]}",
                              f"{op} asked while load_lang('{lang}') was at the assignment of {name}: {box['exc']!r}", case)
            elif box.get("ok") != want:
                ctx.violation(f"publication:reader-saw-half-a-publication:{op.split('(')[0]}",
                              f"{op} asked while load_lang('{lang}') was at the assignment of {name} answered {box.get('ok')!r}, the file says {want!r}", case)
            else:
                ctx.stat("publication:reader-answered-correctly")
