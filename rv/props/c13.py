"""C13 - mnemonics and seeds: entropy round-trips, checksums bind, thresholds recover.

Reference-model monitors: every sentence, verdict, seed, master key, share and recovered
secret the library returns is compared with models written from BIP39, SLIP39, BIP85 and
Electrum's ``mnemonic.py`` (``rv.ref.mnemonics``, ``rv.ref.slip39`` on top of ``rv.ref.gf256``,
``rv.ref.bip32``), reading their word lists through ``rv.ref.wordlists`` from
``/verif/vectors/wordlists`` and stretching with ``hashlib.pbkdf2_hmac``.
"""

from __future__ import annotations

import itertools
import json
import os
import unicodedata

from ..ctx import Ctx, is_lib_exc, outcome, tb_origin
from ..hooks import Reach, backend_available, set_backend
from ..ref import bip32 as rb
from ..ref import gf256
from ..ref import mnemonics as rm
from ..ref import slip39 as rs
from ..ref import wordlists as wl

PROPERTY = "C13"
RULE = (
    "BIP39/Electrum: per word list (12) x entropy size (128..256) x entropy class (all-zero, all-one, leading "
    "zero bits/bytes, trailing zeros, uniform) x representation (bytes, 0/1 string, int): the sentence, its decoded "
    "entropy, seed and master key are compared with the reference; every word position x K substitutes (K=40 quick, "
    "2047 thorough) gives one accept/refuse verdict compared with the reference checksum / version HMAC; passphrases "
    "cycle through empty, ASCII, composed, decomposed, compatibility, CJK, ideographic-space, astral classes. "
    "SLIP39: configurations stratified over group count x group threshold x member threshold/count (member index "
    "up to 15), iteration exponent, extendable flag, secret length, passphrase; every produced share is decoded by "
    "the reference and the share values are checked to lie on one polynomial with the digest at 254 and the secret "
    "at 255; qualifying subsets (capped, random order), every subset one share short, supersets, duplicates, mixed "
    "sets and wrong passphrases are recovered. A case is non-trivial when the expected value is computed by the "
    "reference independently; distinct = distinct (function, input) tuples (substitution sweeps are distinct by "
    "construction)."
)
ASSUMPTIONS = [
    "rv.ref.mnemonics / rv.ref.slip39 / rv.ref.gf256 / rv.ref.bip32 are the specification (self-tested against the "
    "Trezor BIP39 vectors in 12 languages, the Japanese passphrase vectors, Trezor's 45 SLIP39 vectors, BIP85 "
    "vectors, Electrum's published seed/version/old-seed vectors and FIPS-197 field products)",
    "hashlib.pbkdf2_hmac, hmac, hashlib.sha256/sha512/shake_256 and unicodedata.normalize are trusted",
    "the word lists copied into /verif/vectors/wordlists are the published ones",
    "Electrum's scheme has no specification: spesmilo/electrum's mnemonic.py/old_mnemonic.py, transcribed in "
    "rv.ref.mnemonics, is what correct means; languages Electrum does not ship use the same algorithm",
    "SLIP39 supersets of a qualifying set (more shares/groups than the threshold) may be refused (the reference "
    "implementation does): judged only when answered",
    "sentences whose words are separated by anything but single U+0020 / U+3000 are outside BIP39 (statistic only)",
    "btclib's documented 512-bit entropy size (48-word sentences, CS = ENT/32) is outside the property's 128..256 bits: "
    "its acceptance is a statistic (bip39:512-bit-extension-accepted), never judged",
]

LANGS = ["cs", "en", "es", "fr", "it", "ja", "ko", "pt", "ru", "tr", "zh", "zh_tw"]
VEC = os.path.join(os.path.dirname(os.path.dirname(os.path.dirname(os.path.abspath(__file__)))), "vectors")

PASSPHRASES = {
    "empty": "",
    "ascii": "TREZOR correct horse 123 ~!",
    "composed": "café naïve Ångström ñandú",
    "decomposed": unicodedata.normalize("NFD", "café naïve Ångström ñandú"),
    "compat": "ﬁne ①½ ㎡ ＡＢｃ ㍍",
    "cjk": "十人十色 パスワード 한글",
    "ideographic-space": "ぱす　わーど　ガバ",
    "astral": "\U0001f511 key \U00020000",
    "upper": "MiXeD CaSe ÉCOLE",
    # code points whose case folding is not their lower case (ß/ẞ -> ss, final sigma, U+03F2, U+037A, Cherokee) and whose
    # lower case is special (dotted capital I, titlecase digraphs, capital sigma): a caseless comparison is not Electrum's lower()
    "casefold-differs": "Straße GROẞ ὀδυσσεύς ς Ϲϲ ͺ Ꮿᏸ",
    "special-lower": "İstanbul ǅ ǈ ᾈ ΣΑΣ",
}

MECH_FUNCS = {
    "entropy.bin_str_entropy_from_entropy": "btclib.mnemonic.entropy:bin_str_entropy_from_entropy",
    "entropy.wordlist_indexes_from_bin_str_entropy": "btclib.mnemonic.entropy:wordlist_indexes_from_bin_str_entropy",
    "entropy.bin_str_entropy_from_wordlist_indexes": "btclib.mnemonic.entropy:bin_str_entropy_from_wordlist_indexes",
    "bip39._entropy_checksum": "btclib.mnemonic.bip39:_entropy_checksum",
    "bip39.mnemonic_from_entropy": "btclib.mnemonic.bip39:mnemonic_from_entropy",
    "bip39.entropy_from_mnemonic": "btclib.mnemonic.bip39:entropy_from_mnemonic",
    "bip39.lang_from_mnemonic": "btclib.mnemonic.bip39:lang_from_mnemonic",
    "bip39.seed_from_mnemonic": "btclib.mnemonic.bip39:seed_from_mnemonic",
    "electrum._search_mnemonic": "btclib.mnemonic.electrum:_search_mnemonic",
    "electrum._normalize": "btclib.mnemonic.electrum:_normalize",
    "electrum.version_from_mnemonic": "btclib.mnemonic.electrum:version_from_mnemonic",
    "electrum.mnemonic_from_entropy": "btclib.mnemonic.electrum:mnemonic_from_entropy",
    "electrum.old_mnemonic_from_hex_seed": "btclib.mnemonic.electrum:old_mnemonic_from_hex_seed",
    "electrum.hex_seed_from_old_mnemonic": "btclib.mnemonic.electrum:hex_seed_from_old_mnemonic",
    "slip39._rs1024_polymod": "btclib.mnemonic.slip39:_rs1024_polymod",
    "slip39._interpolate": "btclib.mnemonic.slip39:_interpolate",
    "slip39._digest": "btclib.mnemonic.slip39:_digest",
    "slip39._feistel": "btclib.mnemonic.slip39:_feistel",
    "slip39._split_secret": "btclib.mnemonic.slip39:_split_secret",
    "slip39._recover_secret": "btclib.mnemonic.slip39:_recover_secret",
    "slip39._grouped": "btclib.mnemonic.slip39:_grouped",
    "slip39.mnemonics_from_master_secret": "btclib.mnemonic.slip39:mnemonics_from_master_secret",
    "slip39.master_secret_from_mnemonics": "btclib.mnemonic.slip39:master_secret_from_mnemonics",
    "mnemonic.WordLists.load_lang": "btclib.mnemonic.mnemonic:WordLists.load_lang",
    "mnemonic.normalize_mnemonic": "btclib.mnemonic.mnemonic:normalize_mnemonic",
    "mnemonic.indexes_from_mnemonic": "btclib.mnemonic.mnemonic:indexes_from_mnemonic",
    "dispatch.all_seed_types_from_mnemonic": "btclib.mnemonic.dispatch:all_seed_types_from_mnemonic",
    "bip85._entropy_from_der_path": "btclib.bip85:_entropy_from_der_path",
    "bip85.mnemonic_from_root_key": "btclib.bip85:mnemonic_from_root_key",
    "bip85.BIP85DRNG.read": "btclib.bip85:BIP85DRNG.read",
}


def plan(tier: str, seed: int) -> list[dict]:
    q = tier == "quick"
    tmo = 500 if q else 2700
    specs = []
    for lang in LANGS:
        specs.append({"name": f"lang-{lang}", "fn": "shard_lang", "lang": lang, "subst": 40 if q else 2047,
                      "_budget_s": 60 if q else 840, "_timeout_s": tmo})
    nslip = 2
    for i in range(nslip):
        specs.append({"name": f"slip39-{i}", "fn": "shard_slip39", "part": i, "parts": nslip,
                      "max_n": 5 if q else 16, "subsets": 6 if q else 24,
                      "_budget_s": 60 if q else 840, "_timeout_s": tmo})
    specs.append({"name": "slip39-codec", "fn": "shard_slip39_codec", "_budget_s": 55 if q else 700, "_timeout_s": tmo})
    specs.append({"name": "misc", "fn": "shard_misc", "_budget_s": 45 if q else 800, "_timeout_s": tmo})
    return specs


def finalize(m: dict, tier: str) -> list[str]:
    out = []
    c, r, s, mon = m["classes"], m["reached"], m["stats"], m["monitors"]
    for lang in LANGS:
        for k in (f"bip39:lang:{lang}", f"electrum:lang:{lang}"):
            if not c.get(k):
                out.append(f"language class {k} never evaluated")
    need = ["bip39:encode", "bip39:roundtrip", "bip39:decode-reference-sentence", "bip39:autolang",
            "bip39:subst:valid", "bip39:subst:invalid", "bip39:seed", "bip39:mxprv", "bip39:typed-form",
            "bip39:length", "bip39:entropy-size", "bip39:published-vector",
            "bip39:entropy:all-zero", "bip39:entropy:all-one", "bip39:entropy:leading-zero-bytes",
            "bip39:entropy:leading-zero-bits", "bip39:entropy:uniform",
            "electrum:generate", "electrum:roundtrip", "electrum:subst:versioned", "electrum:subst:unversioned",
            "electrum:mxprv", "electrum:typed-form", "electrum:old:encode", "electrum:old:decode",
            "electrum:old:stretch", "electrum:scan:101-prefix-13..19-words", "electrum:scan:old-words-with-version-prefix",
            "electrum:published-vector",
            "slip39:generate", "slip39:recover:qualifying", "slip39:recover:one-short", "slip39:recover:group-short",
            "slip39:recover:wrong-passphrase", "slip39:recover:superset", "slip39:recover:mixed-identifier",
            "slip39:recover:duplicate", "slip39:recover:reference-generated", "slip39:published-vector",
            "slip39:codec:roundtrip", "slip39:codec:corrupted", "slip39:codec:padding", "slip39:member-index>9",
            "slip39:extendable:on", "slip39:extendable:off", "slip39:threshold-1", "slip39:groups>1",
            "bip85:mnemonic", "bip85:wif", "bip85:xprv", "bip85:hex", "bip85:pwd64", "bip85:pwd85", "bip85:dice",
            "dispatch:bip39", "dispatch:electrum", "dispatch:slip39"]
    for k in PASSPHRASES:
        need.append(f"passphrase:{k}")
    for k in need:
        if not c.get(k):
            out.append(f"input class {k} never evaluated")
    for k in ("slip39-polynomial", "slip39-reference-decode", "bip39-reference", "electrum-reference", "bip85-reference",
              "dispatch:singular-is-first-of-plural"):
        if not mon.get(k):
            out.append(f"monitor {k} made no evaluation")
    for k in ("dispatch:subst:invalid", "dispatch:subst:valid"):
        if not m["stats"].get(k):
            out.append(f"{k} never observed")
    for k in MECH_FUNCS:
        if not r.get(k):
            out.append(f"mechanism {k} never entered")
    if not s.get("slip39:one-short:refused"):
        out.append("no below-threshold set was observed being refused")
    return out


# ----------------------------------------------------------------- helpers
def _load(name: str):
    with open(os.path.join(VEC, name), encoding="utf-8") as f:
        return json.load(f)


def _reach(ctx: Ctx) -> Reach:
    reach = Reach()
    import importlib

    for name, dotted in MECH_FUNCS.items():
        modname, _, attr = dotted.partition(":")
        try:
            obj = importlib.import_module(modname)
            for part in attr.split("."):
                obj = obj.__dict__[part] if isinstance(obj, type) else getattr(obj, part)
        except (ImportError, AttributeError, KeyError):
            continue
        reach.watch(name, obj)
    reach.start()
    return reach


def _dispatch(ctx, dispatch, sent, lang, case, must=(), must_not=(), tag=""):
    """all_seed_types_from_mnemonic names `must` and none of `must_not`; seed_type_from_mnemonic is its first entry ("" if none)."""
    a = (sent,) if lang is None else (sent, lang)
    o = outcome(dispatch.all_seed_types_from_mnemonic, *a)
    o1 = outcome(dispatch.seed_type_from_mnemonic, *a)
    ctx.mon("dispatch:singular-is-first-of-plural")
    for x in (o, o1):
        if x[0] == "raise" and not is_lib_exc(x[1]):
            ctx.violation(f"dispatch:foreign-exception:{type(x[1]).__name__}@{tb_origin(x[1])}", f"{sent!r}: {x[1]!r}", {**case, "mnemonic": sent})
            return o
    if o[0] == "ok" and o1[0] == "ok":
        if o1[1] != (o[1][0] if o[1] else ""):
            ctx.violation("dispatch:singular-is-not-the-first-of-the-plural", f"{sent!r}: seed_type_from_mnemonic -> {o1[1]!r}, "
                          f"all_seed_types_from_mnemonic -> {o[1]!r}", {**case, "mnemonic": sent})
    elif o[0] != o1[0]:
        ctx.violation("dispatch:singular-and-plural-disagree-on-refusal", f"{sent!r}: {o1!r} vs {o!r}", {**case, "mnemonic": sent})
    if o[0] == "ok":
        for t in must:
            if t not in o[1]:
                ctx.violation(f"dispatch:{tag}-not-named", f"{sent!r}: all_seed_types_from_mnemonic -> {o[1]!r}, {t!r} missing", {**case, "mnemonic": sent})
        for t in must_not:
            if t in o[1]:
                ctx.violation(f"dispatch:{tag}-named-{t}", f"{sent!r}: all_seed_types_from_mnemonic -> {o[1]!r} names {t!r}", {**case, "mnemonic": sent})
    elif must:
        ctx.violation(f"dispatch:{tag}-not-named", f"{sent!r}: all_seed_types_from_mnemonic raised {o[1]!r}", {**case, "mnemonic": sent})
    return o


def _exc_tag(e: BaseException) -> str:
    return "library-exception" if is_lib_exc(e) else f"foreign-{type(e).__name__}"


def _binstr(b: bytes) -> str:
    return "".join(f"{x:08b}" for x in b)


def _nfkd_words(s: str) -> list[str]:
    return unicodedata.normalize("NFKD", s).split()


# ------------------------------------------------------- oracle self-tests
def _selftest(ctx: Ctx, parts: set, langs=()) -> bool:
    """Reference models against the published vectors in /verif/vectors; the library is never consulted."""
    try:
        bad = wl.selftest()
        if bad:
            ctx.oracle_broken("ref.wordlists", "; ".join(bad))
            return False
        ctx.oracle_ok("wordlists", 15)
        old_index = wl.index_map("electrum_old")
        if "gf" in parts:
            bad = gf256.selftest()
            if bad:
                ctx.oracle_broken("ref.gf256 vs FIPS-197 / field axioms", "; ".join(bad[:4]))
                return False
            ctx.oracle_ok("gf256", 1)
        if "slip39" in parts:
            n = 0
            for desc, mns, secret, xprv in _load("vectors.json"):
                try:
                    got = rs.combine(mns, "TREZOR")
                    ok = bool(secret) and got.hex() == secret and rb.root(got).b58() == xprv
                except rs.Reject:
                    ok = not secret
                if not ok:
                    ctx.oracle_broken("ref.slip39 vs Trezor vector", desc)
                    return False
                n += 1
            # the encoder and the splitter, against the decoder/recoverer just validated
            import random

            r = random.Random(39)
            for ext in (False, True):
                sec = r.randbytes(16 + 2 * r.randrange(9))
                mn = rs.generate(sec, [(2, 3), (1, 1), (3, 5)], 2, "pw", 1, ext, r.randbytes)
                if rs.combine(mn[0][1:] + mn[2][2:], "pw") != sec or rs.combine(mn[1] + mn[2][:3], "pw") != sec:
                    ctx.oracle_broken("ref.slip39 generate/combine round trip")
                    return False
                if any(rs.encode(rs.decode(x)) != x for g in mn for x in g):
                    ctx.oracle_broken("ref.slip39 encode/decode round trip")
                    return False
            ctx.oracle_ok("slip39_vectors", n)
        if "bip39" in parts:
            d = _load("bip39_test_vectors.json")
            n = 0
            for lang in langs or LANGS:
                w, im = wl.load(lang), wl.index_map(lang)
                for ent, mn, seed, xprv in d[wl.VECTOR_NAME[lang]]:
                    e = bytes.fromhex(ent)
                    if (rm.bip39_words(e, w) != _nfkd_words(mn) or rm.bip39_entropy(_nfkd_words(mn), im) != e
                            or rm.bip39_seed(mn, "TREZOR").hex() != seed or rb.root(bytes.fromhex(seed)).b58() != xprv):
                        ctx.oracle_broken("ref.mnemonics BIP39 vs Trezor vector", f"{lang} {ent}")
                        return False
                    n += 1
            for v in _load("test_JP_BIP39.json"):
                if (rm.bip39_seed(v["mnemonic"], v["passphrase"]).hex() != v["seed"]
                        or rb.root(bytes.fromhex(v["seed"])).b58() != v["bip32_xprv"]):
                    ctx.oracle_broken("ref.mnemonics BIP39 vs Japanese passphrase vector")
                    return False
                n += 1
            ctx.oracle_ok("bip39_vectors", n)
        if "electrum" in parts:
            u = _load("electrum_upstream_vectors.json")
            n = 0
            for v in u["seed"]:
                if rm.electrum_seed(v["mnemonic"], v["passphrase"]).hex() != v["seed"] or rm.seed_type(v["mnemonic"], old_index) != v["type"]:
                    ctx.oracle_broken("ref.mnemonics Electrum seed vector", v["type"])
                    return False
                n += 1
            for v in u["decode"]:
                if rm.electrum_decode(rm.nfkd(v["mnemonic"]).lower(), {x: i for i, x in enumerate(wl.electrum(v["lang"]))}) != int(v["entropy"]):
                    ctx.oracle_broken("ref.mnemonics Electrum decode vector", v["lang"])
                    return False
                n += 1
            for v in u["version"]:
                if rm.seed_type(v["mnemonic"], old_index) != v["type"]:
                    ctx.oracle_broken("ref.mnemonics Electrum version vector", v["mnemonic"][:30])
                    return False
                n += 1
            oldw = wl.load("electrum_old")
            for v in u["old"]:
                if rm.old_mn_decode(v["mnemonic"].split(), old_index) != v["hex_seed"]:
                    ctx.oracle_broken("ref.mnemonics old decode vector")
                    return False
                if len(v["hex_seed"]) % 8 == 0 and " ".join(rm.old_mn_encode(v["hex_seed"], oldw)) != v["mnemonic"]:
                    ctx.oracle_broken("ref.mnemonics old encode vector")
                    return False
                n += 1
            if "old-stretch" in parts:
                v = u["old"][1]
                k = rm.old_stretch(v["hex_seed"])
                P = rb.EC.mul_nored(k % rb.N, rb.EC.G)
                if (f"{k:064x}" != u["old_master_prv_key"]["prv_key"]
                        or (P[0].to_bytes(32, "big") + P[1].to_bytes(32, "big")).hex() != v["master_pub_key"]):
                    ctx.oracle_broken("ref.mnemonics old stretch vector")
                    return False
                n += 1
            for v in _load("electrum_language_vectors.json")["generated"]:
                if langs and v["lang"] not in langs:
                    continue
                w = wl.electrum(v["lang"])
                im = {x: i for i, x in enumerate(w)}
                seed, _ = rm.electrum_make_seed(v["entropy"], rm.PREFIX[v["type"]], w, im, old_index)
                if v["mnemonic"]:
                    if seed != v["mnemonic"] or rm.seed_type(seed, old_index) != v["type"] or rm.electrum_seed(seed, "").hex() != v["seed"]:
                        ctx.oracle_broken("ref.mnemonics Electrum make_seed vector", f"{v['lang']} {v['type']}")
                        return False
                elif rm.seed_type(seed, old_index) == v["type"]:
                    ctx.oracle_broken("ref.mnemonics Electrum make_seed vector (expected failure)", f"{v['lang']} {v['type']}")
                    return False
                n += 1
            for mn, pw, xprv, _xpub, _addr in _load("electrum_test_vectors.json"):
                ty = rm.seed_type(mn, old_index)
                if _electrum_xprv(ty, rm.electrum_seed(mn, pw), "main") != xprv:
                    ctx.oracle_broken("ref Electrum master key vector", ty)
                    return False
                n += 1
            ctx.oracle_ok("electrum_vectors", n)
        if "bip85" in parts:
            b = _load("bip85_test_vectors.json")
            rk = rb.decode(b["master_bip32_root_key"])
            en = wl.load("en")
            ok = True
            for e in b["entropy"]:
                ok &= rb.bip85_entropy(rk, _vec_path(e["path"])).hex() == e["derived_entropy"]
            for e in b["bip39"]:
                ent = rb.bip85_mnemonic_entropy(rk, e["words"], 0, 0)
                ok &= ent.hex() == e["derived_entropy"] and " ".join(rm.bip39_words(ent, en)) == e["derived_bip39_mnemonic"]
            ok &= rb.bip85_wif(rk, 0) == b["hd_seed_wif"][0]["derived_wif"]
            ok &= rb.bip85_xprv(rk, 0) == b["xprv"][0]["derived_xprv"]
            ok &= rb.bip85_hex(rk, 64, 0).hex() == b["hex"][0]["derived_entropy"]
            ok &= rb.bip85_pwd64(rk, 21, 0) == b["pwd_base64"][0]["derived_pwd"]
            ok &= rb.bip85_pwd85(rk, 12, 0) == b["pwd_base85"][0]["derived_pwd"]
            e = b["dice"][0]
            ok &= ",".join(map(str, rb.bip85_rolls(rk, e["sides"], e["rolls"], 0))) == e["derived_rolls"]
            if not ok:
                ctx.oracle_broken("ref.bip32 BIP85 vs BIP85 vectors")
                return False
            ctx.oracle_ok("bip85_vectors", 10)
        return True
    except Exception as e:  # noqa: BLE001 - a crashing oracle is a broken oracle
        ctx.oracle_broken("reference self-test crashed", repr(e)[:200])
        return False


def _vec_path(s: str) -> list[int]:
    out = []
    for part in s.split("/")[1:]:
        out.append(int(part.rstrip("'h")) + (rb.HARDENED if part[-1] in "'h" else 0))
    return out


def _electrum_xprv(seed_type: str, seed: bytes, net: str) -> str | None:
    """Electrum's master key: 'standard' -> xprv at m; 'segwit' -> zprv at m/0h."""
    if seed_type == "standard":
        return rb.root(seed, rb.VERSIONS[(net, "p2pkh")][0]).b58()
    if seed_type == "segwit":
        return rb.child(rb.root(seed, rb.VERSIONS[(net, "p2wpkh")][0]), rb.h(0)).b58()
    return None


# ------------------------------------------------------------ lang shards
def _entropy_classes(rng, n: int) -> list[tuple[str, bytes]]:
    return [
        ("all-zero", bytes(n)),
        ("all-one", b"\xff" * n),
        ("leading-zero-bytes", bytes(rng.randrange(1, 5)) + rng.randbytes(n)),
        ("leading-zero-bits", bytes([rng.choice([0, 0, 1, 3, 0x1F])]) + bytes([rng.randrange(256) & rng.choice([0x0F, 0x1F, 0xFF])]) + rng.randbytes(n)),
        ("trailing-zero", rng.randbytes(n - 3) + bytes(3)),
        ("uniform", rng.randbytes(n)),
        ("uniform", bytes([0x80 | rng.randrange(128)]) + rng.randbytes(n)),
    ]


def _ref_langs(words: list[str]) -> dict[str, bytes | None]:
    """Every BIP39 language whose list holds all the words -> the entropy there (None: checksum/length wrong)."""
    out = {}
    for lang in LANGS:
        im = wl.index_map(lang) if lang not in _IM else _IM[lang]
        _IM[lang] = im
        if all(w in im for w in words):
            try:
                out[lang] = rm.bip39_entropy(words, im)
            except rm.Reject:
                out[lang] = None
    return out


_IM: dict[str, dict] = {}


def _substitutes(rng, idx: int, base: int, k: int) -> list[int]:
    if k >= base - 1:
        return [j for j in range(base) if j != idx]
    s = {(idx + 1) % base, (idx - 1) % base, idx ^ 1, idx ^ (base >> 1) if idx ^ (base >> 1) < base else 0, 0, base - 1,
         idx ^ 0xF if idx ^ 0xF < base else 1}
    s.discard(idx)
    while len(s) < k:
        j = rng.randrange(base)
        if j != idx:
            s.add(j)
    return sorted(s)[:k] if len(s) > k else sorted(s)


def _encode_mech(got: list[str], want: list[str]) -> str:
    if len(got) != len(want):
        return "bip39-encode:word-count"
    if got[:-1] == want[:-1]:
        return "bip39-encode:checksum-bits"
    return "bip39-encode:entropy-words"


def shard_lang(ctx: Ctx) -> None:
    lang = ctx.params["lang"]
    if not _selftest(ctx, {"bip39", "electrum"}, langs=[lang]):
        return
    reach = _reach(ctx)
    try:
        half = ctx.deadline - (ctx.deadline - ctx.t0) * 0.45
        _bip39_part(ctx, lang, half)
        _electrum_part(ctx, lang)
    finally:
        reach.stop()
        reach.report(ctx)


def _bip39_part(ctx: Ctx, lang: str, deadline: float) -> None:
    import time

    from btclib.mnemonic import bip39, dispatch

    rng = ctx.rng
    W, IM = wl.load(lang), wl.index_map(lang)
    K = ctx.params["subst"]
    pass_names = list(PASSPHRASES)
    pcount = 0
    rounds = 0
    while True:
        rounds += 1
        for n in (16, 20, 24, 28, 32):
            for cname, raw in _entropy_classes(rng, n):
                e = raw[:n]
                if rounds > 1 and time.time() > deadline:
                    return
                want = rm.bip39_words(e, W)
                want_bits = _binstr(e)
                ctx.mon("bip39-reference")
                case = {"lang": lang, "entropy": e, "class": cname}
                # ---- encode, in each representation the API takes
                reps = [("bytes", e), ("binstr", want_bits)]
                if int.from_bytes(e, "big").bit_length() > 8 * n - 32:
                    reps.append(("int", int.from_bytes(e, "big")))
                m = None
                for rname, rep in reps:
                    o = outcome(bip39.mnemonic_from_entropy, rep, lang)
                    if o[0] == "raise":
                        ctx.violation(f"bip39-encode:valid-entropy-refused:{_exc_tag(o[1])}",
                                      f"mnemonic_from_entropy({rname} of {8 * n} bits, {lang}) raised {o[1]!r}", {**case, "rep": rname})
                    else:
                        got = _nfkd_words(o[1])
                        if got != want:
                            ctx.violation(_encode_mech(got, want),
                                          f"mnemonic_from_entropy({e.hex()}, {lang}) [{rname}] = {o[1]!r}, BIP39 gives {' '.join(want)!r}",
                                          {**case, "rep": rname, "got": o[1], "want": " ".join(want)})
                        if m is None:
                            m = o[1]
                    ctx.case("bip39:encode", ("enc", lang, e, rname), sample={"lang": lang, "entropy": e.hex(), "class": cname})
                ctx.classes[f"bip39:entropy:{cname}"] += 1
                ctx.classes[f"bip39:lang:{lang}"] += 1
                ref_sentence = " ".join(want)
                # ---- round trip of the library's own sentence
                if m is not None:
                    o = outcome(bip39.entropy_from_mnemonic, m, lang)
                    if o[0] == "raise":
                        ctx.violation(f"bip39-roundtrip:own-sentence-refused:{_exc_tag(o[1])}",
                                      f"entropy_from_mnemonic(mnemonic_from_entropy({e.hex()}, {lang})) raised {o[1]!r}", {**case, "mnemonic": m})
                    elif o[1] != want_bits:
                        ctx.violation("bip39-roundtrip:wrong-entropy", f"{lang}: {e.hex()} came back as {o[1]!r}", {**case, "mnemonic": m})
                    ctx.case("bip39:roundtrip", ("rt", lang, e))
                # ---- the reference's sentence (what every other wallet writes) must decode to e
                o = outcome(bip39.entropy_from_mnemonic, ref_sentence, lang)
                if o[0] == "raise":
                    ctx.violation(f"bip39-checksum:valid-sentence-refused:{_exc_tag(o[1])}",
                                  f"{lang}: the BIP39 sentence of {e.hex()} was refused: {o[1]!r}", {**case, "mnemonic": ref_sentence})
                elif o[1] != want_bits:
                    ctx.violation("bip39-decode:wrong-entropy", f"{lang}: {ref_sentence!r} decoded to {o[1]!r}", {**case, "mnemonic": ref_sentence})
                ctx.case("bip39:decode-reference-sentence", ("dec", lang, e))
                # ---- language read off the words
                o = outcome(bip39.entropy_from_mnemonic, ref_sentence)
                cands = _ref_langs(want)
                ents = {v for v in cands.values() if v is not None}
                if o[0] == "ok":
                    if o[1] != want_bits and len(ents) == 1:
                        ctx.violation("bip39-autolang:wrong-entropy", f"{lang}: language omitted, {ref_sentence!r} decoded to {o[1]!r}",
                                      {**case, "mnemonic": ref_sentence})
                elif len(ents) == 1:
                    ctx.violation(f"bip39-autolang:unambiguous-sentence-refused:{_exc_tag(o[1])}",
                                  f"{lang}: language omitted, {ref_sentence!r} refused: {o[1]!r} (lists holding the words: {sorted(cands)})",
                                  {**case, "mnemonic": ref_sentence})
                else:
                    ctx.stat("bip39:autolang:ambiguous-refused")
                ctx.case("bip39:autolang", ("auto", lang, e))
                # ---- dispatch names the scheme
                _dispatch(ctx, dispatch, ref_sentence, lang, case, must=("bip39",), must_not=("bip39_wordlist",), tag="valid-bip39-sentence")
                ctx.case("dispatch:bip39", ("disp", lang, e))
                # ---- seeds and master keys
                typed = [("canonical", ref_sentence), ("nfc", unicodedata.normalize("NFC", ref_sentence)),
                         ("ideographic-space", "　".join(want)), ("nfkc", unicodedata.normalize("NFKC", ref_sentence))]
                if m is not None:
                    typed.append(("library-spelling", m))
                for _ in range(2):
                    pname = pass_names[pcount % len(pass_names)]
                    pcount += 1
                    pw = PASSPHRASES[pname]
                    tname, sent = typed[pcount % len(typed)]
                    # the BIP's seed of the sentence as given (every typed form of the reference sentence is, after NFKD,
                    # the reference sentence; the library's own spelling is judged as what it spells)
                    want_seed = rm.bip39_seed(" ".join(_nfkd_words(sent)), pw)
                    o = outcome(bip39.seed_from_mnemonic, sent, pw)
                    if o[0] == "raise":
                        ctx.violation(f"bip39-seed:refused:{_exc_tag(o[1])}", f"{lang}: seed_from_mnemonic({tname} form, passphrase class {pname}) raised {o[1]!r}",
                                      {**case, "mnemonic": sent, "passphrase": pw})
                    elif o[1] != want_seed:
                        ctx.violation(_seed_mech(o[1], sent, pw),
                                      f"{lang}: seed_from_mnemonic({tname} form, passphrase class {pname}) = {o[1].hex()[:32]}.., "
                                      f"PBKDF2-HMAC-SHA512(NFKD sentence, 'mnemonic'+NFKD passphrase) = {want_seed.hex()[:32]}..",
                                      {**case, "mnemonic": sent, "passphrase": pw, "form": tname})
                    ctx.case("bip39:seed", ("seed", lang, e, pname, tname), sample={"lang": lang, "passphrase_class": pname, "form": tname})
                    ctx.classes[f"passphrase:{pname}"] += 1
                    if tname != "canonical":
                        ctx.classes["bip39:typed-form"] += 1
                    net, btcnet = (("main", "mainnet"), ("test", "testnet"))[pcount % 2]
                    o = outcome(bip39.mxprv_from_mnemonic, ref_sentence, pw, btcnet)
                    want_x = rb.root(rm.bip39_seed(ref_sentence, pw), rb.VERSIONS[(net, "p2pkh")][0]).b58()
                    if o[0] == "raise" or o[1] != want_x:
                        ctx.violation("bip39-mxprv:not-bip32-root-of-seed", f"{lang}: mxprv_from_mnemonic(.., {pname}, {btcnet}) = {o[1]!r}, BIP32 root of the seed is {want_x}",
                                      {**case, "mnemonic": ref_sentence, "passphrase": pw, "network": btcnet})
                    ctx.case("bip39:mxprv", ("mxprv", lang, e, pname, btcnet))
                # typed forms decode to the same entropy
                tname, sent = typed[1 + rounds % 3]
                o = outcome(bip39.entropy_from_mnemonic, sent, lang)
                if o[0] == "raise" or o[1] != want_bits:
                    ctx.violation("bip39-typed-form:not-read-as-its-nfkd", f"{lang}: the {tname} spelling of a valid sentence gave {o[1]!r}",
                                  {**case, "mnemonic": sent, "form": tname})
                ctx.case("bip39:typed-form", ("typed", lang, e, tname))
                # ---- every word position x substitutes: accepted exactly when the checksum is BIP39's
                idx = [IM[w] for w in want]
                nv = ni = 0
                for pos in range(len(idx)):
                    for j in _substitutes(rng, idx[pos], 2048, K):
                        idx2 = idx[:pos] + [j] + idx[pos + 1:]
                        try:
                            ref_e = rm.bip39_entropy_from_indexes(idx2)
                        except rm.Reject:
                            ref_e = None
                        sent = " ".join(W[i] for i in idx2)
                        o = outcome(bip39.entropy_from_mnemonic, sent, lang)
                        if ref_e is None:
                            ni += 1
                            if o[0] == "ok":
                                ctx.violation("bip39-checksum:invalid-sentence-accepted",
                                              f"{lang}: {sent!r} (word {pos} substituted) has a wrong checksum and was accepted as {o[1]!r}",
                                              {**case, "mnemonic": sent, "position": pos})
                        else:
                            nv += 1
                            if o[0] == "raise":
                                ctx.violation(f"bip39-checksum:valid-sentence-refused:{_exc_tag(o[1])}",
                                              f"{lang}: {sent!r} (word {pos} substituted) has the right checksum and was refused: {o[1]!r}",
                                              {**case, "mnemonic": sent, "position": pos})
                            elif o[1] != _binstr(ref_e):
                                ctx.violation("bip39-decode:wrong-entropy", f"{lang}: {sent!r} decoded to {o[1]!r}", {**case, "mnemonic": sent})
                        # the dispatcher gives the same verdict on a sample of them (and on every one whose checksum happens to hold)
                        if ref_e is not None or (pos + j) % 16 == 0:
                            if ref_e is None:
                                _dispatch(ctx, dispatch, sent, lang, case, must=("bip39_wordlist",), must_not=("bip39",), tag="wrong-checksum-bip39-sentence")
                                ctx.stats["dispatch:subst:invalid"] += 1
                            else:
                                _dispatch(ctx, dispatch, sent, lang, case, must=("bip39",), must_not=("bip39_wordlist",), tag="valid-bip39-sentence")
                                ctx.stats["dispatch:subst:valid"] += 1
                ctx.bulk("bip39:subst:valid", nv)
                ctx.bulk("bip39:subst:invalid", ni)
                ctx.sample("bip39:subst", {"lang": lang, "sentence": ref_sentence, "positions": len(idx), "substitutes_per_position": K,
                                           "valid": nv, "invalid": ni})
                # ---- lengths BIP39 does not define
                _bip39_lengths(ctx, bip39, lang, W, IM, want, rng, case)
        if rounds == 1:
            _bip39_sizes(ctx, bip39, lang, W, rng)


def _seed_mech(got: bytes, sentence: str, passphrase: str) -> str:
    """How a BIP39 seed differs from the BIP's: which of the two NFKD normalisations is missing."""
    import hashlib

    canon = " ".join(unicodedata.normalize("NFKD", sentence).split())
    if got == hashlib.pbkdf2_hmac("sha512", canon.encode(), ("mnemonic" + passphrase).encode(), 2048, 64):
        return "bip39-seed:passphrase-not-nfkd"
    if got == hashlib.pbkdf2_hmac("sha512", sentence.encode(), ("mnemonic" + unicodedata.normalize("NFKD", passphrase)).encode(), 2048, 64):
        return "bip39-seed:sentence-not-nfkd"
    return "bip39-seed:not-the-pbkdf2-of-the-bip"


def _ext_indexes(entropy: bytes) -> list[int]:
    """The BIP39 formula (CS = ENT/32) applied to an entropy size outside the BIP's five."""
    ent = 8 * len(entropy)
    cs = ent // 32
    import hashlib

    bits = _binstr(entropy) + _binstr(hashlib.sha256(entropy).digest())[:cs]
    bits += "0" * (-len(bits) % 11)
    return [int(bits[i: i + 11], 2) for i in range(0, len(bits), 11)]


def _ext48_entropy(idx) -> bytes | None:
    """48 words read by the same formula at ENT=512, CS=16 (btclib's documented 512-bit size): entropy or None."""
    import hashlib

    bits = "".join(f"{i:011b}" for i in idx)
    if len(bits) != 528:
        return None
    e = int(bits[:512], 2).to_bytes(64, "big")
    return e if _binstr(hashlib.sha256(e).digest())[:16] == bits[512:] else None


def _bip39_lengths(ctx: Ctx, bip39, lang: str, W, IM, want: list[str], rng, case: dict) -> None:
    variants = [("dropped-last", want[:-1]), ("dropped-first", want[1:]), ("appended", want + [rng.choice(W)]),
                ("doubled", want + want), ("three-words", want[:3]), ("one-word", want[:1]), ("empty", [])]
    for tag, words in variants:
        if len(words) in rm.BIP39_WORDS:
            continue
        sent = " ".join(words)
        o = outcome(bip39.entropy_from_mnemonic, sent, lang)
        if len(words) == 48:
            # btclib's 512-bit extension (outside the property's 128..256 bits): acceptance is never judged; only a
            # sentence whose 16 checksum bits are wrong by the same formula must still be refused
            ext = _ext48_entropy([IM[w] for w in words])
            if o[0] == "ok":
                if ext is None:
                    ctx.violation("bip39-checksum:invalid-sentence-accepted", f"{lang}: 48 words with a wrong checksum accepted as {o[1][:40]!r}..",
                                  {**case, "mnemonic": sent})
                else:
                    ctx.stat("bip39:512-bit-extension-accepted")
            ctx.case("bip39:length", ("len", lang, sent))
            continue
        if o[0] == "ok":
            ctx.violation(f"bip39-length:sentence-of-undefined-length-accepted:{tag}",
                          f"{lang}: a sentence of {len(words)} words was accepted as {o[1]!r}", {**case, "mnemonic": sent})
        ctx.case("bip39:length", ("len", lang, sent))
    # an unknown word
    pos = rng.randrange(len(want))
    words = want[:pos] + [want[pos] + "x"] + want[pos + 1:]
    o = outcome(bip39.entropy_from_mnemonic, " ".join(words), lang)
    if o[0] == "ok":
        ctx.violation("bip39-wordlist:unknown-word-accepted", f"{lang}: {' '.join(words)!r} accepted", {**case, "mnemonic": " ".join(words)})
    ctx.case("bip39:unknown-word", ("unk", lang, " ".join(words)))


def _bip39_sizes(ctx: Ctx, bip39, lang: str, W, rng) -> None:
    """ENT outside {128,160,192,224,256} must be refused, and so must word counts outside {12,15,18,21,24}.

    One exception, recorded as a statistic and never judged: btclib documents 512 bits as an allowed entropy size
    (and truncates longer input to it), which the formula CS = ENT/32 turns into 48 words; the property quantifies
    over 128..256 bits only.
    """
    for n in (4, 8, 12, 15, 17, 18, 31, 33, 36, 40, 48, 64, 65):
        e = rng.randbytes(n)
        o = outcome(bip39.mnemonic_from_entropy, e, lang)
        if n >= 64:
            if o[0] == "ok":
                ctx.stat("bip39:512-bit-extension-accepted")
                if n != 64:
                    # longer input is cut to 512 bits after its leading zero bits are dropped (documented truncation,
                    # outside the property's sizes): nothing to compare with
                    ctx.case("bip39:entropy-size", ("size", lang, n))
                    continue
                # ordinary checks on the extension where it answers: formula, round trip, checksum binding
                idx = _ext_indexes(e[:64])
                if _nfkd_words(o[1]) != [W[i] for i in idx]:
                    ctx.violation("bip39-512-bit-extension:sentence-differs-from-formula", f"{lang}: 64-byte entropy -> {o[1][:60]!r}..", {"lang": lang, "entropy": e})
                o2 = outcome(bip39.entropy_from_mnemonic, o[1], lang)
                if o2[0] == "ok" and o2[1] != _binstr(e[:64]):
                    ctx.violation("bip39-512-bit-extension:wrong-entropy", f"{lang}: own 48-word sentence decoded to other entropy", {"lang": lang, "entropy": e})
                pos = rng.randrange(48)
                idx2 = idx[:pos] + [(idx[pos] + 1 + rng.randrange(2047)) % 2048] + idx[pos + 1:]
                if _ext48_entropy(idx2) is None:
                    sent = " ".join(W[i] for i in idx2)
                    o3 = outcome(bip39.entropy_from_mnemonic, sent, lang)
                    if o3[0] == "ok":
                        ctx.violation("bip39-checksum:invalid-sentence-accepted", f"{lang}: 48 words with a wrong checksum accepted", {"lang": lang, "mnemonic": sent})
            else:
                ctx.stat("bip39:512-bit-extension-refused")
            ctx.case("bip39:entropy-size", ("size", lang, n))
            continue
        if o[0] == "ok":
            ctx.violation(f"bip39-entropy-size:outside-allowed-sizes-accepted:{8 * n}-bits",
                          f"{lang}: mnemonic_from_entropy({n} bytes) returned a sentence of {len(o[1].split())} words; "
                          f"BIP39 allows ENT of 128, 160, 192, 224, 256 bits (btclib adds 512)", {"lang": lang, "entropy": e, "mnemonic": o[1]})
        ctx.case("bip39:entropy-size", ("size", lang, n))
        if n % 4 == 0 and n not in (16, 20, 24, 28, 32):
            idx = _ext_indexes(e)
            sent = " ".join(W[i] for i in idx)
            o = outcome(bip39.entropy_from_mnemonic, sent, lang)
            if o[0] == "ok":
                ctx.violation(f"bip39-length:sentence-of-undefined-length-accepted:{len(idx)}-words",
                              f"{lang}: a {len(idx)}-word sentence (ENT={8 * n}, CS={n // 4} bits by extrapolating the BIP's formula) was accepted; "
                              f"BIP39 defines 12, 15, 18, 21 and 24 words (btclib adds 48)", {"lang": lang, "mnemonic": sent})
            ctx.case("bip39:length", ("extlen", lang, sent))


# ---------------------------------------------------------------- Electrum
def _electrum_langs_of(words: list[str]) -> list[str]:
    out = []
    for lang in LANGS:
        key = "e:" + lang
        if key not in _IM:
            _IM[key] = {x: i for i, x in enumerate(wl.electrum(lang))}
        if all(w in _IM[key] for w in words):
            out.append(lang)
    return out


def _version_verdict(ctx: Ctx, electrum, sentence: str, old_index, case: dict, klass: str) -> str:
    """version_from_mnemonic against calc_seed_type on the very same string; returns the reference type."""
    t = rm.seed_type(sentence, old_index)
    o = outcome(electrum.version_from_mnemonic, sentence)
    ctx.mon("electrum-reference")
    if t == "":
        if o[0] == "ok":
            ctx.violation("electrum-version:unversioned-sentence-accepted",
                          f"{sentence!r}: 'Seed version' HMAC starts {rm.seed_version_hex(sentence)[:3]}, Electrum reads no seed type; "
                          f"version_from_mnemonic -> {o[1][0]!r}", {**case, "mnemonic": sentence, "class": klass})
    elif o[0] == "raise":
        ctx.violation(f"electrum-version:versioned-sentence-refused:{t}",
                      f"{sentence!r} is a {t!r} seed for Electrum (HMAC {rm.seed_version_hex(sentence)[:3]}); version_from_mnemonic raised {o[1]!r}",
                      {**case, "mnemonic": sentence, "class": klass})
    elif o[1][0] != t:
        ctx.violation(f"electrum-version:wrong-type:{t}-read-as-{o[1][0]}",
                      f"{sentence!r} is a {t!r} seed for Electrum; version_from_mnemonic -> {o[1][0]!r}", {**case, "mnemonic": sentence, "class": klass})
    elif o[1][1] != rm.normalize_text(sentence):
        ctx.violation("electrum-version:normalized-sentence-differs",
                      f"{sentence!r}: normalized as {o[1][1]!r}, Electrum's normalize_text gives {rm.normalize_text(sentence)!r}",
                      {**case, "mnemonic": sentence, "class": klass})
    return t


def _electrum_part(ctx: Ctx, lang: str) -> None:
    from btclib.mnemonic import dispatch, electrum

    rng = ctx.rng
    EW = wl.electrum(lang)
    EIM = {x: i for i, x in enumerate(EW)}
    OI = wl.index_map("electrum_old")
    base = len(EW)
    K = min(ctx.params["subst"], 400)
    types = list(rm.PREFIX)
    pass_names = list(PASSPHRASES)
    rounds = 0
    pcount = 0
    while True:
        rounds += 1
        for ti, typ in enumerate(types):
            if rounds > 1 and ctx.out_of_time():
                return
            # the starting entropy: Electrum's default 132 bits, the BIP39 sizes as bytes, short and long ones
            kind = ["132-bit", "bytes-16", "small", "bytes-32", "132-bit", "264-bit", "zero"][(rounds + ti) % 7]
            if kind == "132-bit":
                ent_arg = ent = rng.getrandbits(132) | (1 << 131)
            elif kind == "264-bit":
                ent = rng.getrandbits(250) | (1 << 249)
                ent_arg = ent.to_bytes(32, "big")
            elif kind == "small":
                ent_arg = ent = rng.getrandbits(rng.choice([20, 40, 64]))
            elif kind == "zero":
                ent_arg = ent = 0
            else:
                raw = rng.randbytes(int(kind[6:]))
                ent_arg, ent = raw, int.from_bytes(raw, "big")
            case = {"lang": lang, "type": typ, "entropy": hex(ent), "entropy_kind": kind}
            ref_m, nonce = rm.electrum_make_seed(ent, rm.PREFIX[typ], EW, EIM, OI)
            ref_type = rm.seed_type(ref_m, OI)
            ctx.mon("electrum-reference")
            o = outcome(electrum.mnemonic_from_entropy, typ, ent_arg, lang)
            ctx.case("electrum:generate", ("egen", lang, typ, ent), sample={**case, "reference_sentence": ref_m, "candidates_tried": nonce})
            ctx.classes[f"electrum:lang:{lang}"] += 1
            ctx.classes[f"electrum:type:{typ}"] += 1
            if o[0] == "raise":
                if ref_type == typ:
                    ctx.violation(f"electrum-generate:valid-request-refused:{_exc_tag(o[1])}",
                                  f"{lang}/{typ} from {hex(ent)}: Electrum's make_seed gives {ref_m!r}; mnemonic_from_entropy raised {o[1]!r}", case)
                else:
                    ctx.stat(f"electrum:generate-refused-as-electrum-would:{typ}:{len(ref_m.split())}-words")
                continue
            m = o[1]
            if m != ref_m:
                words = m.split()
                why = "sentence-differs"
                if all(w in EIM for w in words):
                    n_lib, n_ref = rm.electrum_decode(m, EIM), ent + nonce
                    if n_lib < n_ref:
                        why = ("returned-candidate-electrum-skips:" +
                               ("old-seed" if rm.is_old_seed(m, OI) else
                                "valid-bip39" if rm.electrum_bip39_is_checksum_valid(m, EIM) == (True, True) else
                                "version-prefix-absent" if not rm.is_new_seed(m, rm.PREFIX[typ]) else "search-does-not-start-at-entropy+1"))
                    elif n_lib > n_ref:
                        why = "skipped-candidate-electrum-returns"
                    else:
                        why = "word-order-or-spelling"
                ctx.violation(f"electrum-generate:{why}", f"{lang}/{typ} from {hex(ent)}: {m!r}; Electrum's make_seed gives {ref_m!r}",
                              {**case, "got": m, "want": ref_m})
            elif ref_type != typ:
                ctx.violation("electrum-generate:returned-sentence-of-another-type",
                              f"{lang}/{typ} from {hex(ent)}: {m!r} is read back by Electrum as {ref_type!r}", {**case, "got": m})
            # ---- decodes back to the entropy it encodes
            want_int = rm.electrum_decode(ref_m, EIM)
            for with_lang in (True, False):
                o = outcome(electrum.entropy_from_mnemonic, ref_m, lang if with_lang else None)
                if o[0] == "raise":
                    if with_lang or _electrum_langs_of(ref_m.split()) == [lang]:
                        ctx.violation(f"electrum-roundtrip:valid-sentence-refused:{_exc_tag(o[1])}",
                                      f"{lang}: entropy_from_mnemonic({ref_m!r}, lang={'given' if with_lang else 'omitted'}) raised {o[1]!r}",
                                      {**case, "mnemonic": ref_m})
                    else:
                        ctx.stat("electrum:autolang:ambiguous-refused")
                elif int(o[1], 2) != want_int and (with_lang or _electrum_langs_of(ref_m.split()) == [lang]):
                    ctx.violation("electrum-roundtrip:wrong-entropy", f"{lang}: {ref_m!r} decoded to {hex(int(o[1], 2))}, encodes {hex(want_int)}",
                                  {**case, "mnemonic": ref_m})
                ctx.case("electrum:roundtrip", ("ert", lang, ref_m, with_lang))
            # ---- typed forms: Electrum normalizes before it hashes
            forms = [("canonical", ref_m), ("upper", ref_m.upper()), ("nfc", unicodedata.normalize("NFC", ref_m)),
                     ("whitespace", "  " + ref_m.replace(" ", " \t ", 2) + "\n"), ("ideographic-space", ref_m.replace(" ", "　"))]
            for tname, sent in forms:
                _version_verdict(ctx, electrum, sent, OI, case, f"typed:{tname}")
                ctx.case("electrum:typed-form", ("etyped", lang, sent))
            _dispatch(ctx, dispatch, ref_m, lang, case, must=(f"electrum_{ref_type}",), tag="electrum-seed")
            ctx.case("dispatch:electrum", ("edisp", lang, ref_m))
            # ---- master key = BIP32 of PBKDF2(normalized sentence, "electrum" + normalized passphrase)
            for _ in range(2):
                pname = pass_names[pcount % len(pass_names)]
                pcount += 1
                pw = PASSPHRASES[pname]
                tname, sent = forms[pcount % len(forms)]
                net, btcnet = (("main", "mainnet"), ("test", "testnet"))[(pcount // 2) % 2]
                # the type of the typed form itself: upper-casing is not always undone by lower() (Turkish dotless i)
                form_type = rm.seed_type(sent, OI)
                want_x = _electrum_xprv(form_type, rm.electrum_seed(sent, pw), net)
                o = outcome(electrum.mxprv_from_mnemonic, sent, pw, btcnet)
                if want_x is None:
                    ctx.stat(f"electrum:mxprv:{form_type or 'unversioned'}:{'refused' if o[0] == 'raise' else 'answered'}")
                    continue
                if o[0] == "raise":
                    ctx.violation(f"electrum-mxprv:refused:{_exc_tag(o[1])}", f"{lang}/{form_type}: mxprv_from_mnemonic({tname} form, passphrase {pname}) raised {o[1]!r}",
                                  {**case, "mnemonic": sent, "passphrase": pw})
                elif o[1] != want_x:
                    alt = _electrum_xprv(form_type, __import__("hashlib").pbkdf2_hmac(
                        "sha512", rm.normalize_text(sent).encode(), ("electrum" + pw).encode(), 2048, 64), net)
                    ctx.violation("electrum-mxprv:passphrase-not-normalized" if o[1] == alt else "electrum-mxprv:not-electrums-master-key",
                                  f"{lang}/{form_type}: mxprv_from_mnemonic({tname} form, passphrase class {pname}, {btcnet}) = {o[1]}, Electrum derives {want_x}",
                                  {**case, "mnemonic": sent, "passphrase": pw, "network": btcnet})
                ctx.case("electrum:mxprv", ("emx", lang, sent, pname, btcnet), sample={**case, "passphrase_class": pname, "form": tname})
                ctx.classes[f"passphrase:{pname}"] += 1
            # ---- every word position x substitutes
            idx = [EIM[w] for w in ref_m.split()]
            nv = ni = 0
            for pos in range(len(idx)):
                for j in _substitutes(rng, idx[pos], base, K):
                    sent = " ".join(EW[i] for i in idx[:pos] + [j] + idx[pos + 1:])
                    if _version_verdict(ctx, electrum, sent, OI, case, "substituted"):
                        nv += 1
                    else:
                        ni += 1
            ctx.bulk("electrum:subst:versioned", nv)
            ctx.bulk("electrum:subst:unversioned", ni)
        if rounds == 1:
            # cross-scheme: a BIP39-valid sentence of this list is a candidate Electrum skips; and word counts
            for nwords in (1, 2, 3, 11, 13, 14, 19, 20, 24, 25):
                for _ in range(6):
                    sent = " ".join(rng.choice(EW) for _ in range(nwords))
                    _version_verdict(ctx, electrum, sent, OI, {"lang": lang}, f"random-{nwords}-words")
                    ctx.case("electrum:random-sentence", ("ernd", lang, sent))


# ------------------------------------------------------------------ SLIP39
def _slip39_configs(rng, max_n: int, quick: bool):
    """Stratified first, random afterwards: (groups [(T, N)], group threshold)."""
    fixed = []
    # single group, every threshold of small member counts
    for n in range(1, 6):
        for t in range(1, n + 1):
            if t == 1 and n > 1:
                continue
            fixed.append(([(t, n)], 1))
    # member indexes above 9: 11..16 members
    for t, n in ((2, 11), (3, 12), (11, 11), (9, 16), (16, 16), (2, 16), (15, 16), (10, 13)):
        fixed.append(([(t, n)], 1))
    # group level: every group threshold for 2..4 groups
    for g in range(2, 5):
        for gt in range(1, g + 1):
            groups = []
            for i in range(g):
                n = 1 + (i + gt) % min(max_n, 5)
                t = 1 if n == 1 else 2 + (i + g) % (n - 1)
                groups.append((t, n))
            fixed.append((groups, gt))
    # many groups
    fixed.append(([(1, 1)] * 16, 16))
    fixed.append(([(1, 1)] * 16, 2))
    fixed.append(([(2, 3)] * 12, 11))
    fixed.append(([(1, 1)] * 7 + [(3, 5)] * 4, 10))
    if not quick:
        fixed.append(([(16, 16)] * 16, 16))
        fixed.append(([(2, 16)] * 16, 9))
        fixed.append(([(8, 16), (1, 1), (16, 16), (3, 4)] * 4, 13))
    yield from fixed
    while True:
        big = rng.random() < (0.15 if quick else 0.4)
        g = rng.randrange(1, 17 if big else 5)
        groups = []
        for _ in range(g):
            n = rng.randrange(1, (17 if big and rng.random() < 0.5 else max_n + 1))
            t = 1 if n == 1 else rng.choice([2, n, rng.randrange(2, n + 1)])
            groups.append((t, n))
        yield groups, rng.choice([1, g, rng.randrange(1, g + 1)])


def _poly_tag(why: str) -> str:
    if "one polynomial" in why:
        return "share-values-not-on-one-polynomial"
    if "digest" in why:
        return "digest-not-at-254-of-secret-at-255"
    if "values differ" in why:
        return "threshold-1-values-differ"
    return "too-few-shares"


def _analyse_generated(ctx: Ctx, mn, secret: bytes, groups, gt: int, pw: str, e: int, ext: bool, case: dict):
    """Decode everything the library produced with the reference and check it against SLIP39.

    -> list of groups of reference Share objects, or None when the output is unusable.
    """
    if len(mn) != len(groups) or any(len(g) != groups[i][1] for i, g in enumerate(mn)):
        ctx.violation("slip39-generate:wrong-number-of-shares", f"asked for {groups}, got groups of {[len(g) for g in mn]}", case)
        return None
    decoded = []
    for gi, g in enumerate(mn):
        row = []
        for mi, m in enumerate(g):
            ctx.mon("slip39-reference-decode")
            try:
                s = rs.decode(m)
            except rs.Reject as r:
                ctx.violation(f"slip39-generate:share-unreadable-by-reference:{r.rule}",
                              f"group {gi} member {mi}: the reference decoder refuses {m!r}: {r}", {**case, "mnemonic": m})
                return None
            want = {"extendable": ext, "iteration_exponent": e, "group_index": gi, "group_threshold": gt, "group_count": len(groups),
                    "member_index": mi, "member_threshold": groups[gi][0]}
            for f, w in want.items():
                if getattr(s, f) != w:
                    ctx.violation(f"slip39-generate:header-field:{f}", f"group {gi} member {mi}: {f} is {getattr(s, f)!r}, configuration says {w!r}",
                                  {**case, "mnemonic": m})
            if len(s.value) != len(secret):
                ctx.violation("slip39-generate:share-value-length", f"share value of {len(s.value)} bytes for a secret of {len(secret)}", {**case, "mnemonic": m})
                return None
            row.append(s)
        decoded.append(row)
    ids = {s.identifier for row in decoded for s in row}
    if len(ids) != 1:
        ctx.violation("slip39-generate:header-field:identifier", f"identifiers differ within one backup: {sorted(ids)}", case)
        return None
    gvals = []
    for gi, row in enumerate(decoded):
        ctx.mon("slip39-polynomial")
        val, why = rs.polynomial_report(groups[gi][0], [(s.member_index, s.value) for s in row])
        if val is None:
            ctx.violation(f"slip39-generate:member-shares:{_poly_tag(why)}", f"group {gi} ({groups[gi][0]}-of-{groups[gi][1]}): {why}", case)
            return decoded
        gvals.append((gi, val))
    ctx.mon("slip39-polynomial")
    ems, why = rs.polynomial_report(gt, gvals)
    if ems is None:
        ctx.violation(f"slip39-generate:group-shares:{_poly_tag(why)}", f"group level ({gt}-of-{len(groups)}): {why}", case)
        return decoded
    if rs.decrypt(ems, pw, e, ids.pop(), ext) != secret:
        ctx.violation("slip39-generate:encrypted-secret-does-not-decrypt-to-the-secret",
                      f"the value at x=255 of the group polynomial, decrypted per SLIP39 (e={e}, ext={ext}), is not the master secret", case)
    return decoded


def _qualifying(rng, groups, gt: int, which: str):
    """One qualifying selection: {group index: [member indexes]}."""
    g = len(groups)
    if which == "low":
        gsel = list(range(gt))
    elif which == "high":
        gsel = list(range(g - gt, g))
    else:
        gsel = sorted(rng.sample(range(g), gt))
    out = {}
    for gi in gsel:
        t, n = groups[gi]
        if which == "low":
            out[gi] = list(range(t))
        elif which == "high":
            out[gi] = list(range(n - t, n))
        else:
            out[gi] = sorted(rng.sample(range(n), t))
    return out


def _flat(rng, mn, sel) -> list[str]:
    flat = [mn[gi][mi] for gi, mis in sel.items() for mi in mis]
    rng.shuffle(flat)
    return flat


def shard_slip39(ctx: Ctx) -> None:
    from btclib.mnemonic import dispatch, slip39

    if not _selftest(ctx, {"gf", "slip39"}):
        return
    reach = _reach(ctx)
    rng = ctx.rng
    quick = ctx.tier == "quick"
    part, parts = ctx.params["part"], ctx.params["parts"]
    cap = ctx.params["subsets"]
    pws = ["", "TREZOR", "p w~!", "".join(chr(rng.randrange(32, 127)) for _ in range(20))]
    try:
        for ci, (groups, gt) in enumerate(_slip39_configs(rng, ctx.params["max_n"], quick)):
            if ci % parts != part:
                continue
            if ctx.out_of_time():
                break
            e = [0, 1, 2, 0, 1, 0][ci // parts % 6] if ci % 37 else rng.choice([3, 4])
            ext = bool((ci // parts // 2) % 2)
            slen = [16, 32, 20, 18, 24, 28, 16, 32, 34, 64][ci // parts % 10]
            secret = rng.randbytes(slen) if ci % 5 else bytes([0] * (ci % 3)) + rng.randbytes(slen - ci % 3)
            pw = pws[ci // parts % len(pws)]
            case = {"groups": groups, "group_threshold": gt, "iteration_exponent": e, "extendable": ext, "secret": secret, "passphrase": pw}
            o = outcome(slip39.mnemonics_from_master_secret, secret, groups, gt, pw, e, ext, rng.randbytes)
            ctx.case("slip39:generate", ("sgen", str(groups), gt, e, ext, secret, pw), sample={**case, "secret": secret.hex()})
            ctx.classes[f"slip39:extendable:{'on' if ext else 'off'}"] += 1
            ctx.classes[f"slip39:iteration-exponent:{e}"] += 1
            if len(groups) > 1:
                ctx.classes["slip39:groups>1"] += 1
            if any(t == 1 for t, _ in groups) or gt == 1:
                ctx.classes["slip39:threshold-1"] += 1
            if o[0] == "raise":
                ctx.violation(f"slip39-generate:valid-configuration-refused:{_exc_tag(o[1])}", f"{groups} gt={gt} e={e} ext={ext}: {o[1]!r}", case)
                continue
            mn = o[1]
            decoded = _analyse_generated(ctx, mn, secret, groups, gt, pw, e, ext, case)
            if decoded is None:
                continue
            max_mi = max(n for _, n in groups) - 1
            # ---- qualifying subsets, any order
            sels = [_qualifying(rng, groups, gt, "low"), _qualifying(rng, groups, gt, "high")]
            sels += [_qualifying(rng, groups, gt, "random") for _ in range(cap - 2)]
            seen = set()
            for si, sel in enumerate(sels):
                key = tuple(sorted((g, tuple(v)) for g, v in sel.items()))
                if key in seen:
                    continue
                seen.add(key)
                flat = _flat(rng, mn, sel)
                o = outcome(slip39.master_secret_from_mnemonics, flat, pw)
                scase = {**case, "selection": {str(k): v for k, v in sel.items()}, "mnemonics": flat}
                if o[0] == "raise":
                    ctx.violation(f"slip39-recover:qualifying-set-refused:{_exc_tag(o[1])}",
                                  f"{groups} gt={gt}: members {sel} meet every threshold and were refused: {o[1]!r}", scase)
                elif o[1] != secret:
                    ctx.violation("slip39-recover:qualifying-set-wrong-secret", f"{groups} gt={gt}: members {sel} recovered {o[1].hex()}, secret is {secret.hex()}", scase)
                ctx.case("slip39:recover:qualifying", ("srec", key, secret), sample={"groups": groups, "group_threshold": gt, "selection": str(sel)})
                if any(mi > 9 for v in sel.values() for mi in v):
                    ctx.classes["slip39:member-index>9"] += 1
                if any(g > 9 for g in sel):
                    ctx.classes["slip39:group-index>9"] += 1
                if si == 0:
                    # the reference recovers it too (the shares are SLIP39 shares, not merely self-consistent)
                    try:
                        if rs.combine(flat, pw) != secret:
                            ctx.violation("slip39-generate:reference-recovers-another-secret", f"{groups} gt={gt}: reference recovery of {sel} differs from the secret", scase)
                    except rs.Reject as r:
                        ctx.violation(f"slip39-generate:reference-refuses-qualifying-set:{r.rule}", f"{groups} gt={gt}: reference recovery of {sel}: {r}", scase)
                    # ---- wrong passphrase: an answer, and another one
                    for wpw in ([pw + "x", "decoy"] if si == 0 else []):
                        o = outcome(slip39.master_secret_from_mnemonics, flat, wpw)
                        if o[0] == "raise":
                            ctx.violation(f"slip39-recover:wrong-passphrase-raised:{_exc_tag(o[1])}", f"wrong passphrase {wpw!r}: {o[1]!r}", scase)
                        elif o[1] == secret:
                            ctx.violation("slip39-recover:wrong-passphrase-same-secret", f"passphrase {wpw!r} instead of {pw!r} gave the same secret", scase)
                        elif o[1] != rs.combine(flat, wpw):
                            ctx.violation("slip39-recover:wrong-passphrase-secret-differs-from-reference", f"passphrase {wpw!r}: {o[1].hex()}", scase)
                        ctx.case("slip39:recover:wrong-passphrase", ("swp", key, wpw, secret))
                    # master key
                    o = outcome(slip39.mxprv_from_mnemonics, flat, pw)
                    if o[0] == "raise" or o[1] != rb.root(secret).b58():
                        ctx.violation("slip39-mxprv:not-bip32-root-of-secret", f"mxprv_from_mnemonics -> {o[1]!r}", scase)
                    ctx.case("slip39:mxprv", ("smx", key, secret))
                    _dispatch(ctx, dispatch, flat[0], None, scase, must=("slip39",), tag="slip39-share")
                    ctx.case("dispatch:slip39", ("sdisp", flat[0]))
                if si < 3:
                    # ---- every subset one share short
                    for k in range(len(flat)):
                        short = flat[:k] + flat[k + 1:]
                        o = outcome(slip39.master_secret_from_mnemonics, short, pw)
                        if o[0] == "ok":
                            ctx.violation("slip39-recover:below-threshold-set-answered",
                                          f"{groups} gt={gt}: {sel} without one share was answered with {o[1].hex()} "
                                          f"({'the secret' if o[1] == secret else 'not the secret'})", {**scase, "mnemonics": short})
                        else:
                            ctx.stat("slip39:one-short:refused")
                            if not is_lib_exc(o[1]):
                                ctx.stat(f"slip39:one-short:foreign-{type(o[1]).__name__}")
                    ctx.bulk("slip39:recover:one-short", len(flat))
                    # ---- a whole group short
                    if gt > 1:
                        drop = rng.choice(list(sel))
                        short = [mn[gi][mi] for gi, mis in sel.items() if gi != drop for mi in mis]
                        o = outcome(slip39.master_secret_from_mnemonics, short, pw)
                        if o[0] == "ok":
                            ctx.violation("slip39-recover:below-group-threshold-answered",
                                          f"{groups} gt={gt}: only {gt - 1} groups ({sorted(set(sel) - {drop})}) answered with {o[1].hex()}", {**scase, "mnemonics": short})
                        else:
                            ctx.stat("slip39:one-short:refused")
                        ctx.case("slip39:recover:group-short", ("sgs", key, drop, secret))
                if si == 1:
                    # ---- supersets: judged only when answered
                    extra = [(gi, mi) for gi in sel for mi in range(groups[gi][1]) if mi not in sel[gi]]
                    extra_g = [gi for gi in range(len(groups)) if gi not in sel]
                    sup = None
                    if extra:
                        gi, mi = rng.choice(extra)
                        sup = flat + [mn[gi][mi]]
                    elif extra_g:
                        gi = rng.choice(extra_g)
                        sup = flat + [mn[gi][mi] for mi in range(groups[gi][0])]
                    if sup:
                        rng.shuffle(sup)
                        o = outcome(slip39.master_secret_from_mnemonics, sup, pw)
                        if o[0] == "ok" and o[1] != secret:
                            ctx.violation("slip39-recover:superset-wrong-secret", f"{groups} gt={gt}: a superset of {sel} recovered {o[1].hex()}", {**scase, "mnemonics": sup})
                        ctx.stat(f"slip39:superset:{'answered' if o[0] == 'ok' else 'refused'}")
                        ctx.case("slip39:recover:superset", ("ssup", tuple(sup), secret))
                    # ---- a duplicated share
                    dup = flat + [flat[0]]
                    o = outcome(slip39.master_secret_from_mnemonics, dup, pw)
                    if o[0] == "ok" and o[1] != secret:
                        ctx.violation("slip39-recover:duplicated-share-wrong-secret", f"{groups} gt={gt}: {sel} plus a repeated share recovered {o[1].hex()}", {**scase, "mnemonics": dup})
                    ctx.stat(f"slip39:duplicate:{'answered' if o[0] == 'ok' else 'refused'}")
                    ctx.case("slip39:recover:duplicate", ("sdup", key, secret))
            # ---- shares of two backups of the same shape mixed
            o2 = outcome(slip39.mnemonics_from_master_secret, rng.randbytes(slen), groups, gt, pw, e, ext, rng.randbytes)
            if o2[0] == "ok" and rs.decode(o2[1][0][0]).identifier != decoded[0][0].identifier:
                sel = _qualifying(rng, groups, gt, "random")
                flat = _flat(rng, mn, sel)
                if len(flat) >= 2:  # with one share the "mixed" set would be a whole set of the other backup
                    k = rng.randrange(len(flat))
                    s = rs.decode(flat[k])
                    mixed = flat[:k] + [o2[1][s.group_index][s.member_index]] + flat[k + 1:]
                    o = outcome(slip39.master_secret_from_mnemonics, mixed, pw)
                    if o[0] == "ok":
                        ctx.violation("slip39-recover:mixed-identifier-set-answered",
                                      f"{groups} gt={gt}: a set holding a share of another backup was answered with {o[1].hex()}", {**case, "mnemonics": mixed})
                    ctx.case("slip39:recover:mixed-identifier", ("smix", tuple(mixed)))
            # ---- shares written by the reference are recovered by the library
            rmn = rs.generate(secret, groups, gt, pw, e, ext, rng.randbytes)
            for which in ("high", "random"):
                sel = _qualifying(rng, groups, gt, which)
                flat = _flat(rng, rmn, sel)
                o = outcome(slip39.master_secret_from_mnemonics, flat, pw)
                if o[0] == "raise":
                    ctx.violation(f"slip39-recover:reference-shares-refused:{_exc_tag(o[1])}", f"{groups} gt={gt}: shares written per SLIP39 by the reference, members {sel}: {o[1]!r}",
                                  {**case, "mnemonics": flat})
                elif o[1] != secret:
                    ctx.violation("slip39-recover:reference-shares-wrong-secret", f"{groups} gt={gt}: reference-written shares {sel} recovered {o[1].hex()}", {**case, "mnemonics": flat})
                ctx.case("slip39:recover:reference-generated", ("sref", tuple(flat)))
                if any(mi > 9 for v in sel.values() for mi in v):
                    ctx.classes["slip39:member-index>9"] += 1
            ctx.stat(f"slip39:max-member-index:{'>9' if max_mi > 9 else '<=9'}")
    finally:
        reach.stop()
        reach.report(ctx)


def shard_slip39_codec(ctx: Ctx) -> None:
    from btclib.mnemonic import slip39

    if not _selftest(ctx, {"gf", "slip39"}):
        return
    reach = _reach(ctx)
    rng = ctx.rng
    SW = wl.load("slip39")
    try:
        # ---- Trezor's vectors are the specification's own examples: the library must agree with each
        for desc, mns, secret, xprv in _load("vectors.json"):
            o = outcome(slip39.master_secret_from_mnemonics, mns, "TREZOR")
            vcase = {"vector": desc, "mnemonics": mns}
            tag = desc.split(".")[0]
            if secret:
                if o[0] == "raise":
                    ctx.violation(f"slip39-vector:valid-refused:{_exc_tag(o[1])}", f"SLIP39 vector {desc!r}: {o[1]!r}", vcase)
                elif o[1].hex() != secret:
                    ctx.violation("slip39-vector:wrong-secret", f"SLIP39 vector {desc!r}: recovered {o[1].hex()}, published {secret}", vcase)
                else:
                    o = outcome(slip39.mxprv_from_mnemonics, mns, "TREZOR")
                    if o[0] == "raise" or o[1] != xprv:
                        ctx.violation("slip39-vector:wrong-xprv", f"SLIP39 vector {desc!r}: {o[1]!r}", vcase)
            elif o[0] == "ok":
                ctx.violation(f"slip39-vector:invalid-accepted:{desc.split('.', 1)[1].split('(')[0].strip().lower().replace(' ', '-')}",
                              f"SLIP39 vector {desc!r} must be refused; answered {o[1].hex()}", vcase)
            ctx.case("slip39:published-vector", ("svec", tag), sample={"vector": desc})
        # ---- share codec against the reference encoder/decoder
        it = 0
        while not ctx.out_of_time():
            it += 1
            gc = rng.randrange(1, 17)
            nbytes = rng.choice([16, 16, 32, 32, 18, 20, 24, 28, 30, 34, 40, 64])
            s = rs.Share(rng.getrandbits(15) if it % 7 else rng.choice([0, 0x7FFF]), bool(it % 2), rng.randrange(16) if it % 3 else rng.choice([0, 15]),
                         rng.randrange(16), rng.randrange(1, gc + 1), gc, rng.randrange(16) if it % 4 else rng.choice([10, 15]),
                         rng.randrange(1, 17), rng.randbytes(nbytes) if it % 9 else bytes(nbytes - 1) + b"\x01")
            m = rs.encode(s)
            case = {"share": s._asdict(), "mnemonic": m}
            case["share"]["value"] = s.value.hex()
            ctx.mon("slip39-reference-decode")
            o = outcome(slip39.share_from_mnemonic, m)
            if o[0] == "raise":
                ctx.violation(f"slip39-codec:valid-share-refused:{_exc_tag(o[1])}", f"{m!r} is a well-formed SLIP39 share; share_from_mnemonic raised {o[1]!r}", case)
            else:
                for f in rs.Share._fields:
                    if getattr(o[1], f) != getattr(s, f):
                        ctx.violation(f"slip39-codec:decoded-field:{f}", f"{m!r}: {f} read as {getattr(o[1], f)!r}, encodes {getattr(s, f)!r}", case)
            o = outcome(lambda: slip39.mnemonic_from_share(slip39.Share(**s._asdict())))
            if o[0] == "raise" or o[1] != m:
                ctx.violation("slip39-codec:encoded-mnemonic-differs", f"share {case['share']}: mnemonic_from_share -> {o[1]!r}, SLIP39 encoding is {m!r}", case)
            ctx.case("slip39:codec:roundtrip", ("scodec", m), sample=case)
            if s.member_index > 9:
                ctx.classes["slip39:member-index>9"] += 1
            idx = rs.encode_indexes(s)
            # ---- RS1024 detects any error affecting at most three words
            for nerr in (1, 1, 2, 3):
                idx2 = list(idx)
                for pos in rng.sample(range(len(idx)), nerr):
                    idx2[pos] = (idx2[pos] + rng.randrange(1, 1024)) % 1024
                bad = " ".join(SW[i] for i in idx2)
                o = outcome(slip39.share_from_mnemonic, bad)
                if o[0] == "ok":
                    ctx.violation(f"slip39-checksum:corrupted-share-accepted:{nerr}-words", f"{bad!r} differs from a valid share in {nerr} words and was accepted", {**case, "mnemonic": bad})
                ctx.case("slip39:codec:corrupted", ("scorr", bad))
            # ---- the checksum of the other customization string
            data = idx[:-3]
            bad = " ".join(SW[i] for i in data + rs.rs1024_create(data, not s.extendable))
            o = outcome(slip39.share_from_mnemonic, bad)
            if o[0] == "ok":
                ctx.violation("slip39-checksum:wrong-customization-string-accepted", f"{bad!r}: checksum computed with the customization string of ext={not s.extendable}", {**case, "mnemonic": bad})
            ctx.case("slip39:codec:corrupted", ("scust", bad))
            # ---- non-zero padding, valid checksum
            bits = "".join(f"{i:010b}" for i in data)
            pad = (len(bits) - 40) % 16
            if pad:
                k = 40 + rng.randrange(pad)
                bits2 = bits[:k] + "1" + bits[k + 1:]
                d2 = [int(bits2[i: i + 10], 2) for i in range(0, len(bits2), 10)]
                bad = " ".join(SW[i] for i in d2 + rs.rs1024_create(d2, s.extendable))
                o = outcome(slip39.share_from_mnemonic, bad)
                if o[0] == "ok":
                    ctx.violation("slip39-codec:nonzero-padding-accepted", f"{bad!r}: padding bit {k - 40} of {pad} set, checksum valid", {**case, "mnemonic": bad})
                ctx.case("slip39:codec:padding", ("spad", bad))
            # ---- lengths no share has: one value word more or fewer (checksum valid)
            for delta in (-1, 1, 2):
                d2 = data[:4] + ([0] * delta + data[4:] if delta > 0 else data[4 - delta:])
                try:
                    rs.decode_indexes(d2 + rs.rs1024_create(d2, s.extendable))
                    continue  # still a share by the reference's reading
                except rs.Reject as r:
                    rule = r.rule
                bad = " ".join(SW[i] for i in d2 + rs.rs1024_create(d2, s.extendable))
                o = outcome(slip39.share_from_mnemonic, bad)
                if o[0] == "ok":
                    ctx.violation(f"slip39-codec:malformed-share-accepted:{rule}", f"{bad!r} ({len(d2) + 3} words; reference: {rule}) accepted", {**case, "mnemonic": bad})
                ctx.case("slip39:codec:length", ("slen", bad))
            # ---- group threshold above group count
            if s.group_count < 16:
                s2 = s._replace(group_threshold=s.group_count + 1)
                bad = " ".join(SW[i] for i in rs.encode_indexes(s2))
                o = outcome(slip39.share_from_mnemonic, bad)
                if o[0] == "ok":
                    ctx.violation("slip39-codec:group-threshold-above-count-accepted", f"{bad!r} accepted", {**case, "mnemonic": bad})
                ctx.case("slip39:codec:fields", ("sfld", bad))
        # ---- configurations SLIP39 does not allow
        sec = rng.randbytes(16)
        for tag, args in (("threshold-above-count", (sec, [(3, 2)], 1)), ("group-threshold-above-count", (sec, [(1, 1), (1, 1)], 3)),
                          ("17-members", (sec, [(2, 17)], 1)), ("17-groups", (sec, [(1, 1)] * 17, 2)), ("zero-threshold", (sec, [(0, 2)], 1)),
                          ("secret-15-bytes", (sec[:15], [(1, 1)], 1)), ("secret-17-bytes", (sec + b"x", [(1, 1)], 1)),
                          ("secret-8-bytes", (sec[:8], [(1, 1)], 1)), ("no-groups", (sec, [], 1))):
            o = outcome(slip39.mnemonics_from_master_secret, *args, "", 0, True, rng.randbytes)
            if o[0] == "ok":
                ctx.violation(f"slip39-generate:invalid-configuration-accepted:{tag}", f"mnemonics_from_master_secret{args[1:]} with a {len(args[0])}-byte secret returned shares", {"config": tag})
            ctx.case("slip39:invalid-configuration", ("scfg", tag))
        for tag, kw in (("1-of-3-group", {"groups": [(1, 3)]}), ("non-ascii-passphrase", {"passphrase": "pässword"}), ("exponent-16", {"iteration_exponent": 16})):
            o = outcome(lambda: slip39.mnemonics_from_master_secret(sec, **{"groups": [(1, 1)], "entropy_source": rng.randbytes, **kw}))
            ctx.stat(f"slip39:soft-invalid-configuration:{tag}:{'accepted' if o[0] == 'ok' else 'refused'}")
    finally:
        reach.stop()
        reach.report(ctx)


# ------------------------------------------------------------------- misc
def shard_misc(ctx: Ctx) -> None:
    if not _selftest(ctx, {"bip39", "electrum", "old-stretch", "bip85"}):
        return
    reach = _reach(ctx)
    try:
        _published_vectors(ctx)
        _electrum_old(ctx)
        _electrum_scan(ctx)
        _bip85(ctx)
    finally:
        if backend_available():
            set_backend(True)
        reach.stop()
        reach.report(ctx)


def _published_vectors(ctx: Ctx) -> None:
    from btclib.mnemonic import bip39, electrum

    d = _load("bip39_test_vectors.json")
    for lang in LANGS:
        for ent, mn, seed, xprv in d[wl.VECTOR_NAME[lang]]:
            vcase = {"lang": lang, "entropy": ent, "mnemonic": mn}
            o = outcome(bip39.mnemonic_from_entropy, bytes.fromhex(ent), lang)
            if o[0] == "raise" or _nfkd_words(o[1]) != _nfkd_words(mn):
                ctx.violation("bip39-vector:mnemonic", f"{lang} {ent}: {o[1]!r}, published {mn!r}", vcase)
            o = outcome(bip39.entropy_from_mnemonic, mn, lang)
            if o[0] == "raise" or o[1] != _binstr(bytes.fromhex(ent)):
                ctx.violation("bip39-vector:entropy", f"{lang}: published sentence {mn!r} -> {o[1]!r}", vcase)
            o = outcome(bip39.seed_from_mnemonic, mn, "TREZOR")
            if o[0] == "raise" or o[1].hex() != seed:
                ctx.violation("bip39-vector:seed", f"{lang}: seed of {mn!r} -> {o[1]!r}", vcase)
            o = outcome(bip39.mxprv_from_mnemonic, mn, "TREZOR")
            if o[0] == "raise" or o[1] != xprv:
                ctx.violation("bip39-vector:xprv", f"{lang}: xprv of {mn!r} -> {o[1]!r}", vcase)
            ctx.case("bip39:published-vector", ("bvec", lang, ent), sample=vcase)
    for v in _load("test_JP_BIP39.json"):
        o = outcome(bip39.seed_from_mnemonic, v["mnemonic"], v["passphrase"])
        if o[0] == "raise" or o[1].hex() != v["seed"]:
            ctx.violation("bip39-vector:seed", f"ja passphrase vector {v['entropy']}: {o[1]!r}", v)
        o = outcome(bip39.mxprv_from_mnemonic, v["mnemonic"], v["passphrase"])
        if o[0] == "raise" or o[1] != v["bip32_xprv"]:
            ctx.violation("bip39-vector:xprv", f"ja passphrase vector {v['entropy']}: {o[1]!r}", v)
        ctx.case("bip39:published-vector", ("jvec", v["entropy"]))
    u = _load("electrum_upstream_vectors.json")
    for v in u["version"] + u["seed"]:
        o = outcome(electrum.version_from_mnemonic, v["mnemonic"])
        got = o[1][0] if o[0] == "ok" else ""
        if got != v["type"]:
            ctx.violation("electrum-vector:seed-type", f"{v['mnemonic']!r}: Electrum says {v['type']!r}, version_from_mnemonic -> {o[1]!r}", v)
        ctx.case("electrum:published-vector", ("evver", v["mnemonic"]))
    for v in u["seed"]:
        want = _electrum_xprv(v["type"], bytes.fromhex(v["seed"]), "main")
        o = outcome(electrum.mxprv_from_mnemonic, v["mnemonic"], v["passphrase"])
        if o[0] == "raise" or o[1] != want:
            ctx.violation("electrum-vector:master-key-of-published-seed", f"{v['mnemonic']!r} / {v['passphrase']!r}: {o[1]!r}, master key of the published seed is {want}", v)
        ctx.case("electrum:published-vector", ("evseed", v["mnemonic"], v["passphrase"]))
    for v in u["decode"]:
        o = outcome(electrum.entropy_from_mnemonic, v["mnemonic"], v["lang"])
        if o[0] == "raise" or int(o[1], 2) != int(v["entropy"]):
            ctx.violation("electrum-vector:entropy", f"{v['mnemonic']!r}: {o[1]!r}, Electrum decodes {v['entropy']}", v)
        ctx.case("electrum:published-vector", ("evdec", v["mnemonic"]))
    for mn, pw, xprv, _xpub, _addr in _load("electrum_test_vectors.json"):
        o = outcome(electrum.mxprv_from_mnemonic, mn, pw)
        if o[0] == "raise" or o[1] != xprv:
            ctx.violation("electrum-vector:master-key", f"{mn!r} / {pw!r}: {o[1]!r}, published {xprv}", {"mnemonic": mn, "passphrase": pw})
        ctx.case("electrum:published-vector", ("evx", mn, pw))
    for v in _load("electrum_language_vectors.json")["generated"]:
        o = outcome(electrum.mnemonic_from_entropy, v["type"], v["entropy"], v["lang"])
        if v["mnemonic"]:
            if o[0] == "raise" or o[1] != v["mnemonic"]:
                ctx.violation("electrum-vector:generated-sentence", f"{v['lang']}/{v['type']} from {v['entropy']}: {o[1]!r}, Electrum generates {v['mnemonic']!r}", v)
        elif o[0] == "ok":
            ctx.violation("electrum-vector:generated-sentence", f"{v['lang']}/{v['type']}: Electrum fails, library returned {o[1]!r}", v)
        ctx.case("electrum:published-vector", ("evgen", v["lang"], v["type"]))
    for v in u["old"]:
        o = outcome(electrum.hex_seed_from_old_mnemonic, v["mnemonic"])
        if o[0] == "raise" or o[1] != v["hex_seed"]:
            ctx.violation("electrum-vector:old-hex-seed", f"{v['mnemonic']!r}: {o[1]!r}, published {v['hex_seed']}", v)
        if v["master_pub_key"]:
            o = outcome(electrum.old_master_pub_key_from_mnemonic, v["mnemonic"])
            if o[0] == "raise" or o[1] != v["master_pub_key"]:
                ctx.violation("electrum-vector:old-master-pub-key", f"{v['mnemonic']!r}: {o[1]!r}", v)
        ctx.case("electrum:published-vector", ("evold", v["hex_seed"]))


def _electrum_old(ctx: Ctx) -> None:
    from btclib.mnemonic import electrum

    rng = ctx.rng
    OW, OI = wl.load("electrum_old"), wl.index_map("electrum_old")
    n = 300 if ctx.tier == "quick" else 3000
    stretches = 0
    for it in range(n):
        groups = 4 if it % 3 else 8
        parts = []
        for g in range(groups):
            kind = (it + g) % 6
            x = {0: rng.getrandbits(32), 1: rng.getrandbits(rng.choice([4, 12, 20, 27])), 2: 0xFFFFFFFF - rng.getrandbits(8),
                 3: min(rng.randrange(1626) * rng.choice([1, 1626, 1626 * 1626]), 0xFFFFFFFF), 4: rng.getrandbits(32), 5: 0}[kind]
            parts.append(f"{x:08x}")
        hx = "".join(parts)
        want = " ".join(rm.old_mn_encode(hx, OW))
        case = {"hex_seed": hx, "mnemonic": want}
        ctx.mon("electrum-reference")
        o = outcome(electrum.old_mnemonic_from_hex_seed, hx if it % 4 else hx.upper())
        if o[0] == "raise" or o[1] != want:
            ctx.violation("electrum-old:encode-differs", f"old_mnemonic_from_hex_seed({hx}) -> {o[1]!r}, Electrum's mn_encode gives {want!r}", case)
        ctx.case("electrum:old:encode", ("oenc", hx), sample=case)
        typed = want if it % 3 else "  " + want.upper().replace(" ", "  ", 3)
        o = outcome(electrum.hex_seed_from_old_mnemonic, typed)
        if o[0] == "raise" or o[1] != hx:
            ctx.violation("electrum-old:decode-differs:leading-zero-group" if any(p.startswith("0") for p in parts) and o[0] == "ok" and o[1].replace(" ", "0") == hx
                          else "electrum-old:decode-differs", f"hex_seed_from_old_mnemonic({typed!r}) -> {o[1]!r}, encodes {hx}", case)
        ctx.case("electrum:old:decode", ("odec", typed))
        _version_verdict(ctx, electrum, typed, OI, case, "old-seed")
        # random old-list words (not an encoding of anything: groups may exceed 32 bits)
        words = [rng.choice(OW) for _ in range(12 if it % 2 else 24)]
        o = outcome(electrum.hex_seed_from_old_mnemonic, " ".join(words))
        wanthex = rm.old_mn_decode(words, OI)
        if o[0] == "raise" or o[1] != wanthex:
            ctx.violation("electrum-old:decode-differs", f"hex_seed_from_old_mnemonic({' '.join(words)!r}) -> {o[1]!r}, Electrum's mn_decode gives {wanthex}", {"mnemonic": " ".join(words)})
        ctx.case("electrum:old:decode", ("odec2", tuple(words)))
        # hex strings as seeds
        o = outcome(electrum.hex_seed_from_old_mnemonic, hx)
        if o[0] == "raise" or o[1] != hx:
            ctx.violation("electrum-old:hex-seed-not-passed-through", f"hex_seed_from_old_mnemonic({hx!r}) -> {o[1]!r}", case)
        ctx.case("electrum:old:decode", ("ohex", hx))
        if stretches < (4 if ctx.tier == "quick" else 30) and not ctx.out_of_time():
            stretches += 1
            k = rm.old_stretch(hx)
            for arm in ([True, False] if backend_available() else [None]):
                if arm is not None:
                    set_backend(arm)
                    ctx.arm("bindings" if arm else "python")
                o = outcome(electrum.old_master_prv_key_from_mnemonic, want)
                if o[0] == "raise" or o[1] != k:
                    ctx.violation("electrum-old:stretch-differs", f"old_master_prv_key_from_mnemonic({want!r}) -> {o[1]!r}, 100000 x sha256 gives {k:#x}", case)
                if 0 < k < rb.N:
                    P = rb.EC.mul_nored(k, rb.EC.G)
                    o = outcome(electrum.old_master_pub_key_from_mnemonic, want)
                    if o[0] == "raise" or o[1] != (P[0].to_bytes(32, "big") + P[1].to_bytes(32, "big")).hex():
                        ctx.violation("electrum-old:master-pub-key-differs", f"old_master_pub_key_from_mnemonic({want!r}) -> {o[1]!r}", case)
                ctx.case("electrum:old:stretch", ("ostr", hx, arm))
            if backend_available():
                set_backend(True)
            o = outcome(electrum.old_master_prv_key_from_mnemonic, want, "passphrase")
            if o[0] == "ok":
                ctx.stat("electrum:old:passphrase-answered")
    for bad in ("0123456789abcde", "0123456789abcdef0", "xyz", "0123 4567", "0123456789abcdef" * 2 + "abcdef"):
        o = outcome(electrum.old_mnemonic_from_hex_seed, bad)
        if o[0] == "ok":
            ctx.violation("electrum-old:malformed-hex-seed-encoded", f"old_mnemonic_from_hex_seed({bad!r}) -> {o[1]!r}", {"hex_seed": bad})
        ctx.case("electrum:old:malformed", ("obad", bad))


def _electrum_scan(ctx: Ctx) -> None:
    """Reference-guided search for the rare classes of calc_seed_type, each then put to the library."""
    from btclib.mnemonic import electrum

    rng = ctx.rng
    EN, OW, OI = wl.load("en"), wl.load("electrum_old"), wl.index_map("electrum_old")
    want_n = 3 if ctx.tier == "quick" else 12
    found = {"101-prefix-13..19-words": [], "101-prefix-12-or-20+-words": [], "old-words-with-version-prefix": [], "hex-with-version-prefix": [],
             "old-words-other-count": []}
    tries = 0
    while tries < 400000 and (len(found["101-prefix-13..19-words"]) < want_n or len(found["old-words-with-version-prefix"]) < want_n):
        tries += 1
        k = rng.randrange(13, 20)
        s = " ".join(rng.choice(EN) for _ in range(k))
        if rm.seed_version_hex(s).startswith("101"):
            found["101-prefix-13..19-words"].append(s)
        k = rng.choice([12, 20, 21, 24, 25])
        s = " ".join(rng.choice(EN) for _ in range(k))
        if rm.seed_version_hex(s).startswith("101") and len(found["101-prefix-12-or-20+-words"]) < want_n:
            found["101-prefix-12-or-20+-words"].append(s)
        s = " ".join(rng.choice(OW) for _ in range(rng.choice([12, 24])))
        if rm.seed_version_hex(s)[:2] == "01" or rm.seed_version_hex(s)[:3] in ("100", "101", "102"):
            found["old-words-with-version-prefix"].append(s)
        s = rng.randbytes(rng.choice([16, 32])).hex()
        if rm.seed_version_hex(s)[:2] == "01" and len(found["hex-with-version-prefix"]) < want_n:
            found["hex-with-version-prefix"].append(s)
        if tries % 50 == 0 and len(found["old-words-other-count"]) < 40:
            found["old-words-other-count"].append(" ".join(rng.choice(OW) for _ in range(rng.choice([3, 9, 11, 13, 15, 18, 23, 25]))))
    ctx.stat("electrum:scan:sentences-hashed", 4 * tries)
    for klass, sents in found.items():
        for s in sents:
            _version_verdict(ctx, electrum, s, OI, {"scan": klass}, klass)
            ctx.case(f"electrum:scan:{klass}", ("scan", s), sample={"class": klass, "sentence": s, "reference_type": rm.seed_type(s, OI)})


def _bip85(ctx: Ctx) -> None:
    from btclib import bip85
    from btclib.mnemonic import bip39

    rng = ctx.rng
    it = 0
    langs = list(rb.BIP85_LANG)
    n = 100000
    while it < n and not ctx.out_of_time():
        it += 1
        net = ("main", "test")[it % 2]
        try:
            rk = rb.root(rng.randbytes(rng.choice([16, 32, 64])), rb.VERSIONS[(net, "p2pkh")][0])
        except rb.InvalidChild:
            continue
        key = rk.b58()
        index = rng.choice([0, 1, rng.randrange(1 << 31), (1 << 31) - 1])
        case = {"root_key": key, "index": index}
        ctx.mon("bip85-reference")

        def chk(name: str, o, want, extra) -> None:
            if o[0] == "raise":
                ctx.violation(f"bip85:{name}:refused:{_exc_tag(o[1])}", f"bip85 {name} {extra}: {o[1]!r}", {**case, **extra})
            elif o[1] != want:
                ctx.violation(f"bip85:{name}:differs-from-hmac-of-derived-key", f"bip85 {name} {extra}: {str(o[1])[:100]!r}, BIP85 gives {str(want)[:100]!r}", {**case, **extra})
            ctx.case(f"bip85:{name}", ("b85", name, key, index, str(extra)), sample={**case, "app": name, **extra})

        try:
            for lang in (langs if it % 4 == 1 else [langs[it % len(langs)]]):
                words = [12, 15, 18, 21, 24][(it + len(lang)) % 5]
                ent = rb.bip85_mnemonic_entropy(rk, words, rb.BIP85_LANG[lang], index)
                want = rm.bip39_words(ent, wl.load(lang))
                o = outcome(bip85.mnemonic_from_root_key, key, words, lang, index)
                chk("mnemonic", ("ok", _nfkd_words(o[1])) if o[0] == "ok" else o, want, {"lang": lang, "words": words})
                if o[0] == "ok":
                    o2 = outcome(bip39.entropy_from_mnemonic, o[1], lang)
                    if o2[0] == "raise" or o2[1] != _binstr(ent):
                        ctx.violation("bip85:mnemonic:does-not-decode-to-the-derived-entropy", f"{lang} {words} words: {o2[1]!r}", {**case, "lang": lang, "mnemonic": o[1]})
            chk("wif", outcome(bip85.wif_from_root_key, key, index), rb.bip85_wif(rk, index), {})
            chk("xprv", outcome(bip85.xprv_from_root_key, key, index), rb.bip85_xprv(rk, index), {})
            nb = rng.choice([16, 17, 32, 63, 64])
            chk("hex", outcome(bip85.bytes_entropy_from_root_key, key, nb, index), rb.bip85_hex(rk, nb, index), {"num_bytes": nb})
            pl = rng.choice([20, 21, 43, 86])
            chk("pwd64", outcome(bip85.base64_password_from_root_key, key, pl, index), rb.bip85_pwd64(rk, pl, index), {"pwd_len": pl})
            pl = rng.choice([10, 12, 40, 80])
            chk("pwd85", outcome(bip85.base85_password_from_root_key, key, pl, index), rb.bip85_pwd85(rk, pl, index), {"pwd_len": pl})
            sides, rolls = rng.choice([2, 6, 10, 16, 20, 255, 256, 257, 1000]), rng.choice([1, 10, 50])
            chk("dice", outcome(bip85.rolls_from_root_key, key, rolls, sides, index), rb.bip85_rolls(rk, sides, rolls, index), {"sides": sides, "rolls": rolls})
        except rb.InvalidChild:
            continue
