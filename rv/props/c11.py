"""C11 - PSBT roles are lossless, order-independent and never alias their arguments.

Monitors on real role executions over PSBTs produced by end-to-end flows: set algebra over
(map, key, value) pairs read by an independent map-level reader, byte equality across every
permutation and bracketing of combine, invariants (unsigned transaction / unique id) across
sign, finalize, to_v0, to_v2, a scripted dishonest signer for assert_signatures_only /
request_signatures, deep fingerprints and identity walks for mutation and aliasing, and
PsbtView against the parsed object.
"""

from __future__ import annotations

import itertools

from ..ctx import Ctx, is_lib_exc, outcome, tb_origin
from ..hooks import Reach

PROPERTY = "C11"
RULE = (
    "base PSBTs from generated flows (22 descriptor shapes, 1..4 inputs, v0 and v2) at every stage, enriched with unknown fields, "
    "preimages and a sighash type; the signatures and enrichment fields are partitioned across k=2..4 non-conflicting copies and "
    "combined under all k! permutations and every bracketing; every single-field tampering of a correct signer answer; role sequences "
    "of length 3..10. Distinct = distinct (operand bytes, permutation/bracketing | tampering | role sequence)."
)
ASSUMPTIONS = [
    "rv/ref/psbtmap.py (map-level BIP174 reader) decides which (map, key, value) pairs a PSBT holds",
    "conflicting operands (same key, different values) are generated but not judged: BIP174 lets a Combiner pick either",
]
MECH = ["btclib.psbt.psbt:combine", "btclib.psbt.psbt:_combine_field", "btclib.psbt.psbt:_combine_optional_field", "btclib.psbt.psbt:_combined_tx_modifiable",
        "btclib.psbt.psbt:Psbt.to_v0", "btclib.psbt.psbt:Psbt.to_v2", "btclib.psbt.psbt:assert_signatures_only", "btclib.psbt.psbt:_assert_unchanged",
        "btclib.psbt.psbt:_assert_signatures_added_only", "btclib.psbt.psbt:new_signers", "btclib.psbt.psbt:join", "btclib.psbt.psbt:sign",
        "btclib.psbt.psbt:finalize", "btclib.psbt_signer:request_signatures", "btclib.psbt.psbt_view:PsbtView.input", "btclib.psbt.psbt_view:PsbtView.output"]


def plan(tier: str, seed: int) -> list[dict]:
    q = tier == "quick"
    specs = []
    for i in range(6 if q else 10):
        specs.append({"name": f"combine-{i}", "fn": "shard_combine", "flows": 110 if q else 900, "part": i, "_budget_s": 150 if q else 900, "_timeout_s": 500 if q else 2400})
    for i in range(4 if q else 6):
        specs.append({"name": f"answers-{i}", "fn": "shard_answers", "flows": 110 if q else 900, "part": i, "_budget_s": 150 if q else 900, "_timeout_s": 500 if q else 2400})
    for i in range(4 if q else 6):
        specs.append({"name": f"roles-{i}", "fn": "shard_roles", "flows": 110 if q else 800, "part": i, "_budget_s": 150 if q else 900, "_timeout_s": 500 if q else 2400})
    return specs


def finalize(m: dict, tier: str) -> list[str]:
    out = []
    s, r = m["stats"], m["reached"]
    for k in ("combine:permutations", "combine:bracketings", "combine:idempotent", "combine:lossless", "combine:different-tx-refused",
              "combine:different-version-refused", "combine:k=2", "combine:k=3", "combine:k=4", "alias:combine", "alias:sign", "alias:finalize",
              "alias:to_v2", "alias:to_v0", "alias:request_signatures", "alias:update_psbt_input", "invariant:sign", "invariant:finalize",
              "invariant:to_v0", "invariant:to_v2", "answer:honest-accepted", "answer:tampered-refused", "view:agrees", "join:checked",
              "field-in-one-operand:partial_sigs", "field-in-one-operand:unknown", "field-in-one-operand:sig_hash_type",
              "field-in-one-operand:sha256_preimages", "field-in-one-operand:taproot_script_spend_signatures",
              "field-in-one-operand:taproot_key_spend_signature", "field-in-one-operand:sig_hash_type=0", "unique-id:checked", "join:concat:accepted", "join:shuffle:accepted", "join:sort:accepted",
              "join:accepted:v0", "join:accepted:v2", "join:refused", "join:sorted-order-checked", "sort:inputs", "sort:outputs", "assert_signed:invalid-refused"):
        if not s.get(k):
            out.append(f"{k} never observed")
    for f in ("combine", "_combine_field", "_combine_optional_field", "Psbt.to_v0", "Psbt.to_v2", "assert_signatures_only", "join", "PsbtView.input"):
        if not r.get(f):
            out.append(f"mechanism {f} never entered")
    return out


def _reach():
    reach = Reach()
    for d in MECH:
        reach.watch_path(d)
    reach.start()
    return reach


# ------------------------------------------------------------------ helpers
def pairs(psbt_bytes: bytes):
    from ..ref import psbtmap

    return psbtmap.parse(psbt_bytes).multiset()


def ser(p) -> bytes:
    return p.serialize(check_validity=False)


def mutable_ids(obj, seen=None, depth=0) -> set:
    """ids of every mutable container / btclib object reachable from obj."""
    seen = set() if seen is None else seen
    if depth > 12 or id(obj) in seen:
        return seen
    if isinstance(obj, (dict, list, bytearray, set)):
        seen.add(id(obj))
        it = obj.values() if isinstance(obj, dict) else obj
        for x in it:
            mutable_ids(x, seen, depth + 1)
    elif hasattr(obj, "__dict__") and type(obj).__module__.startswith("btclib"):
        seen.add(id(obj))
        for x in vars(obj).values():
            mutable_ids(x, seen, depth + 1)
    elif isinstance(obj, tuple):
        for x in obj:
            mutable_ids(x, seen, depth + 1)
    return seen


def check_role(ctx: Ctx, name: str, args: list, call, case: dict):
    """M4: arguments byte-identical before/after; the result shares no mutable object with an argument."""
    before = [ser(a) for a in args]
    o = outcome(call)
    after = [ser(a) for a in args]
    ctx.mon(f"M4:{name}")
    ctx.stats[f"alias:{name}"] += 1
    if before != after:
        k = next(i for i, (x, y) in enumerate(zip(before, after)) if x != y)
        ctx.violation(f"role-mutates-its-argument:{name}", f"{name} changed the PSBT handed in (operand {k})", {**case, "role": name})
    if o[0] == "ok" and hasattr(o[1], "inputs"):
        shared = mutable_ids(o[1]) & set().union(*[mutable_ids(a) for a in args])
        if shared:
            ctx.violation(f"role-result-aliases-its-argument:{name}", f"{name} returned an object sharing {len(shared)} mutable object(s) with its argument",
                          {**case, "role": name})
    return o


def enrich(psbt, r, h: int):
    """Populate fields no flow produces, in a copy."""
    from copy import deepcopy

    from btclib.hashes import sha256

    p = deepcopy(psbt)
    for k, pin in enumerate(p.inputs):
        pin.unknown[b"\xfc\x05rvchk" + bytes([k])] = b"v%d" % h
        pin.unknown[b"\xfc\x05rvch2" + bytes([k])] = b"w%d" % h
        for j in range(3):     # several entries per map, so that two operands can each hold a part of one map
            pre = b"preimage-%d-%d" % (h, j)
            pin.sha256_preimages[sha256(pre)] = pre
    for k, pout in enumerate(p.outputs):
        pout.unknown[b"\xfc\x05rvout" + bytes([k])] = b"o%d" % h
    p.unknown[b"\xfc\x05rvglb"] = b"g%d" % h
    return p


def split_fields(psbt, base, k: int, r, ctx: Ctx):
    """k copies of ``base``; every (field entry) of ``psbt`` absent from base goes to exactly one copy (no conflicts)."""
    from copy import deepcopy

    copies = [deepcopy(base) for _ in range(k)]
    map_fields_in = ["partial_sigs", "unknown", "sha256_preimages", "ripemd160_preimages", "hash160_preimages", "hash256_preimages",
                     "taproot_script_spend_signatures", "hd_key_paths", "taproot_leaf_scripts"]
    one_fields_in = ["sig_hash_type", "taproot_key_spend_signature", "redeem_script", "witness_script", "taproot_internal_key", "taproot_merkle_root"]
    for i, pin in enumerate(psbt.inputs):
        bin_ = base.inputs[i]
        for f in map_fields_in:
            for key, val in getattr(pin, f).items():
                if key not in getattr(bin_, f):
                    j = r.randrange(k)
                    getattr(copies[j].inputs[i], f)[key] = val
                    ctx.stats[f"field-in-one-operand:{f}"] += 1
        for f in one_fields_in:
            v, bv = getattr(pin, f), getattr(bin_, f)
            if v != bv and (bv is None or bv == b""):
                j = r.randrange(k)
                setattr(copies[j].inputs[i], f, v)
                ctx.stats[f"field-in-one-operand:{f}" + ("=0" if f == "sig_hash_type" and v == 0 else "")] += 1
    for i, pout in enumerate(psbt.outputs):
        for key, val in pout.unknown.items():
            if key not in base.outputs[i].unknown:
                copies[r.randrange(k)].outputs[i].unknown[key] = val
    for key, val in psbt.unknown.items():
        if key not in base.unknown:
            copies[r.randrange(k)].unknown[key] = val
    return copies


def bracketings(items):
    """Every way of combining the ordered list with a binary combine (as nested tuples)."""
    if len(items) == 1:
        return [items[0]]
    out = []
    for i in range(1, len(items)):
        for left in bracketings(items[:i]):
            for right in bracketings(items[i:]):
                out.append((left, right))
    return out


# ------------------------------------------------------------------ combine
def shard_combine(ctx: Ctx) -> None:
    from copy import deepcopy

    from btclib.psbt.psbt import combine

    from ..gen.flows import SHAPES, FlowGen

    reach = _reach()
    r = ctx.rng
    g = FlowGen(r, label=f"c11:{ctx.seed}:{ctx.shard}")
    names = list(SHAPES)
    for it in range(ctx.params["flows"]):
        if ctx.out_of_time():
            break
        shapes = [names[(it + ctx.params["part"] * 5) % len(names)]] + [r.choice(names) for _ in range(r.choice([0, 1, 2, 3]))]
        try:
            # taproot inputs asking for SIGHASH_DEFAULT explicitly: the field value 0 must survive a combine
            fl = g.build(shapes, sighash="random")
            for k, shp in enumerate(shapes):
                if SHAPES[shp][2] and fl.sighash[k] is None and r.random() < 0.5:
                    fl.created.inputs[k].sig_hash_type = 0
                    fl.sighash[k] = 0
            g.sign(fl, ("software", "psbt.sign")[it % 2])
        except Exception as e:  # noqa: BLE001
            if not is_lib_exc(e):
                ctx.violation(f"flow:foreign-exception:{type(e).__name__}@{tb_origin(e)}", f"{shapes}: {e!r}", {"shapes": shapes})
            ctx.stat("flow-refused")
            continue
        case = {"shapes": shapes, "psbt_version": fl.psbt_version, "sighash": fl.sighash}
        # the base holds what every operand shares: the Creator's psbt with the utxos only
        full = enrich(fl.chained, r, it)
        base = deepcopy(fl.created)
        for pin in base.inputs:
            pin.sig_hash_type = None
            pin.hd_key_paths = {}
            pin.taproot_leaf_scripts = {}
            pin.redeem_script = pin.witness_script = b""
            pin.taproot_internal_key = pin.taproot_merkle_root = b""
            pin.taproot_hd_key_paths = {}
        if outcome(base.assert_valid)[0] == "raise":
            base = deepcopy(fl.created)
        want = pairs(ser(full))
        for k in (2, 3, 4):
            ops = split_fields(full, base, k, r, ctx)
            if any(outcome(o.assert_valid)[0] == "raise" for o in ops):
                ctx.stat("combine:operand-invalid-skipped")
                continue
            ctx.stats[f"combine:k={k}"] += 1
            results = {}
            op_bytes = [ser(o) for o in ops]
            case_k = {**case, "k": k, "operands": [b.hex()[:2000] for b in op_bytes]}
            for perm in itertools.permutations(range(k)):
                o = check_role(ctx, "combine", [ops[j] for j in perm], lambda perm=perm: combine([ops[j] for j in perm]), case_k)
                if o[0] == "raise":
                    tag = "combine-refuses-non-conflicting-operands" if is_lib_exc(o[1]) else f"combine:foreign-exception:{type(o[1]).__name__}@{tb_origin(o[1])}"
                    ctx.violation(tag, f"combine raised {o[1]!r} for operands of one transaction with no conflicting pair", case_k)
                    continue
                results[perm] = ser(o[1])
                ctx.case("combine:permutation", (tuple(op_bytes), perm))
            ctx.stats["combine:permutations"] += len(results)
            distinct = set(results.values())
            if len(distinct) > 1:
                ctx.violation("combine-depends-on-operand-order", f"{len(distinct)} different results over the {len(results)} orders of {k} non-conflicting operands", case_k)
            if results:
                got = pairs(next(iter(results.values())))
                need = sum((pairs(b) for b in op_bytes), start=type(want)())
                missing = [kv for kv in need if kv not in got]
                ctx.stats["combine:lossless"] += 1
                if missing:
                    mk = missing[0]
                    ctx.violation(f"combine-loses-a-pair:map{'-global' if mk[0] == 0 else ''}:key-type-{mk[1][:1].hex()}",
                                  f"{len(missing)} key-value pair(s) of an operand are missing from the result, e.g. map {mk[0]} key {mk[1].hex()}", case_k)
            # bracketings of one order, through binary combines
            order = list(range(k))
            trees = bracketings(order) if k <= 4 else []

            def evaluate(t):
                if isinstance(t, int):
                    return ops[t]
                return combine([evaluate(t[0]), evaluate(t[1])])
            bres = set()
            for t in trees:
                o = outcome(evaluate, t)
                if o[0] == "ok":
                    bres.add(ser(o[1]))
                    ctx.case("combine:bracketing", (tuple(op_bytes), repr(t)))
                elif not is_lib_exc(o[1]):
                    ctx.violation(f"combine:foreign-exception:{type(o[1]).__name__}@{tb_origin(o[1])}", f"{o[1]!r}", case_k)
            ctx.stats["combine:bracketings"] += len(trees)
            if len(bres | distinct) > 1:
                ctx.violation("combine-depends-on-grouping", f"{len(bres | distinct)} different results over the bracketings of {k} operands", case_k)
            # idempotence
            one = ops[0]
            o = outcome(combine, [one, one])
            ctx.stats["combine:idempotent"] += 1
            if o[0] == "raise" or ser(o[1]) != ser(combine([one])):
                ctx.violation("combine-not-idempotent", f"combine([p, p]) differs from p ({o[1]!r})" if o[0] == "raise" else "combine([p, p]) != combine([p])", case_k)
        # the identity of a version 2 psbt is blind to sequences and to nothing else
        if fl.psbt_version == 2:
            a, b = deepcopy(fl.created), deepcopy(fl.created)
            b.inputs[0].sequence = ((b.inputs[0].sequence if b.inputs[0].sequence is not None else 0xFFFFFFFF) ^ 1)
            uo = outcome(lambda: (a.unique_id, b.unique_id))
            ctx.stats["unique-id:checked"] += 1
            if uo[0] == "ok" and uo[1][0] != uo[1][1]:
                ctx.violation("unique-id-depends-on-a-sequence", "two version 2 PSBTs of one transaction differing in an input sequence have different unique ids", case)
            co = outcome(combine, [a, b])
            if co[0] == "raise" and is_lib_exc(co[1]) and "mismatched" in str(co[1]):
                ctx.violation("combine-refuses-psbts-of-one-transaction", f"combine refused two PSBTs differing only in a sequence: {co[1]}", case)
            c = deepcopy(fl.created)
            c.outputs[0].amount = c.outputs[0].amount - 1
            uo = outcome(lambda: (a.unique_id, c.unique_id))
            if uo[0] == "ok" and uo[1][0] == uo[1][1]:
                ctx.violation("unique-id-blind-to-an-output-amount", "unique_id equal for different output amounts", case)
        # operands of different transactions / versions must be refused
        other = g.build(shapes[:1], psbt_version=fl.psbt_version)
        o = outcome(combine, [fl.created, other.created])
        ctx.stats["combine:different-tx-refused"] += 1
        if o[0] == "ok":
            ctx.violation("combine-accepts-different-transactions", "PSBTs of two different transactions were combined", case)
        elif not is_lib_exc(o[1]):
            ctx.violation(f"combine:foreign-exception:{type(o[1]).__name__}@{tb_origin(o[1])}", f"{o[1]!r}", case)
        # ... and so must the nearest different transactions: one field of the unsigned transaction changed. For a
        # version 0 psbt that includes an input's sequence (the txid commits to it; only BIP370's identifier is blind to it)
        def edited(field):
            # both versions keep the transaction as fields of the maps (version 0 writes it back as the global unsigned tx)
            d = deepcopy(fl.created)
            if field == "sequence":
                if fl.psbt_version == 2:
                    return None      # the same transaction for BIP370's identifier: judged above
                d.inputs[0].sequence = (d.inputs[0].sequence if d.inputs[0].sequence is not None else 0xFFFFFFFF) ^ 2
            elif field == "lock_time":
                d.fallback_lock_time = (d.fallback_lock_time or 0) ^ 1
                if fl.psbt_version == 2 and d.lock_time == fl.created.lock_time:
                    return None      # an input's required lock time decides: the fallback is not part of the transaction
            elif field == "version":
                d.tx_version = 1 if d.tx_version != 1 else 2
            elif field == "amount":
                d.outputs[0].amount ^= 1
            elif field == "vout":
                d.inputs[0].output_index ^= 1
            return d

        for field in ("sequence", "lock_time", "version", "amount", "vout"):
            eo = outcome(edited, field)
            if eo[0] == "raise" or eo[1] is None:
                continue
            same = outcome(lambda: eo[1].tx.id == fl.created.tx.id)
            if same[0] == "raise" or same[1]:
                ctx.stat(f"combine:edit-not-applicable:{field}")
                continue
            for pair in ([fl.created, eo[1]], [eo[1], fl.created]):
                o = outcome(combine, pair)
                ctx.stats["combine:one-field-different-tx-refused"] += 1
                ctx.stats[f"combine:one-field:{field}:v{fl.psbt_version}"] += 1
                if o[0] == "ok":
                    ctx.violation(f"combine-accepts-different-transactions:{field}-differs",
                                  f"two version {fl.psbt_version} PSBTs whose unsigned transactions differ in {field} were combined", {**case, "field": field})
                elif not is_lib_exc(o[1]):
                    ctx.violation(f"combine:foreign-exception:{type(o[1]).__name__}@{tb_origin(o[1])}", f"{o[1]!r}", case)
        conv = outcome(lambda: fl.created.to_v2() if fl.psbt_version == 0 else fl.created.to_v0())
        if conv[0] == "ok":
            o = outcome(combine, [fl.created, conv[1]])
            ctx.stats["combine:different-version-refused"] += 1
            if o[0] == "ok":
                ctx.violation("combine-accepts-different-versions", "a version 0 and a version 2 PSBT were combined", case)
            elif not is_lib_exc(o[1]):
                ctx.violation(f"combine:foreign-exception:{type(o[1]).__name__}@{tb_origin(o[1])}", f"{o[1]!r}", case)
    reach.stop()
    reach.report(ctx)


# ------------------------------------------------------------------ answers
def shard_answers(ctx: Ctx) -> None:
    """A correct signer answer must be accepted; every single-field tampering of it must be refused."""
    from copy import deepcopy

    from btclib.psbt.psbt import assert_signatures_only, assert_signed, new_signers
    from btclib.psbt_signer import SoftwareSigner, request_signatures
    from btclib.script import ScriptPubKey
    from btclib.tx import TxOut

    from ..gen.flows import SHAPES, FlowGen

    reach = _reach()
    r = ctx.rng
    g = FlowGen(r, label=f"c11a:{ctx.seed}:{ctx.shard}")
    names = list(SHAPES)
    for it in range(ctx.params["flows"]):
        if ctx.out_of_time():
            break
        shapes = [names[(it + ctx.params["part"] * 3) % len(names)]] + [r.choice(names) for _ in range(r.choice([0, 1, 2]))]
        try:
            fl = g.build(shapes)
            request = fl.created
            signer = SoftwareSigner(fl.roots[it % 3])
            o = check_role(ctx, "request_signatures", [request], lambda: request_signatures(signer, request), {"shapes": shapes})
            if o[0] == "raise":
                raise o[1]
            answer = o[1]
        except Exception as e:  # noqa: BLE001
            if not is_lib_exc(e):
                ctx.violation(f"flow:foreign-exception:{type(e).__name__}@{tb_origin(e)}", f"{shapes}: {e!r}", {"shapes": shapes})
            ctx.stat("flow-refused")
            continue
        case = {"shapes": shapes, "psbt_version": fl.psbt_version, "request": ser(request).hex()[:3000], "answer": ser(answer).hex()[:3000]}
        o = outcome(assert_signatures_only, request, answer)
        if o[0] == "raise":
            ctx.violation("honest-signer-answer-refused", f"assert_signatures_only refused the library's own signer answer: {o[1]}", case)
            continue
        ctx.stats["answer:honest-accepted"] += 1
        ctx.case("answer:honest", (ser(request), ser(answer)))
        outcome(new_signers, request, answer)
        # assert_signed, the same question asked of one psbt: whether it takes the honest answer is a statistic (an input
        # that does not say what was signed is refused by design), that it refuses a signature that does not verify is judged below
        oh = outcome(lambda: assert_signed(answer, allow_partial=True))
        if oh[0] == "raise" and not is_lib_exc(oh[1]):
            ctx.violation(f"answers:foreign-exception:{type(oh[1]).__name__}@{tb_origin(oh[1])}", f"assert_signed: {oh[1]!r}", case)
        ctx.stats["assert_signed:honest-accepted" if oh[0] == "ok" else "assert_signed:honest-refused"] += 1

        class Scripted:
            """A dishonest device: returns a prepared psbt whatever it is asked."""
            def __init__(self, ret):
                self.ret = ret
            master_fingerprint = signer.master_fingerprint
            capabilities = signer.capabilities
            def xpub(self, p):
                return signer.xpub(p)
            def sign_psbt(self, psbt):
                return self.ret
            def close(self):
                pass

        def tampers():
            a = deepcopy(answer)
            a.inputs[0].unknown[b"\xfc\x01x"] = b"added"
            yield "input-unknown-added", a
            a = deepcopy(answer)
            a.outputs[0].unknown[b"\xfc\x01x"] = b"added"
            yield "output-unknown-added", a
            a = deepcopy(answer)
            a.unknown[b"\xfc\x01x"] = b"added"
            yield "global-unknown-added", a
            for i, pin in enumerate(answer.inputs):
                if pin.partial_sigs:
                    a = deepcopy(answer)
                    kk = next(iter(a.inputs[i].partial_sigs))
                    sig = bytearray(a.inputs[i].partial_sigs[kk])
                    sig[-10] ^= 1      # inside s: still DER, no longer a signature of this input
                    a.inputs[i].partial_sigs[kk] = bytes(sig)
                    yield "invalid-new-ecdsa-signature", a
                    break
            for i, pin in enumerate(answer.inputs):
                if pin.taproot_key_spend_signature:
                    a = deepcopy(answer)
                    sig = bytearray(a.inputs[i].taproot_key_spend_signature)
                    sig[40] ^= 1
                    a.inputs[i].taproot_key_spend_signature = bytes(sig)
                    yield "invalid-new-taproot-signature", a
                    break
            for i, pin in enumerate(answer.inputs):
                if pin.taproot_script_spend_signatures:
                    a = deepcopy(answer)
                    kk = next(iter(a.inputs[i].taproot_script_spend_signatures))
                    sig = bytearray(a.inputs[i].taproot_script_spend_signatures[kk])
                    sig[40] ^= 1
                    a.inputs[i].taproot_script_spend_signatures[kk] = bytes(sig)
                    yield "invalid-new-script-path-signature", a
                    break
            unsigned_first = sorted(range(len(answer.inputs)), key=lambda i: bool(answer.inputs[i].partial_sigs or answer.inputs[i].taproot_key_spend_signature
                                                                                  or answer.inputs[i].taproot_script_spend_signatures))
            for i in unsigned_first:
                pin = answer.inputs[i]
                if pin.witness_utxo is not None:
                    a = deepcopy(answer)
                    w = a.inputs[i].witness_utxo
                    a.inputs[i].witness_utxo = TxOut(w.value + 1, w.script_pub_key)
                    yield "witness-utxo-amount-changed", a
                    break
            for i, pin in enumerate(answer.inputs):
                if pin.hd_key_paths:
                    a = deepcopy(answer)
                    a.inputs[i].hd_key_paths.pop(next(iter(a.inputs[i].hd_key_paths)))
                    yield "derivation-removed", a
                    break
            for i, pin in enumerate(answer.inputs):
                if pin.redeem_script or pin.witness_script:
                    a = deepcopy(answer)
                    if pin.witness_script:
                        a.inputs[i].witness_script = pin.witness_script + b"\x61"
                    else:
                        a.inputs[i].redeem_script = pin.redeem_script + b"\x61"
                    yield "script-changed", a
                    break
            a = deepcopy(answer)
            a.inputs[0].sig_hash_type = 0x82 if a.inputs[0].sig_hash_type != 0x82 else 0x81
            yield "sighash-type-changed", a
            if fl.psbt_version == 2:
                a = deepcopy(answer)
                a.inputs[0].sequence = (a.inputs[0].sequence or 0) ^ 1
                yield "v2-sequence-changed", a
                a = deepcopy(answer)
                a.outputs[0].amount = a.outputs[0].amount - 1
                yield "v2-output-amount-changed", a
                a = deepcopy(answer)
                a.tx_modifiable = (a.tx_modifiable or 0) | 3
                yield "tx-modifiable-widened", a
            else:
                a = deepcopy(answer)
                a.tx_version = a.tx_version + 1 if hasattr(a, "tx_version") else a.tx_version
                yield "tx-version-changed", a
            a = deepcopy(answer)
            a.outputs[0].redeem_script = b"\x51"
            yield "output-script-added", a
            conv = outcome(lambda: answer.to_v2() if fl.psbt_version == 0 else answer.to_v0())
            if conv[0] == "ok":
                yield "version-converted", conv[1]
            # an answer that drops a signature the request already carried
            if any(p.partial_sigs or p.taproot_key_spend_signature or p.taproot_script_spend_signatures for p in answer.inputs):
                second = outcome(request_signatures, SoftwareSigner(fl.roots[(it + 1) % 3]), answer)
                if second[0] == "ok":
                    a = deepcopy(second[1])
                    dropped = False
                    for i, pin in enumerate(answer.inputs):
                        if pin.partial_sigs:
                            a.inputs[i].partial_sigs.pop(next(iter(pin.partial_sigs)))
                            dropped = True
                            break
                        if pin.taproot_key_spend_signature:
                            a.inputs[i].taproot_key_spend_signature = b""
                            dropped = True
                            break
                    if dropped:
                        yield ("existing-signature-dropped", a, answer)

        for t in tampers():
            tag, tampered = t[0], t[1]
            req = t[2] if len(t) > 2 else request
            so = outcome(ser, tampered)
            if so[0] == "raise" or so[1] == ser(answer if len(t) == 2 else req):
                continue
            o = outcome(assert_signatures_only, req, tampered)
            c2 = {**case, "tampering": tag, "tampered": ser(tampered).hex()[:3000]}
            ctx.mon("dishonest-answer")
            if o[0] == "ok":
                ctx.violation(f"tampered-signer-answer-accepted:{tag}", f"assert_signatures_only accepted an answer with {tag}", c2)
            elif not is_lib_exc(o[1]):
                ctx.violation(f"answers:foreign-exception:{type(o[1]).__name__}@{tb_origin(o[1])}", f"{tag}: {o[1]!r}", c2)
            else:
                ctx.stats["answer:tampered-refused"] += 1
                ctx.stats[f"tamper:{tag}"] += 1
            o2 = outcome(request_signatures, Scripted(tampered), req)
            if o2[0] == "ok":
                ctx.violation(f"tampered-signer-answer-accepted:request_signatures:{tag}", f"request_signatures returned a device answer with {tag}", c2)
            if tag.startswith("invalid-new-"):
                o3 = outcome(lambda: assert_signed(tampered, allow_partial=True))
                ctx.mon("assert_signed-invalid-signature")
                if o3[0] == "ok":
                    ctx.violation(f"invalid-signature-passes-assert_signed:{tag}", f"assert_signed(allow_partial=True) accepted a psbt with {tag}", c2)
                elif not is_lib_exc(o3[1]):
                    ctx.violation(f"answers:foreign-exception:{type(o3[1]).__name__}@{tb_origin(o3[1])}", f"assert_signed {tag}: {o3[1]!r}", c2)
                else:
                    ctx.stats["assert_signed:invalid-refused"] += 1
            ctx.case(f"answer:{tag}", (ser(req), ser(tampered)))

        # ---- a request that already carries a *finalized* input (a wallet that signed and finalized its own input before
        # handing the psbt on): the answer may touch that input no more than any other
        if len(shapes) < 2:
            continue
        try:
            full = g.build(shapes)
            g.sign(full, "software")
            g.finish(full)
        except Exception as e:  # noqa: BLE001
            if not is_lib_exc(e):
                ctx.violation(f"flow:foreign-exception:{type(e).__name__}@{tb_origin(e)}", f"{shapes}: {e!r}", {"shapes": shapes})
            ctx.stat("flow-refused")
            continue
        kfin = r.randrange(len(shapes))
        req2 = deepcopy(full.created)
        req2.inputs[kfin] = deepcopy(full.finalized.inputs[kfin])
        signer2 = SoftwareSigner(full.roots[it % 3])
        ao = outcome(request_signatures, signer2, req2)
        case2 = {"shapes": shapes, "finalized_input": kfin, "psbt_version": full.psbt_version, "request": outcome(lambda: ser(req2).hex()[:3000])[1]}
        if ao[0] == "raise":
            if not is_lib_exc(ao[1]):
                ctx.violation(f"answers:foreign-exception:{type(ao[1]).__name__}@{tb_origin(ao[1])}", f"request with a finalized input: {ao[1]!r}", case2)
            ctx.stat("answer:partly-finalized-request-refused")
            continue
        ans2 = ao[1]
        ctx.stats["answer:partly-finalized-request"] += 1

        def tampers2():
            a = deepcopy(ans2)
            pin = a.inputs[kfin]
            if pin.final_script_witness is not None and getattr(pin.final_script_witness, "stack", None):
                from btclib.script import Witness
                pin.final_script_witness = Witness([*pin.final_script_witness.stack[:-1], bytes(pin.final_script_witness.stack[-1]) + b"\x00"])
                yield "finalized-input:final-witness-replaced", a
            a = deepcopy(ans2)
            if a.inputs[kfin].final_script_sig:
                a.inputs[kfin].final_script_sig = bytes(a.inputs[kfin].final_script_sig) + b"\x61"
                yield "finalized-input:final-script-sig-replaced", a
            a = deepcopy(ans2)
            if a.inputs[kfin].witness_utxo is not None:
                w = a.inputs[kfin].witness_utxo
                a.inputs[kfin].witness_utxo = TxOut(w.value + 1, w.script_pub_key)
                yield "finalized-input:witness-utxo-amount-changed", a
            a = deepcopy(ans2)
            a.inputs[kfin].unknown[b"\xfc\x01x"] = b"added"
            yield "finalized-input:unknown-added", a
            a = deepcopy(ans2)
            a.inputs[kfin].sha256_preimages[bytes(32)] = b"p"
            yield "finalized-input:preimage-added", a

        for tag, tampered in tampers2():
            so = outcome(ser, tampered)
            if so[0] == "raise" or so[1] == ser(ans2):
                continue
            o = outcome(assert_signatures_only, req2, tampered)
            c2 = {**case2, "tampering": tag, "tampered": so[1].hex()[:3000]}
            ctx.mon("dishonest-answer")
            if o[0] == "ok":
                ctx.violation(f"tampered-signer-answer-accepted:{tag}", f"assert_signatures_only accepted an answer with {tag}", c2)
            elif not is_lib_exc(o[1]):
                ctx.violation(f"answers:foreign-exception:{type(o[1]).__name__}@{tb_origin(o[1])}", f"{tag}: {o[1]!r}", c2)
            else:
                ctx.stats["answer:tampered-refused"] += 1
                ctx.stats[f"tamper:{tag}"] += 1
            ctx.case(f"answer:{tag}", (ser(req2), so[1]))
    reach.stop()
    reach.report(ctx)


# -------------------------------------------------------------------- roles
def shard_roles(ctx: Ctx) -> None:
    from btclib.psbt.psbt import Psbt, combine, finalize, join
    from btclib.psbt.psbt import sign as psbt_sign
    from btclib.psbt.psbt_view import PsbtView
    from btclib.psbt_signer import SoftwareSigner

    from ..gen.flows import SHAPES, FlowGen

    reach = _reach()
    r = ctx.rng
    g = FlowGen(r, label=f"c11r:{ctx.seed}:{ctx.shard}")
    names = list(SHAPES)
    for it in range(ctx.params["flows"]):
        if ctx.out_of_time():
            break
        shapes = [names[(it + ctx.params["part"] * 3) % len(names)]] + [r.choice(names) for _ in range(r.choice([0, 1, 2]))]
        try:
            fl = g.build(shapes)
        except Exception as e:  # noqa: BLE001
            if not is_lib_exc(e):
                ctx.violation(f"flow:foreign-exception:{type(e).__name__}@{tb_origin(e)}", f"{shapes}: {e!r}", {"shapes": shapes})
            continue
        cur = fl.created
        tx_id, uid = cur.tx.id, cur.unique_id
        tx_bytes = cur.tx.serialize(include_witness=False)
        seq = []
        case = {"shapes": shapes, "psbt_version": fl.psbt_version}
        # the Updater role: same M4 discipline
        k0 = r.randrange(len(shapes))
        check_role(ctx, "update_psbt_input", [cur], lambda: fl.descs[k0].update_psbt_input(cur, k0, fl.index[k0]), case)
        others = [cur]
        for step in range(r.randrange(3, 11)):
            op = r.choice(["sign-A", "sign-B", "sign-C", "combine", "finalize", "to_v0", "to_v2", "reparse"])
            seq.append(op)
            c2 = {**case, "sequence": list(seq)}
            if op.startswith("sign"):
                root = fl.roots["ABC".index(op[-1])]
                o = check_role(ctx, "sign", [cur], lambda root=root: psbt_sign(cur, SoftwareSigner(root))[0], c2)
                inv = "sign"
            elif op == "combine":
                o = check_role(ctx, "combine", [cur, others[-1]] if others[-1].version == cur.version else [cur],
                               lambda: combine([cur, others[-1]] if others[-1].version == cur.version else [cur]), c2)
                inv = "combine"
            elif op == "finalize":
                o = check_role(ctx, "finalize", [cur], lambda: finalize(cur, solver=g.solver(fl)), c2)
                inv = "finalize"
            elif op == "to_v0":
                o = check_role(ctx, "to_v0", [cur], lambda: cur.to_v0(), c2)
                inv = "to_v0"
            elif op == "to_v2":
                o = check_role(ctx, "to_v2", [cur], lambda: cur.to_v2(), c2)
                inv = "to_v2"
            else:
                o = outcome(lambda: Psbt.parse(ser(cur)))
                inv = "reparse"
            if o[0] == "raise":
                if not is_lib_exc(o[1]):
                    ctx.violation(f"roles:foreign-exception:{type(o[1]).__name__}@{tb_origin(o[1])}", f"{op}: {o[1]!r}", c2)
                ctx.stats[f"role-refused:{op}"] += 1
                continue
            new = o[1]
            ctx.stats[f"invariant:{inv}"] += 1
            ctx.mon("unsigned-tx-invariant")
            nid = outcome(lambda: (new.tx.id, new.tx.serialize(include_witness=False)))
            if nid[0] == "raise":
                ctx.violation(f"role-breaks-the-psbt:{inv}", f"after {op} the psbt's transaction cannot be read: {nid[1]!r}", c2)
                continue
            if nid[1][0] != tx_id or nid[1][1] != tx_bytes:
                ctx.violation(f"role-changes-the-unsigned-transaction:{inv}", f"{op} changed the unsigned transaction (txid {tx_id.hex()[:16]} -> {nid[1][0].hex()[:16]})", c2)
            if inv in ("sign", "finalize", "combine", "reparse") and new.unique_id != cur.unique_id:
                ctx.violation(f"role-changes-the-unique-id:{inv}", f"{op} changed unique_id", c2)
            if inv == "reparse" and ser(new) != ser(cur):
                ctx.violation("serialize-parse-not-a-fixed-point", "parse(serialize(p)).serialize() differs", c2)
            others.append(cur)
            cur = new
            ctx.case(f"role:{inv}", (tuple(seq), ser(cur)))
            # the streamed view agrees with the object
            if step % 3 == 0:
                b = ser(cur)
                vo = outcome(PsbtView, b)
                if vo[0] == "raise":
                    if not is_lib_exc(vo[1]):
                        ctx.violation(f"view:foreign-exception:{type(vo[1]).__name__}", f"{vo[1]!r}", c2)
                    else:
                        ctx.violation("view-refuses-a-psbt-the-parser-accepts", f"PsbtView: {vo[1]}", c2)
                    continue
                v = vo[1]
                # a fresh view for the lock time: it is computed from the streamed inputs until the transaction has been built
                cmp = outcome(lambda: (PsbtView(b).lock_time == cur.lock_time, v.tx.serialize(include_witness=False) == cur.tx.serialize(include_witness=False),
                                       all(ser_in(v.input(i)) == ser_in(cur.inputs[i]) for i in range(len(cur.inputs))),
                                       all(ser_out(v.output(i), cur) == ser_out(cur.outputs[i], cur) for i in range(len(cur.outputs))),
                                       [(p.value, p.script_pub_key.script) for p in v.prevouts] == [(p.value, p.script_pub_key.script) for p in _prevouts(cur)]))
                ctx.stats["view:agrees"] += 1
                if cmp[0] == "raise":
                    if not is_lib_exc(cmp[1]):
                        ctx.violation(f"view:foreign-exception:{type(cmp[1]).__name__}@{tb_origin(cmp[1])}", f"{cmp[1]!r}", c2)
                elif not all(cmp[1]):
                    what = ["lock_time", "tx", "inputs", "outputs", "prevouts"][list(cmp[1]).index(False)]
                    ctx.violation(f"view-disagrees-with-parsed-psbt:{what}", f"PsbtView.{what} differs from the parsed object after {seq}", c2)
        # join of two or three disjoint PSBTs, concatenated, shuffled or sorted
        if it % 3 == 0:
            try:
                jv = 0 if (it // 12) % 3 == 2 else 2
                a = g.build(shapes[:1], psbt_version=jv)
                b = g.build([r.choice(names)], psbt_version=jv)
                ops = [a.created, b.created]
                if r.random() < 0.3:
                    ops.append(g.build([r.choice(names)], psbt_version=jv).created)
                # a version 2 psbt still with its Constructor says so (BIP370 Inputs/Outputs Modifiable); one in eight does not, and is refused
                if jv == 2 and r.random() < 0.875:
                    for x in ops:
                        x.tx_modifiable = 3
                mode = ["concat", "shuffle", "sort", "sort-desc"][(it // 3) % 4]
                key_in, key_out = _sort_keys(mode)
                jcase = {**case, "join": mode, "operands": len(ops), "join_version": jv}
                o = check_role(ctx, "join", ops, lambda: join(ops, False, False, mode == "shuffle", mode == "shuffle", key_in, key_out), jcase)
                ctx.stats["join:checked"] += 1
                ctx.stats[f"join:{mode}"] += 1
                if o[0] == "ok":
                    j = o[1]
                    ctx.stats["join:accepted"] += 1
                    ctx.stats[f"join:accepted:v{jv}"] += 1
                    ctx.stats[f"join:{mode}:accepted"] += 1
                    ia = [(p.previous_tx_id, p.output_index) for x in ops for p in x.inputs]
                    ij = [(p.previous_tx_id, p.output_index) for p in j.inputs]
                    if sorted(ia) != sorted(ij) or len(j.outputs) != sum(len(x.outputs) for x in ops):
                        ctx.violation("join-loses-or-invents-inputs-or-outputs", "join of disjoint PSBTs does not hold exactly their inputs and outputs", jcase)
                    na = sum((pairs_inputs(x) for x in ops), start=__import__("collections").Counter())
                    nj = pairs_inputs(j)
                    lost = [kv for kv in na if kv not in nj]
                    if lost:
                        ctx.violation("join-loses-an-input-field", f"{len(lost)} input key-value pair(s) lost by join, e.g. key {lost[0][0].hex()}", jcase)
                    # every input map and every output map of an operand is, whole, a map of the joined psbt
                    ctx.mon("join-maps-whole")
                    mi = sorted(ser_in(p) for x in ops for p in x.inputs)
                    mo = sorted(ser_out(p, x) for x in ops for p in x.outputs)
                    if mi != sorted(ser_in(p) for p in j.inputs):
                        ctx.violation("join-splits-or-changes-an-input-map", f"join ({mode}): the input maps of the result are not those of the operands", jcase)
                    if mo != sorted(ser_out(p, j) for p in j.outputs):
                        ctx.violation("join-splits-or-changes-an-output-map", f"join ({mode}): the output maps of the result are not those of the operands", jcase)
                    if mode == "concat":
                        if ij != ia:
                            ctx.violation("join-concatenation-out-of-order", "join without shuffle or sort does not keep the operands' input order", jcase)
                    elif mode.startswith("sort"):
                        ki, ko = [key_in(p) for p in j.inputs], [key_out(p) for p in j.outputs]
                        if ki != sorted(ki) or ko != sorted(ko):
                            ctx.violation("join-sort-not-sorted", f"join with sort_inp/sort_out ({mode}) returns inputs or outputs out of that order", jcase)
                        ctx.stats["join:sorted-order-checked"] += 1
                    ctx.case(f"join:{mode}", (mode, ser(j)))
                elif not is_lib_exc(o[1]):
                    ctx.violation(f"join:foreign-exception:{type(o[1]).__name__}@{tb_origin(o[1])}", f"{o[1]!r}", jcase)
                else:
                    ctx.stats["join:refused"] += 1
            except Exception as e:  # noqa: BLE001
                if not is_lib_exc(e):
                    raise
        # Psbt.sort_inputs / sort_outputs (in place, on a private copy): nothing lost, nothing invented, the other side untouched
        for src in (fl.created, cur):
            for side in ("inputs", "outputs"):
                mode = r.choice(["shuffle", "sort", "sort-desc"])
                key_in, key_out = _sort_keys(mode)
                po = outcome(lambda: Psbt.parse(ser(src)))
                if po[0] == "raise":
                    continue
                p = po[1]
                if p.version == 2 and r.random() < 0.75:
                    p.tx_modifiable = 3
                scase = {**case, "sort": side, "mode": mode, "psbt": ser(p).hex()[:3000]}
                bi, bo = [ser_in(x) for x in p.inputs], [ser_out(x, p) for x in p.outputs]
                so = outcome(lambda: p.sort_inputs(key_in) if side == "inputs" else p.sort_outputs(key_out))
                if so[0] == "raise":
                    if not is_lib_exc(so[1]):
                        ctx.violation(f"sort:foreign-exception:{type(so[1]).__name__}@{tb_origin(so[1])}", f"{so[1]!r}", scase)
                    ctx.stats["sort:refused"] += 1
                    continue
                ctx.mon("sort-lossless")
                ctx.stats[f"sort:{side}"] += 1
                ai, ao = [ser_in(x) for x in p.inputs], [ser_out(x, p) for x in p.outputs]
                if sorted(ai) != sorted(bi) or sorted(ao) != sorted(bo):
                    ctx.violation(f"sort-loses-or-invents-a-map:{side}", f"sort_{side} ({mode}) changed the multiset of input or output maps", scase)
                elif (ao != bo) if side == "inputs" else (ai != bi):
                    ctx.violation(f"sort-reorders-the-other-side:{side}", f"sort_{side} ({mode}) reordered the other side", scase)
                if mode != "shuffle":
                    ks = [key_in(x) for x in p.inputs] if side == "inputs" else [key_out(x) for x in p.outputs]
                    if ks != sorted(ks):
                        ctx.violation(f"sort-not-sorted:{side}", f"sort_{side} with an ordering function ({mode}) is not in that order", scase)
                ctx.case(f"sort:{side}", (side, mode, ser(p)))
    reach.stop()
    reach.report(ctx)


def ser_in(pin) -> bytes:
    return pin.serialize(psbt_version=2, check_validity=False)


def _sort_keys(mode: str):
    """ordering functions for join / sort_inputs / sort_outputs: an integer read off the map's own bytes."""
    import hashlib

    if not mode.startswith("sort"):
        return None, None
    sign = -1 if mode == "sort-desc" else 1

    def key_in(pin) -> int:
        return sign * int.from_bytes(hashlib.sha256(bytes(pin.previous_tx_id) + pin.output_index.to_bytes(4, "little")).digest()[:6], "big")

    def key_out(pout) -> int:
        return sign * int.from_bytes(hashlib.sha256(pout.serialize(psbt_version=2, check_validity=False) if _takes_version(pout)
                                                    else pout.serialize(check_validity=False)).digest()[:6], "big")

    return key_in, key_out


def ser_out(pout, psbt) -> bytes:
    return pout.serialize(psbt_version=2, check_validity=False) if _takes_version(pout) else pout.serialize(check_validity=False)


def _takes_version(pout) -> bool:
    import inspect

    return "psbt_version" in inspect.signature(pout.serialize).parameters


def _prevouts(psbt):
    from btclib.psbt.psbt import prevouts

    return prevouts(psbt)


def pairs_inputs(psbt):
    """(key, value) multiset over the input maps only, outpoint fields left out (join renumbers nothing but may reorder)."""
    from collections import Counter

    from ..ref import psbtmap

    sp = psbtmap.parse(ser(psbt)).split()
    out = Counter()
    if sp is None:
        return out
    for m in sp[1]:
        for key, val in m:
            out[(bytes(key), bytes(val))] += 1
    return out
